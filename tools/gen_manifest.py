#!/usr/bin/env python3
"""Regenerate MANIFEST.json from tools/manifest_data.py (keeps it schema-valid)."""
import json, os, sys
HERE = os.path.dirname(os.path.abspath(__file__))
sys.path.insert(0, HERE)
import manifest_data as M

checks = []
for pid, d in sorted(M.CHECKS.items()):
    checks.append({
        "property_id": pid,
        "quick_cmd": f"./check {pid} --tier quick",
        "thorough_cmd": f"./check {pid} --tier thorough",
        "evidence_file": f"/verif/evidence/{pid}.json",
        "replay_cmd_template": "./check replay {path}",
        "engine": "pyvc+bounded",
        "level_claimed": {"category": d["category"], "text": d["text"], "design_ref": d.get("design_ref", "DESIGN.md section 8")},
        "level_note": d["note"],
        "technique": d["technique"],
    })
man = {
    "version": 1,
    "setup_cmd": "sh ./setup.sh",
    "hooks": {
        "guard": "PERMUTA_VERIF",
        "enable": "export PERMUTA_VERIF=1 (set by vlib/repo.py inside every check; no hook is currently compiled into /repo - contracts are sidecar)",
        "baseline_off_cmd": "cd /repo && env -u PERMUTA_VERIF /venv/bin/python -m pytest -ra -q -p no:cacheprovider --timeout=900 --continue-on-collection-errors",
        "source_commits": M.HOOK_COMMITS,
        "add_only": True,
    },
    "engines": [
        {"name": "pyvc", "path": "pyvc/", "serves_properties": sorted(M.CHECKS), "kind_free_text": "verification-condition generator over the Python AST of /repo (re-read every run) + z3 / cvc5; sidecar contracts in contracts/"},
        {"name": "bounded", "path": "props/ specs/ vlib/", "serves_properties": sorted(M.CHECKS), "kind_free_text": "the same contracts evaluated at run time on the real code over exhaustively enumerated small domains (bounded stand-in, never counted as proof)"},
    ],
    "checks": checks,
    "notes": M.NOTES,
    "not_applicable": [{"property_id": k, "reason": v} for k, v in sorted(M.NOT_APPLICABLE.items())],
}
with open(os.path.join(HERE, "..", "MANIFEST.json"), "w") as fh:
    json.dump(man, fh, indent=1)
try:
    import jsonschema
    jsonschema.validate(man, json.load(open("/root/.vp/MANIFEST.schema.json")))
    print("MANIFEST.json valid;", len(checks), "checks,", len(man["not_applicable"]), "not applicable")
except ImportError:
    print("written (jsonschema not available for validation)")
