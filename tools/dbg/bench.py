import sys, os, pickle, time
sys.path.insert(0,"/verif")
from get import *
q = sys.argv[1]
if q.startswith("lemma:"):
    eng = engine.Engine(driver.repo_index()); obls = eng.verify_lemma(q[6:])
else:
    obls, eng = obls_of(q)
obls = [o for o in obls if o.expect != "sat"]
P = 16
pipes=[]
for r in range(P):
    rd, wr = os.pipe(); pid = os.fork()
    if pid == 0:
        os.close(rd); out=[]
        for i in range(r, len(obls), P):
            res, t, s = try_em(obls[i], 10000)
            st = s.statistics(); d = {k: st.get_key_value(k) for k in st.keys()}
            out.append((obls[i].name, str(res), t, d.get("quant instantiations", 0)))
        with os.fdopen(wr,"wb") as fh: pickle.dump(out, fh)
        os._exit(0)
    os.close(wr); pipes.append((pid, rd))
allr=[]
for pid, rd in pipes:
    with os.fdopen(rd,"rb") as fh: allr += pickle.loads(fh.read())
    os.waitpid(pid,0)
allr.sort(key=lambda x: -x[2])
for r in allr[:int(sys.argv[2]) if len(sys.argv)>2 else 20]: print(r)
print("total", len(allr), "not unsat:", sum(1 for r in allr if r[1] != "unsat"))
