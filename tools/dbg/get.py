import sys, time, pickle
sys.path.insert(0, "/verif")
import z3
from vlib import repo
repo.import_permuta()
from pyvc import driver, dsl, engine, solve
driver.load_contracts()
def obls_of(q):
    eng = engine.Engine(driver.repo_index())
    return eng.verify(q), eng
def find(obls, name):
    return [o for o in obls if o.name == name][0]
def try_em(ob, ms=20000, extra=()):
    s = z3.Solver(); s.set("timeout", ms); s.set("auto_config", False); s.set("mbqi", False); s.set("relevancy", int(__import__("os").environ.get("REL","2")))
    for h in ob.hyps: s.add(h)
    for h in extra: s.add(h)
    s.add(z3.Not(ob.goal))
    t=time.time(); r = s.check(); return r, round(time.time()-t,2), s
if __name__ == "__main__":
    q, name = sys.argv[1], sys.argv[2]
    obls, eng = obls_of(q)
    ob = find(obls, name)
    print("hyps", len(ob.hyps))
    print("GOAL", ob.goal)
    r, t, s = try_em(ob)
    print(r, t)
    st = s.statistics()
    for k in st.keys():
        if "quant" in k or "inst" in k or "conflicts" in k or "decisions" in k: print(k, st.get_key_value(k))
    if len(sys.argv) > 3:
        for i, h in enumerate(ob.hyps):
            t = str(h)
            print(f"--- H{i}:", t[:int(sys.argv[3])])
