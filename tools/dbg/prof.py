import sys
sys.path.insert(0,"/verif")
from get import *
z3.set_param("smt.qi.profile", True)
z3.set_param("smt.qi.profile_freq", 1000000)
q = sys.argv[1]
if q.startswith("lemma:"):
    eng = engine.Engine(driver.repo_index()); obls = eng.verify_lemma(q[6:])
else:
    obls, eng = obls_of(q)
ob = find(obls, sys.argv[2])
# name quantifiers: re-wrap hyps with qid
r, t, s = try_em(ob, int(sys.argv[3]) if len(sys.argv)>3 else 8000)
print(r, t)
