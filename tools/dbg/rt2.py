import sys, time
sys.path.insert(0,"/verif")
from vlib import repo
repo.import_permuta()
from pyvc import driver, policy, dsl
driver.load_contracts()
for q in sys.argv[1:]:
    t=time.time(); n=bad=na=0
    for (_q, a) in policy.runtime_inputs(q, quick=True, cap=600):
        r = policy.runtime_contract(q, list(a)); n+=1
        if r is None: na+=1
        elif not r[0]:
            bad+=1
            if bad<3: print("  BAD", q, a, r[1][:200])
    print(f"{q:<40} inputs={n} n/a={na} bad={bad} {time.time()-t:.1f}s")
