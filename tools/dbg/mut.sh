#!/bin/bash
# usage: mut.sh <file under permuta/> '<sed expr>' <driver names...>
F="$1"; E="$2"; shift 2
SCR=$(mktemp -d /tmp/scr_mut_XXXX)
cp -r /repo/permuta $SCR/permuta
sed -i "$E" $SCR/permuta/$F
diff /repo/permuta/$F $SCR/permuta/$F | head -6
cd /verif
VERIF_REPO=$SCR PYVC_BUDGET=1000 PYVC_INNER_PROCS=16 timeout 1500 .venv/bin/python -m pyvc.driver "$@" 2>&1 | grep -v "^   ok" | cut -c1-230 | grep -v "^ *[0-9.]* ms" | head -8
rm -rf $SCR
