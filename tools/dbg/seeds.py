import sys
sys.path.insert(0,"/verif")
from get import *
obls, eng = obls_of(sys.argv[1])
for name in sys.argv[2:]:
    ob = find(obls, name)
    for seed in range(6):
        s = z3.Solver(); s.set("timeout", 4000); s.set("auto_config", False); s.set("mbqi", False); s.set("random_seed", seed); s.set("smt.random_seed", seed)
        for h in ob.hyps: s.add(h)
        s.add(z3.Not(ob.goal))
        t=time.time(); r=s.check(); print(name[-22:], seed, r, round(time.time()-t,2))
