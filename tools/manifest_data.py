HOOK_COMMITS = []
NOTES = "Contract-based deductive verification (pyvc: own VC generator over the real AST + z3/cvc5) with the same contracts evaluated at run time over exhaustive small domains as the labelled bounded stand-in. See DESIGN.md."
_B = "bounded stand-in: run-time contracts on the real code over exhaustively enumerated small domains (+ seeded samples); spec functions are independent definitions"
CHECKS = {
    "C01": {
        "category": "exploration",
        "text": "Listing exactness of the pruned backtracking is decided by the bounded stand-in (all pattern/permutation pairs up to a size, reuse histories of one pattern object); wrapper consistency and memo discipline are deductive obligations over the real AST.",
        "note": "bounded to the stated sizes; brute-force spec over itertools.combinations; CPython tuple/list semantics",
        "technique": "run-time contracts vs brute-force definition over all pairs up to a size (bounded) + deductive wrapper/memo obligations (pyvc/z3)",
    },
}
NOT_APPLICABLE = {f"C{n:02d}": "check under construction in this session (not yet claimed)" for n in range(2, 21)}
