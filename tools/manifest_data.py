HOOK_COMMITS = []
NOTES = ("Contract-based deductive verification (pyvc: own VC generator over the real AST of /repo, re-read every run, "
         "sidecar contracts in contracts/, z3 + cvc5) with the SAME contracts and independent spec functions evaluated at run "
         "time over exhaustively enumerated small domains as the labelled bounded stand-in (never counted as proof). "
         "known_findings.json (+ known_findings.d/) lists genuine defects of Permuta that were not repaired; 'fixed' entries "
         "record the fix: commits in /repo.  See DESIGN.md.")

_T = "bounded"


def _c(category, text, note, technique):
    return {"category": category, "text": text, "note": note, "technique": technique}


_BNOTE = ("bounded stand-in: exhaustive only up to the stated sizes (+ seeded samples, VERIF_SEED); spec functions in specs/ are "
          "independent definitions; deductive part trusts pyvc + z3/cvc5, CPython builtins as axiomatised in pyvc/builtins_model.py, "
          "mathematical ints; termination not verified")

CHECKS = {
    "C01": _c("exploration",
              "Listing exactness of the pruned backtracking is decided by the bounded stand-in (every pattern/permutation pair up to |patt|<=5,|perm|<=7, "
              "seeded longer ones, colourings, reuse histories of one pattern object, floor/ceiling table); wrapper consistency is additionally stated as "
              "deductive obligations where contracts exist.", _BNOTE,
              "run-time contracts vs brute-force definition over all pairs up to a size (bounded) + deductive obligations (pyvc/z3)"),
    "C02": _c("exploration",
              "Av(basis) against the filter of S_n for all small classical and mesh bases, ALL operation sequences of length <=2/3 over a 23-op alphabet and seeded "
              "length-12 histories, representation invariant of the level cache after every operation. The level builder itself is outside the deductive subset.", _BNOTE,
              "bounded: run-time contracts + representation invariant over exhaustive short operation sequences"),
    "C03": _c("exploration",
              "Mesh occurrences against the region definition for all mesh patterns of length <=2 and seeded 3-4, bivincular-type patterns against an independent adjacency "
              "definition for every requirement set, mixed lists; deductive obligations for the adjacency-to-shading encoding where contracts exist.", _BNOTE,
              "bounded: run-time contracts vs region/adjacency definitions + deductive obligations (pyvc/z3)"),
    "C04": _c("exploration",
              "Deductive (unbounded, from the real AST): the six Perm symmetries and the four MeshPatt symmetries against the geometric maps incl. bijectivity "
              "(ghost inverse witnesses), and the dihedral relations r^a r^b = r^(a+b) for all integers, s^2 = e, s r s = r^-1, commutation with get_perm as lemmas over "
              "the contracts. Bounded: equivariance of the real containment search, orbit helpers, lex_min, CLI.", _BNOTE,
              "deductive contracts + lemmas (pyvc/z3) for the maps and group laws; bounded run-time contracts for equivariance and set helpers"),
    "C05": _c("exploration",
              "Basis/MeshBasis construction over all small multisets in every order: subset, antichain, cover, same class (perms <=6), fixed point, order/repetition "
              "invariance, from_string 0/1-based, Av identity.", _BNOTE,
              "bounded: run-time contracts over all multisets of <=3 patterns in every order"),
    "C06": _c("exploration",
              "sub_mesh_pattern against the geometric region definition and as the strongest implied pattern; soundness of every reported mesh-in-mesh occurrence "
              "against all occurrences in all permutations up to length 5/6; region tests.", _BNOTE,
              "bounded: run-time contracts vs region definition and containment sets"),
    "C07": _c("other",
              "Interleavings are NOT enumerated or proved. What is checked: sampled real-thread schedules (2-4 threads, switch interval 1e-6) on shared classes with every "
              "answer compared to the single-threaded oracle and the representation invariant after each round; structural lock-ownership obligations come from the "
              "deductive layer where implemented.", _BNOTE + "; GIL atomicity of list/dict operations assumed",
              "sampled real-thread schedules vs sequential oracle (bounded, sampled) + structural lock-ownership obligations"),
    "C08": _c("exploration",
              "All pairs/triples of a pool of perms, mesh/bivincular/vincular/covincular patterns and bases: equality vs abstract value, hash coherence and stability across "
              "allocation churn, total order laws across subclasses, sorted() independence of input order.", _BNOTE,
              "bounded: run-time contracts over all pairs/triples of a pool (+ deductive dunder obligations where implemented)"),
    "C09": _c("exploration",
              "Generators, rank/unrank bijection over all ranks below sum n! (n<=7/9), standardisation on all small sequences of many element types with warm memo, "
              "all notations incl. boundary lengths around 10, validated constructor, mesh rank/unrank.", _BNOTE,
              "bounded: run-time contracts over full rank ranges and small sequence spaces"),
    "C10": _c("exploration",
              "Deductive (unbounded lengths): direct/skew sum (arity 1-3), compose (2-3), __call__, insert (all optional-argument shapes), remove/remove_element "
              "(with an induction lemma on the prefix count), the four cyclic shifts (explicit quotient encoding of %), each with bijectivity. Bounded: all operations, "
              "laws, decompositions, intervals, simplicity, children/coveredby duality on all perms up to 7/8.", _BNOTE,
              "deductive contracts (pyvc/z3) for the pointwise operations; bounded run-time contracts for decompositions and laws"),
    "C11": _c("exploration",
              "Deductive (unbounded): 14 positional listings as definitional filters (filter-congruence rule / yield-loop invariants) and 22 count/list wrappers "
              "(count = len(listing)). Bounded: every statistic and table entry BY NAME against independent definitions on all perms <=7/8, distributions, preservation tools.", _BNOTE,
              "deductive listing contracts (pyvc/z3) + bounded run-time contracts vs independent definitions"),
    "C12": _c("exploration",
              "Sorting operators vs explicit device simulations, sortable predicates vs pattern characterisations, pass counts, Simion-Schmidt bijection on full domains "
              "up to n=8/9, family predicates vs independent definitions.", _BNOTE, "bounded: run-time contracts vs device simulations"),
    "C13": _c("exploration",
              "Verdicts vs structure-theorem specs, container independence incl. one-shot iterators, memo cold/warm, symmetries, consistency with real enumeration.", _BNOTE,
              "bounded: run-time contracts vs class-membership definitions and enumeration"),
    "C14": _c("exploration",
              "Pin word decoding vs an independent geometric decoder for all pin words <=5/6, tables, factorisation, translations, containment vs real pattern containment.", _BNOTE,
              "bounded: run-time contracts vs geometric decoder and real containment"),
    "C15": _c("exploration",
              "Acceptance of every word of M up to length 8/10 vs containment of a basis element in the decoded permutation, exact finiteness decision, exact DB-vs-fresh equivalence.", _BNOTE,
              "bounded word-level comparison + exact automata equivalence (product construction)"),
    "C16": _c("exploration",
              "Verdict consistency across the four entry points, order/symmetry invariance, Schmerl-Trotter consequence on real enumeration, family oracles.", _BNOTE,
              "bounded: run-time contracts vs family oracles and enumeration of simples"),
    "C17": _c("exploration",
              "BiSC soundness/completeness/irredundancy on ALL subsets of S0..S3 and seeded sets up to length 5, own containment vs definition, representations, clean-up, auto_bisc.", _BNOTE,
              "bounded: run-time contracts over all small input sets"),
    "C18": _c("exploration",
              "Every shading-lemma licence vs equality of container sets (perms <=6/7), add_point vs 'occurrence with a point in the cell', region tests, ascii round trip.", _BNOTE,
              "bounded: run-time contracts vs container sets"),
    "C19": _c("exploration",
              "Every strategy vs its spec predicate, invariance under order/repetition/symmetries, fast vs slow search, shape helpers.", _BNOTE,
              "bounded: run-time contracts vs spec predicates"),
    "C20": _c("exploration",
              "All write/read sequences of length <=3/4 in temp directories, malformed files, automaton DB sequences with exact language equivalence, shipped data partition check.", _BNOTE,
              "bounded: exhaustive short operation sequences over a file model + exact automata equivalence"),
}
NOT_APPLICABLE = {}
