HOOK_COMMITS = []
NOTES = ("Contract-based deductive verification (pyvc: own VC generator over the real AST of /repo, re-read every run, "
         "sidecar contracts in contracts/, z3 + cvc5) with the SAME contracts and independent spec functions evaluated at run "
         "time over exhaustively enumerated small domains as the labelled bounded stand-in (never counted as proof). "
         "known_findings.json (+ known_findings.d/) lists genuine defects of Permuta that were not repaired; 'fixed' entries "
         "record the fix: commits in /repo.  See DESIGN.md.")

_T = "bounded"


def _c(category, text, note, technique):
    return {"category": category, "text": text, "note": note, "technique": technique}


_BNOTE = ("bounded stand-in: exhaustive only up to the stated sizes (+ seeded samples, VERIF_SEED); spec functions in specs/ are "
          "independent definitions; deductive part trusts pyvc + z3/cvc5, CPython builtins as axiomatised in pyvc/builtins_model.py, "
          "mathematical ints; termination not verified")

_DNOTE = ("deductive part: pyvc (own VC generator over the real AST of /repo, re-read every run) + z3 E-matching / MBQI + cvc5; trusted: pyvc, "
          "the solvers, CPython builtins as axiomatised in pyvc/builtins_model.py and the named proof rules of DESIGN.md section 3.3, "
          "mathematical ints; termination not verified.  ")

CHECKS = {
    "C01": _c("proof",
              "Every function on the path of the property is under a contract that is discharged for ALL lengths: the recursive pruned backtracking "
              "Perm.occurrences_in (with and without colourings) against the property statement itself - the listing is, in strictly increasing "
              "lexicographic order, exactly the strictly increasing index tuples order-isomorphic to the pattern (soundness, completeness, each once) - "
              "via an inner contract on the nested generator and an induction lemma chain; the left floor / left ceiling table (deque rotation "
              "algorithm) and the memoised per-pattern table; contains / avoids / avoids_set / `in` / counts (0-3 patterns) as the stated functions of "
              "that listing; memo-invariant and frame obligations for the reuse histories.  The bounded layer (all pairs |patt|<=5, |perm|<=7, "
              "colourings, suspended generators) is kept as a cross-check.  Level falls back to exploration on any run where an obligation is not discharged.",
              _DNOTE + "Partial correctness of the recursion; LISTING-CARDINALITY (OCCN = length of the listing) is definitional; variadic calls are proved for 0-3 patterns.",
              "contract-based deductive verification of the real code (pyvc + z3/cvc5): postcondition = property statement; bounded run-time contracts as cross-check"),
    "C02": _c("exploration",
              "Av(basis) against the filter of S_n for all small classical and mesh bases, ALL operation sequences of length <=2/3 over a 23-op alphabet and seeded "
              "length-12 histories, representation invariant of the level cache after every operation (bounded).  Deductive: count / enumeration / membership are "
              "the stated functions of the level container (ASSUMED contract of the level builder), lock-ownership obligation O2.  The level builder itself "
              "(insertion encoding over dictionaries of permutations) is outside the deductive subset.", _BNOTE,
              "bounded run-time contracts + representation invariant over exhaustive short operation sequences; deductive wrappers over an assumed level contract"),
    "C03": _c("exploration",
              "Deductive (all sizes): MeshPatt._occurrences_in_perm / occurrences_in(Perm) against the definition - exactly the classical occurrences for which "
              "no other point falls in a shaded cell, cell = (number of occurrence points to the left, number below), in lexicographic order, each once; "
              "the adjacency-to-shading encoding of bivincular-type patterns; Perm._contains on a mesh pattern.  Bounded: all mesh patterns of length <=2 x perms <=5/6, "
              "seeded 3-4, every adjacency requirement set, mixed lists (the bivincular override and the mixed-list entry points are decided by the bounded layer).", _BNOTE,
              "deductive contracts (pyvc/z3) for the mesh occurrence listing and the adjacency encoding + bounded run-time contracts vs region/adjacency definitions"),
    "C04": _c("exploration",
              "Deductive (unbounded, from the real AST): the six Perm symmetries and the four MeshPatt symmetries against the geometric maps incl. bijectivity "
              "(ghost inverse witnesses), the dihedral relations r^a r^b = r^(a+b) for all integers, s^2 = e, s r s = r^-1, commutation with get_perm, and 'q contains p "
              "iff g.q contains g.p' for classical patterns and the generators reverse / complement / inverse (explicit maps on occurrences) as lemmas over "
              "the contracts. Bounded: equivariance of the real search for mesh patterns and all eight maps, orbit helpers, lex_min, CLI.", _BNOTE,
              "deductive contracts + lemmas (pyvc/z3) for the maps and group laws; bounded run-time contracts for equivariance and set helpers"),
    "C05": _c("exploration",
              "Deductive: the greedy pruning (Basis._pruner, MeshBasis._pruner) over an abstract containment preorder yields a sub-list that is an antichain and covers every "
              "candidate; lemma: the (length, lexicographic) sort order is a linear extension of classical containment.  Bounded: Basis/MeshBasis construction over all small "
              "multisets in every order: subset, antichain, cover, same class (perms <=6), fixed point, order/repetition invariance, from_string 0/1-based, Av identity.", _BNOTE,
              "deductive contracts for the pruning algorithm + bounded run-time contracts over all multisets of <=3 patterns in every order"),
    "C06": _c("exploration",
              "Deductive (all sizes): is_shaded, is_pointfree and the whole region bookkeeping of sub_mesh_pattern (grid lines, preconditions of the region tests, "
              "'cell shaded iff the rectangle of original cells is fully shaded and point free').  Bounded: sub-pattern vs geometric definition and as the strongest "
              "implied pattern; soundness of every reported mesh-in-mesh occurrence (smaller pattern a MeshPatt or a Vincular / Covincular / Bivincular instance) against all "
              "occurrences in all permutations up to length 5/6; contains / avoids with 0-3 patterns vs the single listings.", _BNOTE,
              "deductive contracts (pyvc/z3) for the region bookkeeping + bounded run-time contracts vs region definition and containment sets"),
    "C07": _c("other",
              "Interleavings are NOT enumerated or proved. Structural lock-ownership obligations O1-O4 (every write to the shared cache or anything reachable from it "
              "happens under the one class lock on every call path; no re-entry; no publish-before-complete) are discharged on all paths; sampled real-thread schedules "
              "(2-4 threads, switch interval 1e-6) are compared with the single-threaded oracle and the representation invariant after each round.",
              _BNOTE + "; GIL atomicity of list/dict operations assumed",
              "structural lock-ownership obligations (all paths) + sampled real-thread schedules vs sequential oracle"),
    "C08": _c("proof",
              "179 obligations over the bodies of __eq__/__hash__/__lt__/__le__/__gt__/__ge__ of Perm, MeshPatt, BivincularPatt (and subclasses), Basis, MeshBasis "
              "under a model of Python's rich-comparison protocol: hash stability, equality is value equality, eq implies hash-eq, order defined / trichotomous / "
              "consistent with eq for all 16 class pairs, transitive for all 64 triples.  Bounded cross-check over pools of objects.",
              "trusted: the comparison-protocol model, value-hash vs identity-hash distinction, order axioms of tuples / sorted(shading) (DESIGN section 4)",
              "contract-based deductive verification of the comparison methods (pyvc.dunder + z3)"),
    "C09": _c("exploration",
              "Deductive: standardisation (unique order-isomorphic permutation, ties left to right) from the stable-sort axiom, validated constructor (accepts exactly the "
              "bijections), identity / monotone / one_based constructors, purity of the memoised helper.  Bounded: generators, rank/unrank over all ranks below sum n! "
              "(n<=7/9), standardisation of 15 kinds of values (incl. values that are equal and hash-equal but ordered differently) under a shared memo, all notations incl. "
              "boundary lengths around 10, mesh rank/unrank.", _BNOTE,
              "deductive contracts for standardisation and constructors + bounded run-time contracts over full rank ranges"),
    "C10": _c("exploration",
              "Deductive (unbounded lengths): direct/skew sum (arity 1-3), compose (2-3), __call__, insert (all optional-argument shapes), remove/remove_element, the four "
              "cyclic shifts, apply, + - *, each with bijectivity; sum/skew decomposability.  Bounded: all operations, laws, decompositions, intervals, simplicity, "
              "children/coveredby duality on all perms up to 7/8.", _BNOTE,
              "deductive contracts (pyvc/z3) for the pointwise operations; bounded run-time contracts for decompositions and laws"),
    "C11": _c("exploration",
              "Deductive (unbounded): 14 positional listings as definitional filters, left-to-right and right-to-left records, inversions / non-inversions as "
              "lexicographically sorted complete pair listings, strong fixed points, 30 count/list wrappers (count = len(listing)), monotonicity tests, is_involution, maximal_decreasing_run (loop invariant over the ghost inverse), longestruns_ascending (maximal-run starts via a recursively defined run start, characterised by a lemma), depth and major_index as sums over filters (FILTER-SUM / SUM-CONGRUENCE lemmas proved by induction). "
              "Bounded: every statistic and table entry BY NAME against independent definitions on all perms <=7/8 and block-structured perms of length 9-24, holeyness on seeded "
              "perms of length 8-12 vs all 2^n position sets, orders beyond 2^53 (prescribed cycle types), fresh-result check (callers mutating returned containers), "
              "distributions, preservation tools.", _BNOTE,
              "deductive listing contracts (pyvc/z3) + bounded run-time contracts vs independent definitions"),
    "C12": _c("exploration",
              "Deductive (all lengths): stack_sort, pop_stack_sort, bubble_sort and their recursive helpers are proved equal to a non-recursive description of one pass of "
              "the device (stack discipline as a pairwise order condition with ghost position maps; reversal of the maximal decreasing runs; min(prefix maximum, next entry)), "
              "each with an explicit inverse witness for 'the result is a permutation'; the sortable predicates are 'the operator's output (k passes) is the identity'; _is_sorted. "
              "quick_sort under an ASSUMED contract.  Partial correctness: termination is not verified - the three recursive operators exceed CPython's recursion limit near length 1000 (known findings C12-recursion-*).  Bounded: sorting operators vs explicit device simulations (all perms <=7/8, seeded 9-14, block-structured 9-20), pattern "
              "characterisations, pass counts (also > 1000 passes), Simion-Schmidt bijection on full domains up to n=8/9, families.",
              _BNOTE + "; Skolem spec functions RUN-DECOMPOSITION / PREFIX-ARGMAX / NEXT-GREATER; partial correctness of the recursive helpers",
              "deductive contracts (pyvc/z3) for three sorting operators + bounded run-time contracts vs device simulations"),
    "C13": _c("exploration",
              "Deductive: is_finite (arity 0-3), four run-shape predicates equal their class definitions, memo invariants, decomposability, and the classification of a "
              "permutation into the ten minimal non-polynomial classes (PolyPerms._find_type: split points into two monotone runs, layered permutations), the memoised _types and "
              "is_polynomial / is_non_polynomial (arity 0-3: every one of the ten types occurs among the basis elements).  Bounded: verdicts vs "
              "structure-theorem specs, container independence incl. one-shot iterators, memo cold/warm, symmetries, consistency with real enumeration.", _BNOTE,
              "deductive contracts for the finiteness / shape predicates + bounded run-time contracts vs class-membership definitions"),
    "C14": _c("exploration",
              "Pin word decoding vs an independent geometric decoder for all pin words <=5/6, tables, factorisation, translations, containment vs real pattern containment "
              "(bounded).  Deductive: is_strict_pinword and factor_pinword (strings as sequences of character codes) against their definitions, purity of the memoised tables "
              "(exact rationals, dictionaries and the recursive containment test are outside the subset).", _BNOTE,
              "bounded run-time contracts vs geometric decoder and real containment"),
    "C15": _c("exploration",
              "Deductive: the literal transition table of the automaton for M is decided exactly against the definition (product construction), purity.  Bounded: acceptance "
              "of every word of M up to length 8/10 vs containment of a basis element in the decoded permutation, exact finiteness decision, exact DB-vs-fresh equivalence, names.", _BNOTE,
              "exact automaton-language obligation + bounded word-level comparison and exact automata equivalence"),
    "C16": _c("exploration",
              "Deductive: has_finite_special_simples, has_finite_simples (every check_all/use_db), Av.has_finitely_many_simples are the stated combinations of the four "
              "family verdicts and the finite/polynomial short-circuits (family tests under ASSUMED ghost verdicts).  Bounded: family oracles, order/symmetry invariance, "
              "Schmerl-Trotter consequence on real enumeration.", _BNOTE,
              "deductive wrapper contracts over ghost family verdicts + bounded run-time contracts vs family oracles"),
    "C17": _c("exploration",
              "Deductive: maximal_mesh_pattern_of_occurrence = complement of the cells occupied by non-occurrence points; BiSC's own containment test "
              "(perm_contains_cl_patt_many_shadings) agrees with mesh-pattern containment (same notion of cell as the verified mesh occurrence listing).  Bounded: BiSC soundness/completeness/irredundancy on "
              "ALL subsets of S0..S3 and seeded sets up to length 5, own containment vs definition, representations, one predicate object asked repeatedly (histories), clean-up, auto_bisc.", _BNOTE,
              "deductive contract for the occupied-cell computation + bounded run-time contracts over all small input sets"),
    "C18": _c("exploration",
              "Deductive (all sizes): point insertion (_add_point_new_perm through the iterator-split rule, cell splitting, add_point incl. the four directions), the six "
              "side conditions of the north-east shading lemma and the side conditions of the simultaneous lemma, can_shade / can_simul_shade (reported values name a corner "
              "point of the original cells), add_increase / add_decrease, region tests.  Bounded: every "
              "shading-lemma licence vs equality of container sets (perms <=6/7), derived patterns vs fresh equal patterns after earlier queries (histories), ascii round trip.", _BNOTE,
              "deductive contracts (pyvc/z3) for point insertion and the side conditions + bounded run-time contracts vs container sets"),
    "C19": _c("exploration",
              "Deductive: shape helpers (fstrip, bstrip, zero_plus_perm, one_based), decomposability.  Bounded: every strategy vs its spec predicate, invariance under "
              "order/repetition/symmetries, fast vs slow search.", _BNOTE,
              "bounded run-time contracts vs spec predicates + deductive helper contracts"),
    "C20": _c("exploration",
              "No deductive part (files are outside the subset).  All write/read sequences of length <=3/4 in temp directories, malformed files, automaton DB sequences with "
              "exact language equivalence, odd data-set names with decoy files, raw JSON round trips of non-standard sequences, shipped data partition check: run-time contracts on "
              "the real functions, bounded.", _BNOTE,
              "bounded run-time contracts: exhaustive short operation sequences on real files + exact automata equivalence"),
}
NOT_APPLICABLE = {}
