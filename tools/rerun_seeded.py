#!/usr/bin/env python3
"""Re-run every confirmed seeded change (seeded/<ID>_<k>/patch.diff) against the CURRENT quick check of its property
(scratch copy of /repo + patch, tools/try_mutation.sh).  Every one must be reported (exit 1 with a VIOLATION line).
Usage: .venv/bin/python tools/rerun_seeded.py [jobs] [ID_k ...]      prints one line per change, then a summary"""
import concurrent.futures as cf
import glob
import json
import os
import re
import subprocess
import sys

ROOT = os.path.dirname(os.path.dirname(os.path.abspath(__file__)))


def run(d):
    pid = os.path.basename(d).split("_")[0]
    r = subprocess.run(["sh", os.path.join(ROOT, "tools", "try_mutation.sh"), pid, os.path.join(d, "patch.diff"), "quick"], capture_output=True, text=True)
    checks = sorted(set(re.findall(r"check=(\S+)", r.stdout)) | set(re.findall(r"obligation=(\S+)", r.stdout)))
    return os.path.basename(d), r.returncode, checks


def main():
    args = sys.argv[1:]
    jobs = int(args.pop(0)) if args and args[0].isdigit() else 3
    dirs = sorted(glob.glob(os.path.join(ROOT, "seeded", "C*_*")))
    if args:
        dirs = [d for d in dirs if os.path.basename(d) in args]
    retired = [d for d in dirs if "retired" in json.load(open(os.path.join(d, "meta.json")))]
    for d in retired:
        print(f"{os.path.basename(d)} retired (see its meta.json)", flush=True)
    dirs = [d for d in dirs if d not in retired]
    missed = []
    with cf.ThreadPoolExecutor(jobs) as ex:
        for name, rc, checks in ex.map(run, dirs):
            print(f"{name} exit={rc} {' '.join(checks[:4])}", flush=True)
            if rc != 1:
                missed.append(name)
    print(f"{len(dirs)} changes, not reported: {missed or 'none'}")
    return 1 if missed else 0


if __name__ == "__main__":
    sys.exit(main())
