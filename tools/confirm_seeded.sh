#!/bin/sh
# usage: tools/confirm_seeded.sh <ID> <k>     (reads /tmp/mut/<ID>/patch_<k>.diff, demo_<k>.py, meta_<k>.json)
# Confirms in a fresh scratch worktree of /repo that (1) the pinned suite passes with the change,
# (2) the demonstration fails with the change and (3) passes without it; then runs the property's
# quick check against a scratch copy with the change.  On success the change is kept as
# /verif/seeded/<ID>_<k>/ {patch.diff, demo.py, meta.json}.  The worktree is removed in every case.
ID="$1"; K="$2"; SRC="${MUT_SRC:-/tmp/mut}/$ID"; KOUT="${3:-$K}"
WT="$(mktemp -d /tmp/cs_${ID}_${K}_XXXX)"; rmdir "$WT"
git -C /repo worktree add -q --detach "$WT" HEAD || exit 2
cleanup() { git -C /repo worktree remove --force "$WT" 2>/dev/null; rm -rf "$WT"; }
cd "$WT" || { cleanup; exit 2; }
if ! git apply --whitespace=nowarn "$SRC/patch_$K.diff"; then echo "$ID/$K: PATCH DOES NOT APPLY"; cleanup; exit 2; fi
SUITE="$(/venv/bin/python -m pytest -q -p no:cacheprovider --timeout=900 -n 6 2>&1 | tail -1)"
PYTHONPATH="$WT" /venv/bin/python "$SRC/demo_$K.py" > "$WT/.demo_with.txt" 2>&1; RC_WITH=$?
git checkout -q -- . 
PYTHONPATH="$WT" /venv/bin/python "$SRC/demo_$K.py" > "$WT/.demo_without.txt" 2>&1; RC_WITHOUT=$?
DEMO_TAIL="$(tail -3 "$WT/.demo_with.txt" | tr '\n' ' ' | cut -c1-300)"
cleanup
cd /verif
CHECK_OUT="$(tools/try_mutation.sh "$ID" "$SRC/patch_$K.diff" quick 2>&1)"
CHECK_RC=$?
echo "$ID/$K: suite=[$SUITE] demo_with=$RC_WITH demo_without=$RC_WITHOUT check_exit=$CHECK_RC"
case "$SUITE" in *"542 passed"*) OKS=1;; *) OKS=0;; esac
if [ "$OKS" = 1 ] && [ "$RC_WITH" != 0 ] && [ "$RC_WITHOUT" = 0 ]; then
  D="/verif/seeded/${ID}_${KOUT}"; mkdir -p "$D"
  cp "$SRC/patch_$K.diff" "$D/patch.diff"; cp "$SRC/demo_$K.py" "$D/demo.py"
  /verif/.venv/bin/python - "$SRC/meta_$K.json" "$D/meta.json" "$ID" "$SUITE" "$RC_WITH" "$RC_WITHOUT" "$CHECK_RC" "$DEMO_TAIL" "$CHECK_OUT" <<'PY'
import json, sys
src, dst, pid, suite, rw, rwo, crc, tail, cout = sys.argv[1:10]
try:
    meta = json.load(open(src))
except Exception:
    meta = {}
meta.update({
    "property": pid,
    "confirmed_by_lead": {
        "pinned_suite_with_change": suite,
        "demo_exit_with_change": int(rw), "demo_exit_without_change": int(rwo),
        "demo_output_tail": tail,
        "ran": ["git worktree add (scratch) + git apply patch.diff", "/venv/bin/python -m pytest -q -p no:cacheprovider --timeout=900 -n 6",
                "PYTHONPATH=<worktree> /venv/bin/python demo.py (with, then without the change)",
                f"tools/try_mutation.sh {pid} patch.diff quick  (VERIF_REPO=scratch copy)"],
    },
    "check_result": {"quick_exit": int(crc), "detected": int(crc) == 1, "output": cout[:1500]},
})
json.dump(meta, open(dst, "w"), indent=1)
PY
  echo "   kept as $D (detected by quick check: $([ "$CHECK_RC" = 1 ] && echo yes || echo NO))"
else
  echo "   NOT KEPT (confirmation failed)"
fi
