#!/usr/bin/env python3
"""Table of what the last run of every check covered (from evidence/*.json)."""
import glob, json, os
HERE = os.path.dirname(os.path.abspath(__file__))
rows = []
for path in sorted(glob.glob(os.path.join(HERE, "..", "evidence", "C*.json"))):
    e = json.load(open(path)); c = e["coverage"]
    fns = c.get("functions_under_contract", [])
    real = sorted({f["function"] for f in fns if not str(f["function"]).startswith("lemma:")})
    lem = [f for f in fns if str(f["function"]).startswith("lemma:")]
    rows.append((e["property_id"], e["tier"], e["level"], len(real), len(lem), c.get("obligations", 0), c.get("discharged", 0), len(c.get("undecided", [])),
                 c.get("evaluations", 0), c.get("distinct_nontrivial", 0), len(c.get("known_findings_matched", {})), e["wall_s"]))
print("| id | tier | level | functions under contract | lemmas | obligations | discharged | undecided | bounded evaluations | non-trivial | known findings hit | wall s |")
print("|---|---|---|---|---|---|---|---|---|---|---|---|")
for r in rows:
    print("| " + " | ".join(str(x) for x in r) + " |")
print()
print("totals: obligations", sum(r[5] for r in rows), "discharged", sum(r[6] for r in rows), "bounded evaluations", sum(r[8] for r in rows))
