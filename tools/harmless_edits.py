#!/usr/bin/env python3
"""Behaviour-preserving edits of /repo (applied one at a time to a scratch copy): every affected
check must still exit 0.  Usage: tools/harmless_edits.py [name ...]"""
import os, shutil, subprocess, sys, tempfile

EDITS = {
    # name: (file, old, new, [properties to run])
    "inverse-rename-local": ("permuta/patterns/perm.py",
        "        result = [0] * len(self)\n        for idx, val in enumerate(self):\n            result[val] = idx\n        return Perm(result)",
        "        res = [0] * len(self)\n        for idx, val in enumerate(self):\n            res[val] = idx\n        return Perm(res)", ["C04", "C10"]),
    "complement-as-loop": ("permuta/patterns/perm.py",
        "        base = len(self) - 1\n        return Perm(base - element for element in self)",
        "        base = len(self) - 1\n        out = []\n        for element in self:\n            out.append(base - element)\n        return Perm(out)", ["C04"]),
    "rotate-reorder": ("permuta/patterns/perm.py",
        "        n = len(self)\n        result = [0] * n\n        if times == 1:",
        "        result = [0] * len(self)\n        n = len(self)\n        if times == 1:", ["C04"]),
    "lock-into-ensure-level": ("permuta/perm_sets/permset.py",
        "        with Av._CACHE_LOCK:\n            self._ensure_level(level_number)\n        return self.cache[level_number]",
        "        self._ensure_level_locked(level_number)\n        return self.cache[level_number]\n\n    def _ensure_level_locked(self, level_number: int) -> None:\n        with Av._CACHE_LOCK:\n            self._ensure_level(level_number)", ["C07", "C02"]),
    "memo-clear-method": ("permuta/permutils/polynomial.py",
        "    @staticmethod\n    def _types(perm: Perm) -> FrozenSet[int]:",
        "    @classmethod\n    def clear_cache(cls) -> None:\n        \"\"\"Forget memoised types.\"\"\"\n        cls._CACHE.clear()\n\n    @staticmethod\n    def _types(perm: Perm) -> FrozenSet[int]:", ["C13"]),
    "contains-fast-path": ("permuta/patterns/perm.py",
        "    def _contains(self, patt: \"Patt\") -> bool:\n        if isinstance(patt, Patt):",
        "    def _contains(self, patt: \"Patt\") -> bool:\n        if isinstance(patt, Patt) and len(patt) > len(self):\n            return False\n        if isinstance(patt, Patt):", ["C01", "C03"]),
    "fixed-points-as-loop": ("permuta/patterns/perm.py",
        "        return (idx for idx, val in enumerate(self) if idx == val)",
        "        return iter([idx for idx in range(len(self)) if self[idx] == idx])", ["C11"]),
    "mesh-reverse-local": ("permuta/patterns/meshpatt.py",
        "        n = len(self)\n        return MeshPatt(self.pattern.reverse(), ((n - x, y) for (x, y) in self.shading))",
        "        size = len(self.pattern)\n        cells = {(size - x, y) for (x, y) in self.shading}\n        return MeshPatt(self.pattern.reverse(), cells)", ["C04"]),
    "is-shaded-early-exit": ("permuta/patterns/meshpatt.py",
        "        (left, lower), (right, upper) = lower_left, upper_right\n        return all(\n            (x, y) in self.shading\n            for y in range(lower, upper + 1)\n            for x in range(left, right + 1)\n        )",
        "        (left, lower), (right, upper) = lower_left, upper_right\n        for y in range(lower, upper + 1):\n            for x in range(left, right + 1):\n                if (x, y) not in self.shading:\n                    return False\n        return True", ["C06", "C18"]),
    "hash-explicit-tuple": ("permuta/patterns/meshpatt.py",
        "        return hash((self.pattern, self.shading))",
        "        key = (self.pattern, self.shading)\n        return hash(key)", ["C08"]),
    "occurrences-rename-locals": ("permuta/patterns/perm.py",
        "                element = pattern[i]\n                compare_colours = (\n                    self_colours is None or patt_colours[i] == self_colours[k]\n                )\n                if compare_colours and lower_bound <= element <= upper_bound:",
        "                cur = pattern[i]\n                colours_ok = (\n                    self_colours is None or patt_colours[i] == self_colours[k]\n                )\n                if colours_ok and lower_bound <= cur <= upper_bound:", ["C01"]),
    "occurrences-split-update": ("permuta/patterns/perm.py",
        "                i, elements_remaining = i + 1, elements_remaining - 1",
        "                i += 1\n                elements_remaining -= 1", ["C01"]),
    "occurrences-early-guard": ("permuta/patterns/perm.py",
        "        if n > len(pattern):\n            return\n",
        "        if n > len(pattern) or len(pattern) == 0:\n            return\n", ["C01"]),
    "floor-ceiling-rotate-other-way": ("permuta/patterns/perm.py",
        "                while not deq[-1][0] <= val <= deq[0][0]:\n                    deq.rotate(1)",
        "                while not deq[-1][0] <= val <= deq[0][0]:\n                    deq.rotate(-1)", ["C01"]),
    "floor-ceiling-rename": ("permuta/patterns/perm.py",
        "        smallest, biggest = -1, -1\n        for idx, val in enumerate(self):\n            if idx == 0:\n                deq.append((val, idx))\n                smallest, biggest = val, val",
        "        smallest, biggest = -1, -1\n        for idx, val in enumerate(self):\n            if not idx:\n                deq.append((val, idx))\n                smallest = biggest = val", ["C01"]),
    "mesh-occ-y-as-loop": ("permuta/patterns/meshpatt.py",
        "                y = sum(\n                    1 for candidate_element in candidate if candidate_element < element\n                )",
        "                y = 0\n                for candidate_element in candidate:\n                    if candidate_element < element:\n                        y += 1", ["C03"]),
    "mesh-occ-flag-instead-of-for-else": ("permuta/patterns/meshpatt.py",
        "                if (x, y) in self.shading:\n                    break\n            else:\n                yield tuple(candidate_indices)",
        "                if (x, y) in self.shading:\n                    ok = False\n                    break\n            else:\n                ok = True\n            if ok:\n                yield tuple(candidate_indices)", ["C03"]),
    "major-index-other-spelling": ("permuta/patterns/perm.py",
        "        return sum(1 + desc for desc in self.descents())",
        "        return sum(d + 1 for d in self.descent_set())", ["C11"]),
    "depth-list-comprehension": ("permuta/patterns/perm.py",
        "        return sum(val - idx for idx, val in enumerate(self) if val > idx)",
        "        return sum([v - k for k, v in enumerate(self) if k < v])", ["C11"]),
    "max-dec-run-weaker-break": ("permuta/patterns/perm.py",
        "            if next_val < max_not_included:\n                break",
        "            if next_val <= max_not_included:\n                break", ["C11"]),
    "longestruns-other-comparison": ("permuta/patterns/perm.py",
        "            if prev < curr:\n                if idx - cur + 2 > maxi:",
        "            if curr > prev:\n                if idx - cur + 2 > maxi:", ["C11"]),
    "inversions-swap-loops-names": ("permuta/patterns/perm.py",
        "        for i, prev in enumerate(self):\n            for j in range(i + 1, n):\n                if prev > self[j]:\n                    yield i, j",
        "        for i, left in enumerate(self):\n            for j in range(i + 1, n):\n                if left > self[j]:\n                    yield (i, j)", ["C11"]),
    "rtlmin-walrus-free": ("permuta/patterns/perm.py",
        "        lis, (n, min_val) = [], (len(self),) * 2",
        "        lis = []\n        n = min_val = len(self)", ["C11"]),
    "insenc-materialise-list": ("permuta/permutils/insertion_encodable.py",
        "        basis = tuple(basis)\n",
        "        basis = list(basis)\n", ["C13"]),
    "popstack-explicit-len-test": ("permuta/patterns/perm.py",
        "            if stack and num > stack[0]:\n                result.extend(stack)\n                stack.clear()",
        "            if len(stack) > 0 and stack[0] < num:\n                result.extend(stack)\n                stack.clear()", ["C12"]),
    "stacksort-rename-result-list": ("permuta/patterns/perm.py",
        "            n_lis = Perm._stack_sort(perm_slice[0:max_i])\n            n_lis.extend(Perm._stack_sort(perm_slice[max_i + 1 : n]))\n        n_lis.append(max_v)\n        return n_lis\n\n    def stack_sort",
        "            n_lis = Perm._stack_sort(perm_slice[:max_i])\n            right = Perm._stack_sort(perm_slice[max_i + 1 :])\n            n_lis.extend(right)\n        n_lis.append(max_v)\n        return n_lis\n\n    def stack_sort", ["C12"]),
    "bubblesort-length-test": ("permuta/patterns/perm.py",
        "        n = len(perm_slice)\n        if n in (0, 1):\n            return perm_slice\n        max_i, max_v = max(enumerate(perm_slice), key=lambda pos_elem: pos_elem[1])\n        # Recursively solve without largest\n        if max_i == 0:\n            n_lis = perm_slice[1:n]",
        "        n = len(perm_slice)\n        if n <= 1:\n            return perm_slice\n        max_i, max_v = max(enumerate(perm_slice), key=lambda pos_elem: pos_elem[1])\n        # Recursively solve without largest\n        if max_i == 0:\n            n_lis = perm_slice[1:]", ["C12"]),
}


def main():
    names = sys.argv[1:] or list(EDITS)
    bad = 0
    for name in names:
        f, old, new, props = EDITS[name]
        scr = tempfile.mkdtemp(prefix="harmless_")
        out = tempfile.mkdtemp(prefix="harmless_out_")
        shutil.copytree("/repo/permuta", os.path.join(scr, "permuta"))
        path = os.path.join(scr, f)
        src = open(path).read()
        if old not in src:
            print(f"{name}: ANCHOR NOT FOUND"); bad += 1; continue
        open(path, "w").write(src.replace(old, new, 1))
        # the edit must keep the module importable
        for p in props:
            env = dict(os.environ, VERIF_REPO=scr, VERIF_OUT_DIR=out)
            r = subprocess.run(["/verif/check", p, "--tier", "quick"], capture_output=True, text=True, env=env, cwd="/verif")
            viol = [l for l in r.stdout.splitlines() if l.startswith("VIOLATION")]
            und = [l for l in r.stderr.splitlines() if l.startswith("UNDECIDED")]
            status = "ok" if r.returncode == 0 and not viol else "FALSE ALARM" if viol else f"exit {r.returncode}"
            print(f"{name:<28} {p}: {status}  (undecided obligations: {len(und)})")
            for l in viol[:3]:
                print("      ", l[:220])
            if r.returncode != 0:
                bad += 1
                print("      ", r.stderr[-300:])
        shutil.rmtree(scr); shutil.rmtree(out)
    print("false alarms / errors:", bad)
    return 1 if bad else 0


if __name__ == "__main__":
    sys.exit(main())
