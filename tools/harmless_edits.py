#!/usr/bin/env python3
"""Behaviour-preserving edits of /repo (applied one at a time to a scratch copy): every affected
check must still exit 0.  Usage: tools/harmless_edits.py [name ...]"""
import os, shutil, subprocess, sys, tempfile

EDITS = {
    # name: (file, old, new, [properties to run])
    "inverse-rename-local": ("permuta/patterns/perm.py",
        "        result = [0] * len(self)\n        for idx, val in enumerate(self):\n            result[val] = idx\n        return Perm(result)",
        "        res = [0] * len(self)\n        for idx, val in enumerate(self):\n            res[val] = idx\n        return Perm(res)", ["C04", "C10"]),
    "complement-as-loop": ("permuta/patterns/perm.py",
        "        base = len(self) - 1\n        return Perm(base - element for element in self)",
        "        base = len(self) - 1\n        out = []\n        for element in self:\n            out.append(base - element)\n        return Perm(out)", ["C04"]),
    "rotate-reorder": ("permuta/patterns/perm.py",
        "        n = len(self)\n        result = [0] * n\n        if times == 1:",
        "        result = [0] * len(self)\n        n = len(self)\n        if times == 1:", ["C04"]),
    "lock-into-ensure-level": ("permuta/perm_sets/permset.py",
        "        with Av._CACHE_LOCK:\n            self._ensure_level(level_number)\n        return self.cache[level_number]",
        "        self._ensure_level_locked(level_number)\n        return self.cache[level_number]\n\n    def _ensure_level_locked(self, level_number: int) -> None:\n        with Av._CACHE_LOCK:\n            self._ensure_level(level_number)", ["C07", "C02"]),
    "memo-clear-method": ("permuta/permutils/polynomial.py",
        "    @staticmethod\n    def _types(perm: Perm) -> FrozenSet[int]:",
        "    @classmethod\n    def clear_cache(cls) -> None:\n        \"\"\"Forget memoised types.\"\"\"\n        cls._CACHE.clear()\n\n    @staticmethod\n    def _types(perm: Perm) -> FrozenSet[int]:", ["C13"]),
    "contains-fast-path": ("permuta/patterns/perm.py",
        "    def _contains(self, patt: \"Patt\") -> bool:\n        if isinstance(patt, Patt):",
        "    def _contains(self, patt: \"Patt\") -> bool:\n        if isinstance(patt, Patt) and len(patt) > len(self):\n            return False\n        if isinstance(patt, Patt):", ["C01", "C03"]),
    "fixed-points-as-loop": ("permuta/patterns/perm.py",
        "        return (idx for idx, val in enumerate(self) if idx == val)",
        "        return iter([idx for idx in range(len(self)) if self[idx] == idx])", ["C11"]),
    "mesh-reverse-local": ("permuta/patterns/meshpatt.py",
        "        n = len(self)\n        return MeshPatt(self.pattern.reverse(), ((n - x, y) for (x, y) in self.shading))",
        "        size = len(self.pattern)\n        cells = {(size - x, y) for (x, y) in self.shading}\n        return MeshPatt(self.pattern.reverse(), cells)", ["C04"]),
    "is-shaded-early-exit": ("permuta/patterns/meshpatt.py",
        "        (left, lower), (right, upper) = lower_left, upper_right\n        return all(\n            (x, y) in self.shading\n            for y in range(lower, upper + 1)\n            for x in range(left, right + 1)\n        )",
        "        (left, lower), (right, upper) = lower_left, upper_right\n        for y in range(lower, upper + 1):\n            for x in range(left, right + 1):\n                if (x, y) not in self.shading:\n                    return False\n        return True", ["C06", "C18"]),
    "hash-explicit-tuple": ("permuta/patterns/meshpatt.py",
        "        return hash((self.pattern, self.shading))",
        "        key = (self.pattern, self.shading)\n        return hash(key)", ["C08"]),
    "insenc-materialise-list": ("permuta/permutils/insertion_encodable.py",
        "        basis = tuple(basis)\n",
        "        basis = list(basis)\n", ["C13"]),
}


def main():
    names = sys.argv[1:] or list(EDITS)
    bad = 0
    for name in names:
        f, old, new, props = EDITS[name]
        scr = tempfile.mkdtemp(prefix="harmless_")
        out = tempfile.mkdtemp(prefix="harmless_out_")
        shutil.copytree("/repo/permuta", os.path.join(scr, "permuta"))
        path = os.path.join(scr, f)
        src = open(path).read()
        if old not in src:
            print(f"{name}: ANCHOR NOT FOUND"); bad += 1; continue
        open(path, "w").write(src.replace(old, new, 1))
        # the edit must keep the module importable
        for p in props:
            env = dict(os.environ, VERIF_REPO=scr, VERIF_OUT_DIR=out)
            r = subprocess.run(["/verif/check", p, "--tier", "quick"], capture_output=True, text=True, env=env, cwd="/verif")
            viol = [l for l in r.stdout.splitlines() if l.startswith("VIOLATION")]
            und = [l for l in r.stderr.splitlines() if l.startswith("UNDECIDED")]
            status = "ok" if r.returncode == 0 and not viol else "FALSE ALARM" if viol else f"exit {r.returncode}"
            print(f"{name:<28} {p}: {status}  (undecided obligations: {len(und)})")
            for l in viol[:3]:
                print("      ", l[:220])
            if r.returncode != 0:
                bad += 1
                print("      ", r.stderr[-300:])
        shutil.rmtree(scr); shutil.rmtree(out)
    print("false alarms / errors:", bad)
    return 1 if bad else 0


if __name__ == "__main__":
    sys.exit(main())
