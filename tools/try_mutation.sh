#!/bin/sh
# usage: tools/try_mutation.sh <PROPERTY-ID> <patch.diff> [tier]
# Applies the patch to a scratch copy of /repo (never to /repo itself), runs the check of the
# property against it (VERIF_REPO), prints the verdict, removes the copy.  Evidence / replays
# of this run go to a scratch directory so that committed evidence is not overwritten.
ID="$1"; PATCH="$2"; TIER="${3:-quick}"
SCR="$(mktemp -d /tmp/scr_${ID}_XXXX)"
OUT="$(mktemp -d /tmp/out_${ID}_XXXX)"
cp -r /repo/permuta "$SCR/permuta"
( cd "$SCR" && git init -q . && git apply --whitespace=nowarn "$PATCH" ) || { echo "PATCH DOES NOT APPLY"; rm -rf "$SCR" "$OUT"; exit 2; }
cd /verif
START=$(date +%s)
VERIF_REPO="$SCR" VERIF_OUT_DIR="$OUT" ./check "$ID" --tier "$TIER" > "$OUT/stdout.txt" 2> "$OUT/stderr.txt"
RC=$?
END=$(date +%s)
echo "== $ID $(basename $(dirname $PATCH))/$(basename $PATCH) tier=$TIER exit=$RC $((END-START))s"
grep -c "^VIOLATION" "$OUT/stdout.txt" | sed 's/^/   violations: /'
grep "^VIOLATION" "$OUT/stdout.txt" | cut -c1-260 | head -6
grep -E "UNDECIDED|CHECKER-CRASH|Traceback" "$OUT/stderr.txt" | cut -c1-200 | head -5
rm -rf "$SCR" "$OUT"
exit $RC
