"""Behaviour-preserving refactorings written by fresh sub-agents (harmless/<A|B>/patch_k.diff + meta_k.json): every
property named in the meta is checked against a scratch copy with the patch; every run must exit 0.
Usage: .venv/bin/python tools/run_harmless_patches.py A|B"""
import json, glob, subprocess, sys, concurrent.futures as cf
tag = sys.argv[1]
jobs = []
for mp in sorted(glob.glob(f"/verif/harmless/{tag}/meta_*.json")):
    k = mp.split("meta_")[1][:-5]
    m = json.load(open(mp))
    for pid in sorted(set(m.get("properties", []))):
        jobs.append((k, pid, f"/verif/harmless/{tag}/patch_{k}.diff"))
def run(j):
    k, pid, patch = j
    r = subprocess.run(["sh", "/verif/tools/try_mutation.sh", pid, patch, "quick"], capture_output=True, text=True)
    return k, pid, r.returncode, r.stdout
with cf.ThreadPoolExecutor(3) as ex:
    for k, pid, rc, out in ex.map(run, jobs):
        lines = [l for l in out.splitlines() if l.startswith(("VIOLATION", "UNDECIDED", "PATCH"))]
        print(f"{tag}{k} {pid} exit={rc}", " | ".join(l[:200] for l in lines[:3]), flush=True)
