#!/bin/sh
# Idempotent, offline.  Builds /verif/.venv : python 3.12 (from /venv) + z3-solver
# + jsonschema from the offline wheelhouse, and a .pth that makes /venv's
# site-packages (permuta editable install -> /repo, automata-lib) importable.
set -e
HERE="$(cd "$(dirname "$0")" && pwd)"
VENV="$HERE/.venv"
STAMP="$VENV/.ok"
if [ -f "$STAMP" ] && "$VENV/bin/python" -c "import z3, jsonschema, automata" >/dev/null 2>&1; then
    exit 0
fi
rm -rf "$VENV"
/venv/bin/python -m venv "$VENV"
PIP_NO_INDEX=1 "$VENV/bin/pip" install -q --no-index --find-links /opt/veriftools/wheels \
    z3-solver jsonschema >/dev/null
SP="$("$VENV/bin/python" -c 'import sysconfig; print(sysconfig.get_paths()["purelib"])')"
echo "import site; site.addsitedir('/venv/lib/python3.12/site-packages')" > "$SP/zz_venv_overlay.pth"
"$VENV/bin/python" -c "import z3, jsonschema, automata; print('verif venv ok: z3', z3.get_version_string())"
touch "$STAMP"
