"""C14 - pin words decode to their pin permutations and reflect pattern containment.

B layer (bounded stand-in).  Oracle: specs/pins.py (order-list decoder written from
the statement: numeral = independent pin beyond the bounding box incl. the origin,
direction = pin separating the previous pin from all earlier ones) and
specs/core.py (brute-force containment).  Everything is exhaustive up to the stated
word / permutation lengths.

Known finding C14-touching-factor (DESIGN section 8 item 10): `pinword_occurrences`
lets a factor that is matched through the *quadrant of a direction letter* start
immediately after the previous factor; such a pin separates the last pin of the
previous factor from everything before it, so it is not where the quadrant says.
Predicate `kf_touching` / `kf_witness` below accept a failure only when *every*
disagreement of that input has exactly this shape.
"""
import functools

from specs import core as S
from specs import pins as P
from vlib import codec
from vlib import domains as D
from vlib.core import bad, check, ok

LEVEL = "exploration"


def _PW():
    from permuta.permutils.pin_words import PinWords

    return PinWords


# ------------------------------------------------------------------ decoding
@check("C14.decode")
def decode(word):
    if not P.geometric_ok(word):  # the oracle itself must satisfy the statement
        raise AssertionError(f"spec decoder violates the definition on {word!r}")
    want = P.decode(word)
    got = _PW().pinword_to_perm(word)
    nt = len(word) >= 2 and any(c in P.DIRECTIONS for c in word)
    if tuple(got) != want or type(got) is not D.P():
        return bad(want, got, "pinword_to_perm differs from the geometric pin placement", nt)
    return ok(nt)


@check("C14.enumeration")
def enumeration(n):
    PW = _PW()
    mine = P.pinwords(n)
    got = list(PW.pinwords_of_length(n))
    if len(got) != len(set(got)):
        return bad("no duplicates", [w for w in set(got) if got.count(w) > 1][:10], "pinwords_of_length yields a word twice")
    if set(got) != set(mine):
        return bad(sorted(set(mine) - set(got))[:10], sorted(set(got) - set(mine))[:10],
                   "pinwords_of_length: (missing, extra) w.r.t. all words without UU UD DU DD LL LR RL RR / leading direction")
    if n >= 1:  # the property does not speak about the empty word being strict
        strict = list(PW.strict_pinwords_of_length(n))
        if len(strict) != len(set(strict)) or set(strict) != set(P.strict_pinwords(n)):
            return bad(P.strict_pinwords(n)[:40], strict[:40], "strict_pinwords_of_length")
        for w in mine:
            g = PW.is_strict_pinword(w)
            if g is not P.is_strict(w):
                return bad(P.is_strict(w), g, f"is_strict_pinword({w!r})")
    return ok(n >= 2)


def _relation(table):
    """perm -> set of words, as a set of pairs; keys with empty sets carry no pair."""
    return {(tuple(k), w) for k, ws in table.items() for w in ws}


@check("C14.tables")
def tables(n):
    """The three lru_cached tables of one length, from a cold cache, then again after
    look-ups of absent permutations (perm_to_pinword_mapping returns a defaultdict:
    such look-ups insert empty sets, which are no pairs of the relation)."""
    PW = _PW()
    Perm = D.P()
    for f in (PW.pinword_to_perm_mapping, PW.perm_to_pinword_mapping, PW.perm_to_strict_pinword_mapping):
        f.cache_clear()
    want_fw = {w: P.decode(w) for w in P.pinwords(n)}
    want_rel = {(p, w) for w, p in want_fw.items()}
    # the property does not say whether the empty word is strict: left out on both sides
    want_strict = {(p, w) for (p, w) in want_rel if P.is_strict(w)}
    for round_ in (0, 1):
        fw = PW.pinword_to_perm_mapping(n)
        if {w: tuple(p) for w, p in fw.items()} != want_fw:
            return bad(len(want_fw), len(fw), f"pinword_to_perm_mapping({n}) differs from decode of every pin word (round {round_})")
        bw = PW.perm_to_pinword_mapping(n)
        if _relation(bw) != want_rel:
            return bad(len(want_rel), len(_relation(bw)), f"perm_to_pinword_mapping({n}) is not the inverse relation (round {round_})")
        if {(w, tuple(p)) for w, p in fw.items()} != {(w, p) for (p, w) in _relation(bw)}:
            return bad("inverse relations", "differ", "word->perm and perm->words tables are not inverse to each other")
        st = PW.perm_to_strict_pinword_mapping(n)
        if {(p, w) for (p, w) in _relation(st) if w != ""} != want_strict:
            return bad(sorted(want_strict)[:20], sorted(_relation(st))[:20],
                       f"perm_to_strict_pinword_mapping({n}) is not the inverse relation restricted to strict words (round {round_})")
        # look-ups of permutations without pin words of this length
        for absent in (Perm(range(n + 1)), Perm(range(n + 2)), Perm(())):
            if len(absent) != n and bw[absent]:
                return bad(set(), bw[absent], "a permutation of another length has pin words of this length")
    return ok(n >= 2)


# ------------------------------------------------- factors, SP <-> M, quadrant
@check("C14.factor")
def factor(word):
    want = P.factors(word)
    got = _PW().factor_pinword(word)
    nt = 1 < len(want) < len(word)
    if got != want:
        return bad(want, got, "factor_pinword vs 'cut in front of every numeral'", nt)
    if "".join(got) != word:
        return bad(word, "".join(got), "factors do not concatenate back", nt)
    for f in got:
        if not (f and f[0] in P.NUMERALS and all(c in P.DIRECTIONS for c in f[1:])):
            return bad("numeral followed by directions only", f, "shape of a factor", nt)
    return ok(nt)


@check("C14.sp_to_m")
def sp_to_m(word):
    """word: strict pin word (length >= 1)."""
    PW = _PW()
    want = P.strict_to_m(word)
    got = PW.sp_to_m(word)
    nt = len(word) >= 2
    if not isinstance(got, tuple) or sorted(got) != sorted(want) or len(set(got)) != len(got):
        return bad(want, got, "sp_to_m: words of M encoding the strict pin word", nt)
    if len(word) == 1 and len(got) != 2:
        return bad(2, len(got), "a lone numeral has two encodings", nt)
    if len(word) >= 2 and len(got) != 1:
        return bad(1, len(got), "a strict word of length >= 2 has one encoding", nt)
    for m in got:
        if not P.in_m(m) or len(m) != len(word) + 1:
            return bad("alternating word of length |u|+1", m, "sp_to_m image is not in M", nt)
        back = PW.m_to_sp(m)
        if back != word:
            return bad(word, back, f"m_to_sp(sp_to_m(u)) with image {m!r}", nt)
        if P.decode_m(m) != P.decode(word):
            raise AssertionError("spec: decode_m disagrees with decode")
    return ok(nt)


@check("C14.m_to_sp")
def m_to_sp(word):
    """word: word of M of length >= 2."""
    PW = _PW()
    want = P.m_to_strict(word)
    got = PW.m_to_sp(word)
    nt = len(word) >= 3
    if got != want:
        return bad(want, got, "m_to_sp: strict pin word of the pin sequence", nt)
    if not P.is_strict(got):
        return bad("a strict pin word", got, "m_to_sp image", nt)
    images = PW.sp_to_m(got)
    if word not in images:
        return bad(word, images, "sp_to_m(m_to_sp(w)) does not give w back", nt)
    return ok(nt)


@check("C14.quadrant")
def quadrant(word):
    PW = _PW()
    nt = False
    for i in range(len(word)):
        want = P.quadrant_of_pin(word, i)
        got = PW.quadrant(word, i)
        nt = nt or word[i] in P.DIRECTIONS
        if got != want:
            return bad(want, got, f"quadrant({word!r}, {i}) vs position of pin {i + 1} relative to the origin", True)
    return ok(nt)


# ------------------------------------------------------------- containment
@functools.lru_cache(maxsize=None)
def _words_by_perm(length):
    """sigma (tuple) -> its pin words, from the oracle's own enumeration/decoder
    (cross-checked against perm_to_pinword_mapping by C14.tables)."""
    out = {}
    for w in P.pinwords(length):
        out.setdefault(P.decode(w), []).append(w)
    for t in S.all_perms(length):
        out.setdefault(tuple(t), [])
    return out


def _touching_direction(word, u_factors, occ):
    """The occurrence uses a factor that starts at a direction letter of `word`
    immediately after the end of the previous factor."""
    return any(
        occ[j] == occ[j - 1] + len(u_factors[j - 1]) and word[occ[j]] in P.DIRECTIONS
        for j in range(1, len(occ))
    )


def _contain_disagreements(word, lo, hi):
    """[(sigma, truth, got)] over all sigma with lo <= |sigma| <= hi."""
    PW = _PW()
    pw = P.decode(word)
    out = []
    for k in range(lo, hi + 1):
        for sigma, us in _words_by_perm(k).items():
            truth = S.contains(pw, sigma)
            got = any(PW.pinword_contains(word, u) for u in us)
            if got is not truth:
                out.append((sigma, truth, got))
    return out


def _only_touching(word, dis):
    """Every disagreement is a false positive all of whose witnesses (every
    occurrence of every pin word of sigma) have the touching-direction shape."""
    PW = _PW()
    if not dis:
        return False
    for sigma, truth, got in dis:
        if truth or not got:
            return False
        seen = 0
        for u in _words_by_perm(len(sigma))[sigma]:
            fs = P.factors(u)
            for occ in PW.pinword_occurrences(word, u):
                seen += 1
                if not _touching_direction(word, fs, occ):
                    return False
        if not seen:
            return False
    return True


@check("C14.contains")
def contains(item):
    """(w, lo, hi): for every sigma with lo <= |sigma| <= hi:
    (exists pin word u of sigma with pinword_contains(w, u))  <=>  sigma <= perm(w)."""
    word, lo, hi = item
    dis = _contain_disagreements(word, lo, hi)
    nt = len(word) >= 2
    if dis:
        fneg = [s for s, t, g in dis if t]
        fpos = [s for s, t, g in dis if not t]
        res = bad(
            f"perm(w)={P.decode(word)}: contained exactly the patterns of its subsequences",
            f"false positives (word test says contained): {fpos[:8]}{'...' if len(fpos) > 8 else ''}; "
            f"false negatives: {fneg[:8]}",
            "pinword_contains over the pin words of sigma vs real containment in perm(w)",
            nt,
        )
        res[0]["kf_memo"] = _only_touching(word, dis)
        return res
    return ok(nt)


def _witness_report(word, lo, hi):
    """(bad witnesses [(u, occ, touching)], inconsistencies) of pinword_occurrences."""
    PW = _PW()
    n = len(word)
    wrong, incons = [], []
    for k in range(lo, hi + 1):
        for sigma, us in _words_by_perm(k).items():
            for u in us:
                fs = P.factors(u)
                occs = list(PW.pinword_occurrences(word, u))
                if PW.pinword_contains(word, u) is not bool(occs):
                    incons.append((u, "pinword_contains != bool(occurrences)"))
                if len(fs) == 1 and k >= 1:
                    sp = list(PW.pinword_occurrences_sp(word, u))
                    if [(i,) for i in sp] != occs or PW.pinword_contains_sp(word, u) is not bool(sp):
                        incons.append((u, "strict u: _sp variants differ from the general ones"))
                if len(set(occs)) != len(occs):
                    incons.append((u, "an occurrence is listed twice"))
                for occ in occs:
                    idx = [o + d for o, f in zip(occ, fs) for d in range(len(f))]
                    fine = (
                        len(occ) == len(fs)
                        and all(0 <= i < n for i in idx)
                        and all(a < b for a, b in zip(idx, idx[1:]))
                        and P.pins_pattern(word, idx) == sigma
                    )
                    if not fine:
                        wrong.append((u, occ, _touching_direction(word, fs, occ)))
    return wrong, incons


@check("C14.occurrences")
def occurrences(item):
    """(w, lo, hi): every tuple yielded by pinword_occurrences(w, u) (u a pin word of
    a sigma with lo <= |sigma| <= hi) gives the starting positions of the factors of u
    in w: in range, increasing, non-overlapping, and the pins of w placed by those
    letters form sigma = perm(u).  pinword_contains / the _sp variants agree with the
    listing."""
    word, lo, hi = item
    wrong, incons = _witness_report(word, lo, hi)
    nt = len(word) >= 2
    if wrong or incons:
        res = bad(
            "every listed occurrence marks pins of w that form perm(u)",
            f"bad witnesses (u, starts, touching-direction shape): {wrong[:6]}{'...' if len(wrong) > 6 else ''}; "
            f"inconsistencies: {incons[:4]}",
            "pinword_occurrences witnesses vs the pins they point at",
            nt,
        )
        res[0]["kf_memo"] = bool(wrong) and not incons and all(t for _u, _o, t in wrong)
        return res
    return ok(nt)


# ------------------------------------------------------ known-finding predicates
def kf_touching(failure):
    """C14.contains failure is the known defect iff every disagreement for this w is
    a false positive whose witnesses all use a factor starting at a direction letter
    right after the previous factor.  `kf_memo` is this very function evaluated by
    the worker that found the failure (same code, same input); without it the
    classification is recomputed from the failing input."""
    if failure.get("note") == "timeout" or str(failure.get("actual", "")).startswith("raised "):
        return False
    memo = failure.get("kf_memo")
    if memo is not None:
        return bool(memo)
    word, lo, hi = codec.dec(failure["input"])
    return _only_touching(word, _contain_disagreements(word, lo, hi))


def kf_witness(failure):
    """C14.occurrences failure is the known defect iff all bad witnesses have the
    touching-direction shape and nothing else is inconsistent."""
    if failure.get("note") == "timeout" or str(failure.get("actual", "")).startswith("raised "):
        return False
    memo = failure.get("kf_memo")
    if memo is not None:
        return bool(memo)
    word, lo, hi = codec.dec(failure["input"])
    wrong, incons = _witness_report(word, lo, hi)
    return bool(wrong) and not incons and all(t for _u, _o, t in wrong)


# ------------------------------------------------------------------------ run
def run(ctx):
    quick = ctx.tier == "quick"
    wmax = 5 if quick else 6
    words = [w for n in range(wmax + 1) for w in P.pinwords(n)]
    ctx.run("C14.decode", words, chunk=1500,
            rule=f"all pin words of length <= {wmax} ({len(words)}); every one must decode; "
                 "non-trivial = has a direction letter")
    # longer words (the decoder keeps a bounding box: an OLD pin can stay extreme for arbitrarily long).  Added
    # after seeded change C14_d - only the five most recent pins were passed on - was missed: it shows from
    # length 7 on.  Strict words (one numeral + alternating directions) of length 7-9 exhaustively, general
    # pin words of length 7-12 by seeded rejection sampling.
    rng = D.subrng(ctx, "c14-long")
    long_words = [w for n in range(7, 10 if quick else 11) for w in P.strict_pinwords(n)]
    want_n = 2500 if quick else 20000
    while len(long_words) < 10 ** 6:
        n = rng.randrange(7, 13)
        w = "".join(rng.choice(P.ALPHABET) for _ in range(n))
        if P.is_pinword(w):
            long_words.append(w)
        if len(long_words) >= want_n + 4 * 2 ** 9:
            break
    ctx.run("C14.decode", long_words, chunk=400,
            rule="all strict pin words of length 7-9 (10 thorough) and seeded pin words of length 7-12: every pin placed against the whole history")
    ctx.add_sample("C14.decode", "3DL2UR")
    ctx.run("C14.enumeration", range(wmax + 1), chunk=1,
            rule=f"lengths 0..{wmax}: no duplicates, same set as filtering all 8^n words; strict words; is_strict_pinword on every pin word")
    ctx.run("C14.tables", range(wmax + 1), chunk=1,
            rule=f"lengths 0..{wmax}: three tables from a cold cache, re-read after absent-key look-ups (relations; empty sets ignored)")
    ctx.run("C14.factor", words, chunk=3000, rule="all pin words; non-trivial = several factors, one of length >= 2")
    ctx.run("C14.quadrant", words, chunk=1500, rule="every position of every pin word; non-trivial = has a direction letter")
    smax = 8 if quick else 11
    stricts = [w for n in range(1, smax + 1) for w in P.strict_pinwords(n)]
    ctx.run("C14.sp_to_m", stricts, chunk=500, rule=f"all strict pin words of length 1..{smax} ({len(stricts)})")
    ms = [w for n in range(2, smax + 2) for w in P.m_words(n)]
    ctx.run("C14.m_to_sp", ms, chunk=500, rule=f"all words of M of length 2..{smax + 1} ({len(ms)})")
    ctx.add_sample("C14.sp_to_m", "3")
    # ---- containment: words x all permutations
    # (shortest w, longest w, shortest sigma, longest sigma)
    if quick:
        blocks = [(0, 4, 0, 4), (5, 5, 0, 3)]
        wit = [(0, 4, 0, 4)]
    else:
        blocks = [(0, 6, 0, 4), (0, 5, 5, 5)]
        wit = [(0, 5, 0, 4)]
    for (w0, w1, lo, hi) in blocks:
        items = [(w, lo, hi) for n in range(w1, w0 - 1, -1) for w in P.pinwords(n)]
        ctx.run("C14.contains", items, chunk=40 if w1 <= 4 else 12, timeout_s=600,
                rule=f"all pin words of length {w0}..{w1} x all permutations of length {lo}..{hi} "
                     f"(each through all of its pin words), against brute-force containment in the decoded permutation")
    for (w0, w1, lo, hi) in wit:
        items = [(w, lo, hi) for n in range(w1, w0 - 1, -1) for w in P.pinwords(n)]
        ctx.run("C14.occurrences", items, chunk=40 if w1 <= 4 else 12, timeout_s=600,
                rule=f"all pin words w of length {w0}..{w1} x all pin words u of length {lo}..{hi}: every listed occurrence "
                     "is a geometric witness; pinword_contains and the _sp variants agree with the listing")
    # self-overlapping factors: a zig-zag run in w contains the zig-zag factor of u at OVERLAPPING positions
    # (added after seeded change C14_c - regex finditer skips overlapping matches - was missed: smallest case
    # |w| = 6, |u| = 5).  All strict zig-zag words of length 6-8 (9 thorough) against all permutations of length 5.
    zig = [q + "".join((a, b)[i % 2] for i in range(n - 1)) for n in range(6, 9 if quick else 10) for q in P.NUMERALS
           for (a, b) in (("U", "L"), ("L", "U"), ("U", "R"), ("R", "U"), ("D", "L"), ("L", "D"), ("D", "R"), ("R", "D"))]
    ctx.run("C14.contains", [(w, 5, 5) for w in zig], chunk=4, timeout_s=900,
            rule=f"{len(zig)} strict zig-zag pin words of length 6-8 x all permutations of length 5 (overlapping occurrences of one factor)")
    ctx.add_sample("C14.contains", ("1U", 0, 4), "known finding: '1U' is said to contain '11' (01 in 10)")
    ctx.assumptions += [
        "B layer: bounded; exhaustive up to the stated word / permutation lengths",
        "oracle = specs/pins.py order-list decoder (self-checked pin by pin against the statement with rational points) "
        "+ specs/core.py brute-force containment",
        "pin words of sigma are taken from the oracle's own enumeration (cross-checked against perm_to_pinword_mapping in C14.tables)",
    ]
    from props import dlayer

    dlayer.run(ctx, "C14")
