"""C18 - shading-lemma verdicts and point insertion preserve the meaning of mesh patterns.

B layer (bounded stand-in).  The meaning of a mesh pattern is its set of containers
(specs.core definition, evaluated through the occupied-cell tables of specs.meshfast,
cross-checked against specs.core at start-up) over ALL permutations up to a bound.

  C18.can_shade        can_shade(c) != []  =>  containers(m) == containers(m.shade(c));
                       returned values are values of points on a corner of c
  C18.can_simul_shade  the same for two cells (every ordered pair of cells)
  C18.shadable_boxes   every entry of the table licenses shading its cells; keys are
                       adjacent points; the table lists exactly the licences of the
                       one-cell / two-cell tests
  C18.add_point        add_point(pos, dir): occurrences and containers of the result
  C18.add_pair         add_increase / add_decrease
  C18.region           is_shaded, is_pointfree, shade, non_pointless_boxes,
                       has_anchored_point vs their definitions
  C18.history          verdicts of derived patterns (shade, symmetries, add_point) after earlier
                       queries on the original == verdicts of fresh equal patterns
  C18.ascii            parse(ascii_plot(cell_size)) == (pattern, shading)
  C18.ascii_perm       the same for Perm.ascii_plot
"""
import itertools

from specs import core as S
from specs import mesh18 as M
from specs import meshfast as F
from vlib import domains as D
from vlib.core import bad, check, ok

LEVEL = "exploration"

BOUND = {"quick": 6, "thorough": 7}
_TIER = ["thorough"]  # set by run(); a replay uses the larger bound


def _bound(k):
    """Permutations up to this length are compared (pattern length k <= 3)."""
    return BOUND[_TIER[0]]


def _dirs():
    from permuta.misc import DIR_EAST, DIR_NONE, DIR_NORTH, DIR_SOUTH, DIR_WEST

    return {DIR_NONE: "none", DIR_EAST: "east", DIR_NORTH: "north", DIR_WEST: "west", DIR_SOUTH: "south"}


def _same_meaning(m, cells, bound):
    """None if shading `cells` keeps the container set, else a witness permutation."""
    patt, sh = S.to_spec(m)
    before = F.containers((patt, sh), bound)
    after = F.containers((patt, sh | frozenset(cells)), bound)
    if before == after:
        return None
    return min(before ^ after, key=lambda t: (len(t), t))


def _licence(m, cells, lst, what, bound):
    """Contract of a shading-lemma verdict `lst` for shading `cells`."""
    from permuta import MeshPatt

    if not isinstance(lst, list):
        return bad("a list", lst, what)
    if not lst:
        return None
    spec = S.to_spec(m)
    shaded = m.shade(*cells)
    if not isinstance(shaded, MeshPatt) or S.to_spec(shaded) != (spec[0], spec[1] | frozenset(cells)):
        return bad((spec[0], sorted(spec[1] | frozenset(cells))), shaded, "shade(*cells)")
    wit = _same_meaning(m, cells, bound)
    if wit is not None:
        inm = F.contains(wit, spec)
        return bad(f"containers unchanged by shading {cells} (licence {lst})",
                   f"{wit} contains {'the original' if inm else 'the shaded'} pattern only",
                   f"{what}: licensed shading changes the set of containers (perms <= {bound})")
    adjacent = set()
    for c in cells:
        adjacent |= M.corner_values(spec, c)
    for v in lst:
        if v not in adjacent:
            return bad(f"values of points on a corner of {cells}: {sorted(adjacent)}", lst,
                       f"{what}: returned value is not the value of an adjacent point")
    return None


@check("C18.can_shade")
def can_shade(item):
    m, cell = item
    lst = m.can_shade(cell)
    fail = _licence(m, (cell,), lst, f"can_shade({cell})", _bound(len(m)))
    if fail:
        return fail
    return ok(bool(lst))


@check("C18.can_simul_shade")
def can_simul_shade(item):
    m, c1, c2 = item
    lst = m.can_simul_shade(c1, c2)
    fail = _licence(m, (c1, c2), lst, f"can_simul_shade({c1}, {c2})", _bound(len(m)))
    if fail:
        return fail
    if m.can_shade2(c1, c2) != lst:
        return bad(lst, m.can_shade2(c1, c2), "alias can_shade2")
    return ok(bool(lst))


@check("C18.shadable_boxes")
def shadable_boxes(m):
    table = m.shadable_boxes()
    if not isinstance(table, dict):
        return bad("a dict", table, "shadable_boxes")
    n = len(m)
    for v, entries in table.items():
        for cells in entries:
            if not (isinstance(cells, tuple) and 1 <= len(cells) <= 2):
                return bad("tuples of one or two cells", cells, "entry of shadable_boxes")
            fail = _licence(m, cells, [v], f"shadable_boxes()[{v}] entry {cells}", _bound(n))
            if fail:
                return fail
    # "all tuples of shadable boxes": the table is the union of the one-cell and two-cell verdicts
    want = {}
    for x in range(n + 1):
        for y in range(n + 1):
            for v in m.can_shade((x, y)):
                want.setdefault(v, []).append(((x, y),))
            if x < n:
                for v in m.can_simul_shade((x, y), (x + 1, y)):
                    want.setdefault(v, []).append(((x, y), (x + 1, y)))
            if y < n:
                for v in m.can_simul_shade((x, y), (x, y + 1)):
                    want.setdefault(v, []).append(((x, y), (x, y + 1)))
    got = {v: sorted(e) for v, e in table.items() if e}
    if got != {v: sorted(e) for v, e in want.items()}:
        return bad(want, dict(table), "shadable_boxes is not the table of all one-cell and adjacent two-cell licences")
    return ok(bool(got))


@check("C18.add_point")
def add_point(item):
    from permuta import MeshPatt

    m, pos, direction = item
    spec = S.to_spec(m)
    assert pos not in spec[1]
    q = m.add_point(pos, direction)
    if S.to_spec(m) != spec:
        return bad(spec, m, "add_point mutated the pattern")
    if not isinstance(q, MeshPatt) or len(q) != len(m) + 1 or not S.is_perm(tuple(q.pattern)):
        return bad("a mesh pattern one point longer", q, "add_point")
    qs = S.to_spec(q)
    k = len(spec[0])
    if any(not (0 <= x <= k + 1 and 0 <= y <= k + 1) for x, y in qs[1]):
        return bad("cells of the new grid", sorted(qs[1]), "add_point shading")
    name = _dirs()[direction]
    # occurrence level (the new point is a point of the cell, extremal for a directional shading)
    for perm in S.perms_upto(5):
        if len(perm) < k + 1:
            continue
        want = M.add_point_occurrences(spec, pos, name, perm)
        got = sorted(F.mesh_occurrences(qs, perm))
        if got != want:
            return bad(want, got, f"occurrences of add_point({pos}, {name}) in {perm}: occurrence of the original plus "
                                  f"{'a' if name == 'none' else 'the ' + name + 'ernmost'} point of the cell")
    # container level (the property's sentence)
    bound = 6
    want = M.having_point_in_cell(spec, pos, bound)
    got = F.containers(qs, bound)
    if got != want:
        w = min(got ^ want, key=lambda t: (len(t), t))
        return bad(f"contained exactly in perms with an occurrence of the original having a point in cell {pos}",
                   f"differs on {w}", f"add_point({pos}, {name}) containers over perms <= {bound}")
    return ok(qs != spec and bool(want))


@check("C18.add_pair")
def add_pair(item):
    m, pos, increasing = item
    spec = S.to_spec(m)
    assert pos not in spec[1]
    q = m.add_increase(pos) if increasing else m.add_decrease(pos)
    if S.to_spec(m) != spec:
        return bad(spec, m, "add_increase/add_decrease mutated the pattern")
    qs = S.to_spec(q)
    if len(qs[0]) != len(spec[0]) + 2 or not S.is_perm(qs[0]):
        return bad("a mesh pattern two points longer", q, "add_increase/add_decrease")
    bound = 6
    want = M.having_pair_in_cell(spec, pos, bool(increasing), bound)
    got = F.containers(qs, bound)
    if got != want:
        w = min(got ^ want, key=lambda t: (len(t), t))
        return bad(f"contained exactly in perms with an occurrence of the original having an "
                   f"{'increasing' if increasing else 'decreasing'} pair in cell {pos}",
                   f"differs on {w}", f"add_{'increase' if increasing else 'decrease'}({pos}) containers over perms <= {bound}")
    return ok(bool(want))


@check("C18.region")
def region(m):
    from permuta import MeshPatt

    spec = S.to_spec(m)
    patt, sh = spec
    k = len(patt)
    rng = range(k + 1)
    some = [False, False, False, False]
    for x0 in rng:
        for y0 in rng:
            g = m.is_shaded((x0, y0))
            if g is not ((x0, y0) in sh):
                return bad((x0, y0) in sh, g, f"is_shaded(({x0}, {y0}))")
            for x1 in range(x0, k + 1):
                for y1 in range(y0, k + 1):
                    w = M.rect_shaded(spec, (x0, y0), (x1, y1))
                    g = m.is_shaded((x0, y0), (x1, y1))
                    if g is not w:
                        return bad(w, g, f"is_shaded(({x0}, {y0}), ({x1}, {y1})): every cell of the rectangle shaded")
                    some[w] = True
                    w = M.rect_pointfree(spec, (x0, y0), (x1, y1))
                    g = m.is_pointfree((x0, y0), (x1, y1))
                    if g is not w:
                        return bad(w, g, f"is_pointfree(({x0}, {y0}), ({x1}, {y1})): no point strictly inside the region")
                    some[2 + w] = True
    w = M.cells_with_corner_point(spec)
    g = m.non_pointless_boxes()
    if not isinstance(g, set) or g != w:
        return bad(sorted(w), g, "non_pointless_boxes: cells with a point on one of their corners")
    w = M.anchored(spec)
    g = m.has_anchored_point()
    if g != w or not all(isinstance(b, bool) for b in g):
        return bad(w, g, "has_anchored_point: (right, top, left, bottom) border fully shaded")
    cells = [(x, y) for x in rng for y in rng]
    groups = [()] + [(c,) for c in cells] + [(cells[i], cells[-1 - i]) for i in range(len(cells))] + [tuple(cells)]
    for grp in groups:
        r = m.shade(*grp)
        if not isinstance(r, MeshPatt) or S.to_spec(r) != (patt, sh | frozenset(grp)):
            return bad((patt, sorted(sh | frozenset(grp))), r, f"shade{grp}")
        if S.to_spec(m) != spec:
            return bad(spec, m, "shade mutated the pattern")
    return ok(all(some))


@check("C18.ascii")
def ascii_plot(item):
    m, c = item
    spec = S.to_spec(m)
    text = m.ascii_plot(cell_size=c)
    if not isinstance(text, str):
        return bad("a string", text, "ascii_plot")
    try:
        back = M.parse_mesh_plot(text, c)
    except M.PlotError as exc:
        return bad(f"a rendering of {spec} with cell size {c}", text, f"rendering does not parse: {exc}")
    if back != spec:
        return bad(spec, back, f"parse(ascii_plot(cell_size={c})) (rendering: {text!r})")
    if c == 1 and m.ascii_plot() != text:
        return bad(text, m.ascii_plot(), "default cell size is 1")
    return ok(bool(spec[0]) and 0 < len(spec[1]) < (len(spec[0]) + 1) ** 2)


@check("C18.ascii_perm")
def ascii_perm(item):
    perm, c = item
    t = tuple(perm)
    text = perm.ascii_plot(cell_size=c)
    try:
        back = M.parse_perm_plot(text, c)
    except M.PlotError as exc:
        return bad(f"a rendering of {t} with cell size {c}", text, f"rendering does not parse: {exc}")
    if back != t:
        return bad(t, back, f"parse(Perm.ascii_plot(cell_size={c})) (rendering: {text!r})")
    return ok(len(t) > 1)


# ------------------------------------------------------------------------ inputs
def _cells(k):
    return [(x, y) for x in range(k + 1) for y in range(k + 1)]


def _adjacent_pairs(k):
    out = []
    for (x, y) in _cells(k):
        if x < k:
            out += [((x, y), (x + 1, y)), ((x + 1, y), (x, y))]
        if y < k:
            out += [((x, y), (x, y + 1)), ((x, y + 1), (x, y))]
    return out


def _len3_sample(rng, count):
    """Seeded mesh patterns of length 3: the boundary shadings of sampled_mesh plus
    `count` in total, half of them sparse (licences need unshaded neighbourhoods)."""
    seen = set()
    out = []
    perms3 = list(itertools.permutations(range(3)))
    while len(out) < count:
        t = rng.choice(perms3)
        dens = rng.choice((0.05, 0.12, 0.2, 0.3, 0.45, 0.65))
        sh = D.random_shading(rng, 3, dens)
        if (t, sh) in seen:
            continue
        seen.add((t, sh))
        out.append(D.mesh(t, sh))
    return out


def _verdicts(m):
    """every shading verdict of one object: one-cell, adjacent two-cell (both orders), the table"""
    n = len(m)
    out = {}
    for c in _cells(n):
        out[("can_shade", c)] = list(m.can_shade(c))
    for c1, c2 in _adjacent_pairs(n):
        out[("can_simul_shade", c1, c2)] = list(m.can_simul_shade(c1, c2))
    out["shadable_boxes"] = {v: sorted(e) for v, e in m.shadable_boxes().items() if e}
    return out


@check("C18.history")
def history(m):
    """Verdicts depend on the VALUE of the pattern only: after every verdict has been asked on m (whatever the object
    remembers is now warm), each pattern DERIVED from m (shade one / two cells, the eight symmetries, add_point) must
    answer exactly like a freshly constructed equal pattern, must be equal to it, and m itself must answer again as it
    did.  (The fresh answers themselves are checked by C18.can_shade / can_simul_shade / shadable_boxes.)"""
    from permuta import MeshPatt, Perm

    n = len(m)
    first = _verdicts(m)
    derived = []
    cells = _cells(n)
    for c in cells:
        derived.append((f"shade({c})", m.shade(c)))
    for c1, c2 in list(_adjacent_pairs(n))[:8]:
        derived.append((f"shade({c1}, {c2})", m.shade(c1, c2)))
    derived.append(("shade() of nothing", m.shade()))
    for name in ("reverse", "complement", "inverse"):
        derived.append((name, getattr(m, name)()))
    for k in (1, 2, 3):
        derived.append((f"rotate({k})", m.rotate(k)))
    if n <= 2:
        for c in cells:
            if c not in m.shading:
                derived.append((f"add_point({c})", m.add_point(c)))
    nt = False
    for what, d in derived:
        fresh = MeshPatt(Perm(tuple(d.pattern)), sorted(d.shading))
        if not (d == fresh and hash(d) == hash(fresh)):
            return bad(fresh, d, f"{what}: the derived pattern differs from a fresh pattern with the same fields")
        got, want = _verdicts(d), _verdicts(fresh)
        if got != want:
            key = next(k for k in want if got.get(k) != want[k])
            return bad(want[key], got.get(key), f"after all verdicts were asked on the original, {what} answers {key} differently from a fresh equal pattern")
        nt = nt or any(v for k, v in want.items())
    again = _verdicts(m)
    if again != first:
        key = next(k for k in first if again.get(k) != first[k])
        return bad(first[key], again.get(key), f"the original pattern answers {key} differently after patterns were derived from it")
    if S.to_spec(m) != S.to_spec(MeshPatt(Perm(tuple(m.pattern)), sorted(m.shading))):
        return bad("unchanged", m, "fields changed")
    return ok(nt)


def run(ctx):
    quick = ctx.tier == "quick"
    _TIER[0] = ctx.tier
    rng = D.subrng(ctx, "c18")
    F.selfcheck(D.subrng(ctx, "c18-spec"), count=24 if quick else 120)
    bound = BOUND[ctx.tier]
    # warm the occurrence tables before the pool forks (children inherit them)
    for p in S.perms_upto(3):
        F.table(p, bound)
    for p in S.all_perms(4):
        F.table(p, 6)
    Perm = D.P()
    small = [m for k in (0, 1, 2) for m in D.all_mesh(k)]
    n3 = 300 if quick else 5000
    three = _len3_sample(rng, n3)
    boundary3 = [m for m in D.sampled_mesh(rng, 3, 0)] if not quick else []
    three_all = three + boundary3
    ctx.exhaustive = False
    # ------------------------------------------------------------------ one cell
    ctx.run("C18.can_shade", ((m, c) for m in small + three_all for c in _cells(len(m))), chunk=400,
            rule=f"ALL mesh patterns of length <= 2 ({len(small)}) and {len(three_all)} seeded of length 3 x every cell; "
                 f"containers over all perms <= {bound}; non-trivial = licence granted")
    ctx.add_sample("C18.can_shade", (D.mesh((1, 2, 0), [(2, 2), (3, 0), (3, 2), (3, 3)]), (1, 2)))
    # ------------------------------------------------------------------ two cells
    def pairs():
        for m in small:
            cs = _cells(len(m))
            for c1 in cs:
                for c2 in cs:
                    yield (m, c1, c2)
        for m in three_all:
            for c1, c2 in _adjacent_pairs(3):
                yield (m, c1, c2)

    ctx.run("C18.can_simul_shade", pairs(), chunk=600,
            rule=f"length <= 2: ALL ordered pairs of cells (also equal / non-adjacent); length 3: all adjacent pairs in both "
                 f"argument orders, horizontal and vertical; containers over perms <= {bound}; non-trivial = licence granted")
    ctx.add_sample("C18.can_simul_shade", (D.mesh((0, 2, 1), []), (1, 1), (1, 0)))
    # ------------------------------------------------------------------ the table
    ctx.run("C18.shadable_boxes", small + three_all[: 150 if quick else 2500], chunk=40,
            rule="all mesh patterns <= 2 and seeded length 3; non-trivial = table not empty")
    ctx.run("C18.history", small[:: 3 if quick else 1] + three_all[: 40 if quick else 600], chunk=20,
            rule="mesh patterns <= 2 (every third in the quick tier) and seeded length 3: all verdicts on the object, then every derived "
                 "pattern (shade 1/2 cells, 8 symmetries, add_point) vs a fresh equal pattern; non-trivial = some licence granted")
    # ------------------------------------------------------------------ point insertion
    dirs = list(_dirs())
    three_ap = three[: 60 if quick else 600]

    def ap_inputs():
        for m in small + three_ap:
            sh = set(tuple(c) for c in m.shading)
            for c in _cells(len(m)):
                if c not in sh:
                    for d in dirs:
                        yield (m, c, d)

    ctx.run("C18.add_point", ap_inputs(), chunk=150,
            rule=f"all mesh patterns <= 2 and {len(three_ap)} seeded of length 3 x every unshaded cell x 5 directions; occurrence "
                 f"sets in all perms <= 5 and container sets over perms <= 6; non-trivial = some perm qualifies")
    ctx.add_sample("C18.add_point", (D.mesh((0, 1, 2), [(1, 0), (2, 1), (3, 2)]), (2, 0), 3))
    two = [m for m in small if len(m) < 2] + [m for i, m in enumerate(small) if len(m) == 2 and (not quick or i % 4 == 0)]
    three_pair = three[: 20 if quick else 200]

    def pair_inputs():
        for m in two + three_pair:
            sh = set(tuple(c) for c in m.shading)
            for c in _cells(len(m)):
                if c not in sh:
                    yield (m, c, True)
                    yield (m, c, False)

    ctx.run("C18.add_pair", pair_inputs(), chunk=60,
            rule=f"mesh patterns <= 1 all, length 2 {'every 4th' if quick else 'all'}, {len(three_pair)} seeded of length 3 x every "
                 f"unshaded cell x increase/decrease; containers over perms <= 6")
    # ------------------------------------------------------------------ region tests, rendering
    four = list(D.sampled_mesh(rng, 4, 2 if quick else 12, boundary=False))
    ctx.run("C18.region", small + three_all[: 200 if quick else 3000] + four, chunk=60,
            rule="all mesh patterns <= 2, seeded 3 and 4 x all rectangles ll <= ur / all cells / shade of 0, 1, 2, all cells")
    ctx.run("C18.ascii", ((m, c) for m in small + three_all[: 200 if quick else 3000] + four for c in (1, 2, 3)), chunk=300,
            rule="all mesh patterns <= 2, seeded 3 and 4 x cell_size 1, 2, 3; non-trivial = partly shaded non-empty pattern")
    ctx.run("C18.ascii_perm", ((p, c) for p in D.perms_upto(5 if quick else 6) for c in (0, 1, 2, 3)), chunk=300,
            rule="all perms <= 5 (6 thorough) x cell_size 0..3")
    ctx.assumptions += [
        f"B layer: bounded. Container sets are compared over ALL permutations up to length {bound} (quick 6 = k+3 for the "
        "longest patterns, thorough 7 = k+4). Mutation probes (each side condition of the one-cell / two-cell lemma dropped, "
        "cell rotated the wrong way; 8 mutants, 2 685 wrong licences on patterns <= 3): every mutant is detected; 97-99% of the "
        "wrong licences have a witness of length <= k+3, the rest of length k+4, none was seen to need more",
        "mesh containment = specs.core definition, evaluated through specs.meshfast (occupied-cell tables); the two are "
        "compared on seeded mesh patterns at every start-up",
        "length-3 mesh patterns are seeded samples; lengths 0-2 are exhaustive",
        "shadable_boxes: 'table of all shadable cells' is read as: exactly the licences of can_shade on every cell and of "
        "can_simul_shade on every horizontally / vertically adjacent pair",
        "the rendering grammar is the one documented in the ascii_plot docstrings (cell rows separated by '|', shade mark, "
        "grid lines with '+' crossings and point marks)",
    ]
    from props import dlayer

    dlayer.run(ctx, "C18")
