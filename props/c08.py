"""C08 - equality, hashing and ordering of permutations, patterns and bases are coherent.

B layer (cross-check of the deductive obligations): all pairs / triples of a pool of
permutations, mesh / bivincular / vincular / covincular patterns and bases; hash
stability across allocation churn; lookups in sets and dicts.
"""
import gc
import itertools

from specs import core as S
from vlib import domains as D
from vlib.core import bad, check, ok

LEVEL = "proof"  # downgraded to exploration by the evidence writer unless every obligation is discharged on the run


def _kinds():
    from permuta import Basis, BivincularPatt, CovincularPatt, MeshBasis, MeshPatt, Perm, VincularPatt

    return Perm, MeshPatt, BivincularPatt, VincularPatt, CovincularPatt, Basis, MeshBasis


def view(x):
    """Abstract value: what equality is supposed to look at."""
    Perm, MeshPatt, _b, _v, _c, Basis, MeshBasis = _kinds()
    if isinstance(x, MeshPatt):
        return ("mesh", tuple(x.pattern), frozenset(x.shading))
    if isinstance(x, Perm):
        return ("perm", tuple(x))
    if isinstance(x, Basis):
        return ("basis", tuple(view(e) for e in tuple.__iter__(x)))
    if isinstance(x, MeshBasis):
        return ("meshbasis", tuple(view(e) for e in tuple.__iter__(x)))
    raise TypeError(x)


def _cmp_all(a, b):
    """Evaluate the four order operators; an exception or a non-bool result is
    reported as such."""
    out = {}
    for name, fn in (("<", lambda: a < b), ("<=", lambda: a <= b), (">", lambda: a > b), (">=", lambda: a >= b)):
        try:
            r = fn()
        except Exception as exc:  # noqa: BLE001
            out[name] = f"raised {type(exc).__name__}"
            continue
        out[name] = r if isinstance(r, bool) else f"non-bool {r!r}"
    return out


@check("C08.pair")
def pair(item):
    a, b = item
    va, vb = view(a), view(b)
    same = va == vb
    e1, e2 = (a == b), (b == a)
    if va[0] != vb[0]:
        # different kinds (e.g. the empty permutation and the empty basis are both empty tuples): the
        # property only demands that objects that compare equal hash alike
        if (e1 or e2) and hash(a) != hash(b):
            return bad("equal hashes", (hash(a), hash(b)), "objects of different kinds compare equal but hash differently")
        return ok(False)
    if e1 is not same or e2 is not same:
        return bad(same, (e1, e2), "== disagrees with equality of (kind, pattern, shading) / is not symmetric")
    if (a != b) is same or (b != a) is same:
        return bad(not same, (a != b), "!= is not the negation of ==")
    if same:
        if hash(a) != hash(b):
            return bad("equal hashes", (hash(a), hash(b)), "equal objects with different hashes")
        if b not in {a} or a not in {b} or {a: 1}.get(b) != 1 or len({a, b}) != 1:
            return bad("lookup succeeds", "lookup of an equal value fails", "set/dict lookup")
    if va[0] == vb[0] and va[0] in ("perm", "mesh"):
        got = _cmp_all(a, b)
        if va[0] == "perm":
            ka, kb = (len(va[1]), va[1]), (len(vb[1]), vb[1])
            want = {"<": ka < kb, "<=": ka <= kb, ">": ka > kb, ">=": ka >= kb}
            if got != want:
                return bad(want, got, "order of permutations is not (length, lexicographic)")
        else:
            if any(not isinstance(v, bool) for v in got.values()):
                return bad("four booleans", got, f"ordering undefined for ({type(a).__name__}, {type(b).__name__})")
            rev = _cmp_all(b, a)
            if any(not isinstance(v, bool) for v in rev.values()):
                return bad("four booleans", rev, f"ordering undefined for ({type(b).__name__}, {type(a).__name__})")
            if [got["<"], same, rev["<"]].count(True) != 1:
                return bad("exactly one of a<b, a==b, b<a", (got["<"], same, rev["<"]), "trichotomy")
            if got["<="] is not (got["<"] or same) or got[">"] is not rev["<"] or got[">="] is not rev["<="]:
                return bad("<= is (< or ==), > and >= are the reflections", (got, rev), "operators inconsistent")
    return ok(same or va[0] == vb[0])


@check("C08.triple")
def triple(item):
    a, b, c = item
    if a < b and b < c and not a < c:
        return bad("a < c", "not a < c", "transitivity of <")
    if a <= b and b <= c and not a <= c:
        return bad("a <= c", "not a <= c", "transitivity of <=")
    if a == b and b == c and not (a == c and hash(a) == hash(c)):
        return bad("a == c", "not", "transitivity of ==")
    return ok((a < b and b < c) or (a == b and b == c))


class _Churn:
    pass


@check("C08.hash_stable")
def hash_stable(item):
    x = item
    h0 = hash(x)
    keep = []
    for i in range(300):
        keep.append(super(_Churn, _Churn()))  # proxies like the one a broken __hash__ would hash
        keep.append(object())
        keep.append([i] * (i % 7))
        if hash(x) != h0:
            return bad(h0, hash(x), f"hash changed after {i} allocations")
    del keep
    gc.collect()
    junk = [object() for _ in range(1000)]
    if hash(x) != h0:
        return bad(h0, hash(x), "hash changed after gc + allocations")
    del junk
    # an equal object built from scratch hashes the same, and is found in a set built before the churn
    from vlib import codec

    y = codec.dec(codec.enc(x))
    if y != x or hash(y) != h0 or y not in {x}:
        return bad(h0, hash(y), "a freshly built equal object has a different hash / is not found")
    return ok(True)


_SHADING_KINDS = {
    "frozenset": frozenset, "set": set, "list": list, "tuple": tuple,
    "generator": lambda cs: (c for c in cs), "iterator": lambda cs: iter(list(cs)),
    "dict": lambda cs: dict.fromkeys(cs), "reversed": lambda cs: reversed(list(cs)),
}


@check("C08.construct")
def construct(item):
    """However the shading is handed over (set, list, generator, dict keys ...), the pattern is the same VALUE as
    the one built from a frozenset: equal, same hash (hash() must work), found in sets and dicts; and what the
    caller does to the container afterwards does not change the pattern."""
    t, cells, kind, cls = item
    Perm, MeshPatt, Biv, Vin, Cov, _B, _MB = _kinds()
    canon = MeshPatt(Perm(t), frozenset(cells))
    box = _SHADING_KINDS[kind](cells)
    try:
        m = MeshPatt(Perm(t), box)
        same = (m == canon, canon == m, hash(m) == hash(canon), m in {canon}, {m: 1}.get(canon) == 1)
    except Exception as exc:  # noqa: BLE001
        return bad("a hashable pattern equal to the frozenset-built one", f"raised {type(exc).__name__}: {exc}", f"MeshPatt(perm, {kind} of cells)")
    if same != (True,) * 5:
        return bad((True,) * 5, same, f"MeshPatt(perm, {kind} of cells) vs MeshPatt(perm, frozenset): ==, reflected ==, hash ==, in set, dict key")
    h0 = hash(m)
    if isinstance(box, (set, list, dict)):
        # the caller goes on using its own container
        if isinstance(box, set):
            box.add((len(t), len(t)))
            box.discard(next(iter(cells), None))
        elif isinstance(box, list):
            box.append((0, 0))
            box[:1] = []
        else:
            box.clear()
        try:
            after = (m == canon, hash(m) == h0, view(m) == view(canon))
        except Exception as exc:  # noqa: BLE001
            return bad("unchanged", f"raised {type(exc).__name__}: {exc}", f"pattern after the caller mutated its {kind}")
        if after != (True, True, True):
            return bad((True, True, True), after, f"pattern changed when the caller mutated the {kind} it was built from")
    # objects derived from it are values too: hashable, equal to a fresh copy of themselves
    from vlib import codec

    n = len(t)
    derived = [m.reverse(), m.complement(), m.inverse(), m.rotate(), m.shade((0, 0))]
    free = [(x, y) for x in range(n + 1) for y in range(n + 1) if (x, y) not in cells]
    if free:
        derived.append(m.add_point(free[0]))
        derived.append(m.add_point(free[-1], 1))
    if n:
        derived.append(m.sub_mesh_pattern(range(n - 1)))
    for d in derived:
        try:
            y = codec.dec(codec.enc(d))
            good = (y == d, hash(y) == hash(d), d in {y})
        except Exception as exc:  # noqa: BLE001
            return bad("a hashable value", f"raised {type(exc).__name__}: {exc}", f"derived pattern {d!r}")
        if good != (True, True, True):
            return bad((True, True, True), good, f"derived pattern {d!r} vs a freshly built equal one")
    return ok(bool(cells))


@check("C08.sorted")
def sorted_mixed(item):
    objs, seed = item
    import random

    base = sorted(objs)
    vb = [view(o) for o in base]
    rnd = random.Random(seed)
    for _ in range(6):
        sh = list(objs)
        rnd.shuffle(sh)
        if [view(o) for o in sorted(sh)] != vb:
            return bad(vb, [view(o) for o in sorted(sh)], "sorted() depends on the input order")
    for i in range(len(base) - 1):
        if base[i + 1] < base[i]:
            return bad("non-decreasing", (view(base[i]), view(base[i + 1])), "sorted() output is not sorted")
    if all(v[0] == "perm" for v in vb):
        want = sorted(vb, key=lambda v: (len(v[1]), v[1]))
        if vb != want:
            return bad(want, vb, "sorted perms are not in (length, lexicographic) order")
    return ok(len(set(vb)) > 1)


def pool(rng, quick):
    Perm, MeshPatt, Biv, Vin, Cov, Basis, MeshBasis = _kinds()
    perms = D.perms_upto(3) + [Perm((0, 1, 2, 3)), Perm((3, 2, 1, 0)), Perm((1, 0, 3, 2)), Perm(range(11)), Perm(range(10, -1, -1))]
    meshes = []
    for t in [(), (0,), (0, 1), (1, 0)]:
        k = len(t)
        cs = D.cells(k)
        shs = [frozenset()] + [frozenset([c]) for c in cs[:3]] + [frozenset(cs[:2]), frozenset(cs)]
        for col in range(k + 1):
            shs.append(frozenset((col, v) for v in range(k + 1)))
            shs.append(frozenset((v, col) for v in range(k + 1)))
        shs.append(frozenset((0, v) for v in range(k + 1)) | frozenset((v, k) for v in range(k + 1)))
        for sh in dict.fromkeys(shs):
            meshes.append(MeshPatt(Perm(t), sh))
    biv = []
    for t in [(), (0,), (0, 1), (1, 0)]:
        k = len(t)
        for I in [(), (0,), (k,), (0, k)]:
            I = tuple(dict.fromkeys(I))
            biv.append(Vin(Perm(t), I))
            biv.append(Cov(Perm(t), I))
            biv.append(Biv(Perm(t), I, ()))
            biv.append(Biv(Perm(t), (), I))
            biv.append(Biv(Perm(t), I, (0,)))
    m3 = list(D.sampled_mesh(rng, 3, 1 if quick else 4, boundary=False))
    bases = [Basis(Perm((0, 1))), Basis(Perm((1, 0))), Basis(Perm((0, 1, 2)), Perm((1, 0))), Basis(Perm((1, 0)), Perm((0, 1, 2))),
             Basis(Perm((0, 2, 1)), Perm((2, 1, 0))), Basis(),
             MeshBasis(MeshPatt(Perm((0, 1)), [(1, 1)])), MeshBasis(Perm((0, 1))), MeshBasis(MeshPatt(Perm((0, 1)), [])), MeshBasis(),
             MeshBasis(Vin(Perm((0, 1)), (1,))), MeshBasis(MeshPatt(Perm((0, 1)), [(1, 0), (1, 1), (1, 2)]))]
    return perms, meshes + biv + m3, bases


def run(ctx):
    quick = ctx.tier == "quick"
    rng = D.subrng(ctx, "c08")
    perms, meshy, bases = pool(rng, quick)
    everything = perms + meshy + bases
    ctx.run("C08.pair", itertools.product(everything, repeat=2), chunk=500,
            rule=f"all ordered pairs of a pool of {len(perms)} perms, {len(meshy)} mesh/bivincular/vincular/covincular patterns, {len(bases)} bases; "
                 "non-trivial = same kind (ordering applies) or equal")
    ctx.add_sample("C08.pair", (meshy[20], meshy[-5]))
    msub = meshy if not quick else rng.sample(meshy, 45)
    ctx.run("C08.triple", itertools.product(msub, repeat=3), chunk=2000,
            rule=f"all ordered triples of {len(msub)} mesh-type patterns (transitivity); non-trivial = premises hold")
    ctx.run("C08.triple", itertools.product(perms[:14], repeat=3), chunk=2000, rule="all ordered triples of 14 perms")
    ctx.run("C08.hash_stable", everything, chunk=10,
            rule="hash of every pool object before/after 900 allocations (incl. live super() proxies) and gc; equal fresh object hashes the same")
    cons = []
    for t in [(), (0,), (0, 1), (1, 0), (1, 2, 0)]:
        cs = D.cells(len(t))
        for cells in [(), tuple(cs[:1]), tuple(cs[1:3]), tuple(cs[::2]), tuple(cs)]:
            for kind in _SHADING_KINDS:
                cons.append((t, cells, kind, "MeshPatt"))
    ctx.run("C08.construct", cons, chunk=20,
            rule=f"{len(cons)} = 5 patterns x 5 shadings x {len(_SHADING_KINDS)} container kinds for the shading (frozenset, set, list, tuple, generator, "
                 "iterator, dict keys, reversed): same value as the frozenset-built pattern, unaffected by later mutation of the container; "
                 "derived patterns (symmetries, shade, add_point, sub_mesh_pattern) are hashable values")
    lists = []
    for _ in range(60 if quick else 600):
        k = rng.randint(2, 9)
        lists.append((tuple(rng.choice(meshy) for _ in range(k)), rng.randint(0, 10**6)))
        lists.append((tuple(rng.choice(perms) for _ in range(k)), rng.randint(0, 10**6)))
    ctx.run("C08.sorted", lists, chunk=10, rule="sorted() of seeded mixed lists is independent of the input order")
    ctx.exhaustive = False
    ctx.assumptions += [
        "B layer: bounded cross-check of the deductive C08 obligations; pool listed in props/c08.py:pool",
        "D layer (pyvc/dunder.py): Python's rich-comparison protocol (reflected operand first for proper subclasses overriding it, NotImplemented "
        "fall-through, TypeError when both decline, identity fall-back for ==) modelled for the closed class set read from the AST",
        "D layer: hash of a tuple / frozenset / int is an uninterpreted function of the VALUE; hash of any other object is fresh per evaluation",
        "D layer: tuple and sorted-list orders are strict total orders (axioms); sorted(frozenset) is injective",
    ]
    from props import dlayer
    dlayer.run(ctx, "C08")
