"""C10 - algebraic and structural operations (bounded layer).

One @check per function under test.  Every result that is documented to be a
permutation is first validated (type Perm, bijection of range(len), documented
length) and then compared with the point-configuration definition in
specs/structure.py; laws (group laws of composition and of the cyclic shifts,
insert/remove undo, children/coveredby duality) are evaluated on the real
results.
"""
import itertools

from specs import core as S
from specs import structure as T
from vlib import codec
from props import containers  # noqa: F401  (registers its checks before the worker pool is forked)
from vlib import domains as D
from vlib.core import bad, check, ok

LEVEL = "exploration"


def _P():
    return D.P()


def _tup(x):
    return tuple(tuple.__iter__(x))


def _vp(res, n, what):
    """None if res is a Perm object that is a bijection of range(n); else a failure."""
    if type(res) is not _P():
        return bad(f"a Perm of length {n}", f"{type(res).__name__}: {res!r}", f"{what}: result type")
    t = _tup(res)
    if not T.valid(t, n):
        return bad(f"a bijection of range({n})", t, f"{what}: result is not a permutation of the documented length")
    return None


def _cmp(res, want, what, nt=True):
    """Validate and compare one permutation-valued result."""
    f = _vp(res, len(want), what)
    if f is not None:
        return f
    if _tup(res) != tuple(want):
        return bad(tuple(want), _tup(res), f"{what}: differs from the definition", nt)
    return None


def _raises_assert(fn):
    try:
        res = fn()
    except AssertionError:
        return True, None
    except BaseException as e:
        return False, f"raised {type(e).__name__}: {e}"
    return False, f"returned {res!r}"


# ===================================================================== sums
def _sum_check(kind):
    method = {"direct": "direct_sum", "skew": "skew_sum"}[kind]
    spec = {"direct": T.direct_sum, "skew": T.skew_sum}[kind]

    def fn(item):
        p, others = item
        others = tuple(others)
        want = spec(_tup(p), *[_tup(o) for o in others])
        what = f"{_tup(p)}.{method}{tuple(_tup(o) for o in others)}"
        f = _cmp(getattr(p, method)(*others), want, what)
        if f is not None:
            return f
        if len(others) == 1:
            op = (p + others[0]) if kind == "direct" else (p - others[0])
            f = _cmp(op, want, f"operator form of {what}")
            if f is not None:
                return f
        # n-ary form = iterated binary form
        acc = p
        for o in others:
            acc = getattr(acc, method)(o)
        f = _cmp(acc, want, f"iterated binary {method}")
        if f is not None:
            return f
        if sum(map(len, others)) + len(p) != len(want):
            raise RuntimeError("spec length")
        return ok(len(others) >= 1 and len(want) >= 2)

    return fn


direct_sum = check("C10.direct_sum")(_sum_check("direct"))
skew_sum = check("C10.skew_sum")(_sum_check("skew"))


# ===================================================================== composition
@check("C10.compose")
def compose(item):
    p, others = item
    others = tuple(others)
    want = T.compose(_tup(p), *[_tup(o) for o in others])
    what = f"{_tup(p)}.compose{tuple(_tup(o) for o in others)}"
    for name in ("compose", "multiply"):
        f = _cmp(getattr(p, name)(*others), want, what.replace("compose", name))
        if f is not None:
            return f
    if len(others) == 1:
        f = _cmp(p * others[0], want, f"{_tup(p)} * {_tup(others[0])}")
        if f is not None:
            return f
    return ok(len(others) >= 1 and len(want) >= 2)


@check("C10.compose.laws")
def compose_laws(item):
    Perm = _P()
    p, q, r = item
    n = len(p)
    e = Perm(range(n))
    facts = {
        "(p*q)*r == p*(q*r)": ((p * q) * r, p * (q * r)),
        "p.compose(q, r) == (p*q)*r": (p.compose(q, r), (p * q) * r),
        "(p*q)^-1 == q^-1 * p^-1": ((p * q).inverse(), q.inverse() * p.inverse()),
        "p*e == p": (p * e, p),
        "e*p == p": (e * p, p),
        "p*p^-1 == e": (p * p.inverse(), e),
        "p^-1*p == e": (p.inverse() * p, e),
        "(p^-1)^-1 == p": (p.inverse().inverse(), p),
        "Perm.identity(n) == e": (Perm.identity(n), e),
    }
    for name, (a, b) in facts.items():
        f = _vp(a, n, name) or _vp(b, n, name)
        if f is not None:
            return f
        if _tup(a) != _tup(b):
            return bad(_tup(b), _tup(a), f"law {name} fails for p={_tup(p)}, q={_tup(q)}, r={_tup(r)}")
    return ok(n >= 3)


@check("C10.inverse")
def inverse(p):
    t = _tup(p)
    f = _cmp(p.inverse(), T.inverse(t), f"{t}.inverse()")
    if f is not None:
        return f
    inv = p.inverse()
    if any(inv[t[i]] != i or t[inv[i]] != i for i in range(len(t))):
        return bad("inverse[p[i]] == i", _tup(inv), "pointwise inverse law")
    return ok(len(t) >= 3)


@check("C10.call")
def call(p):
    t = _tup(p)
    for i in range(len(t)):
        got = p(i)
        if got != t[i] or type(got) is not int:
            return bad(t[i], got, f"Perm{t}({i})")
    return ok(len(t) >= 2)


@check("C10.apply")
def apply(item):
    """Docstring convention: result[j] = seq[p[j]]."""
    p, q = item
    t, s = _tup(p), _tup(q)
    letters = "abcdefghij"
    seqs = {
        "tuple of ints": tuple(10 * v + 3 for v in s),
        "str": "".join(letters[v] for v in s),
        "list of str": [letters[v] * 2 for v in s],
        "Perm": q,
    }
    for name, seq in seqs.items():
        want = tuple(seq[t[j]] for j in range(len(t)))
        for meth in ("apply", "permute"):
            got = getattr(p, meth)(seq)
            if type(got) is not tuple or got != want:
                return bad(want, got, f"Perm{t}.{meth}({name} {seq!r})")
    got = p.apply(v for v in s)
    if tuple(got) != tuple(s[t[j]] for j in range(len(t))):
        return bad(tuple(s[t[j]] for j in range(len(t))), got, "apply(generator)")
    # on a permutation, apply is composition from the other side
    if tuple(p.apply(q)) != T.compose(s, t):
        return bad(T.compose(s, t), tuple(p.apply(q)), "p.apply(q) must equal q o p")
    return ok(len(t) >= 2)


# ===================================================================== insert / remove
@check("C10.insert")
def insert(item):
    """Docstring: 'adding a new element at index. The index defaults to the right end
    and value defaults to len(self)'; the code admits 0 <= index <= n+1 (n+1 is the
    default and means the right end, like n) and 0 <= new_element <= n."""
    p, index, value = item
    t = _tup(p)
    n = len(t)
    eff_i = n if index is None else min(index, n)
    eff_v = n if value is None else value
    want = T.insert(t, eff_i, eff_v)
    if index is None and value is None:
        got = p.insert()
    elif value is None:
        got = p.insert(index)
    elif index is None:
        got = p.insert(new_element=value)
    else:
        got = p.insert(index, value)
    what = f"Perm{t}.insert({index}, {value})"
    f = _cmp(got, want, what)
    if f is not None:
        return f
    if got[eff_i] != eff_v:
        return bad(eff_v, got[eff_i], f"{what}: the new element is not at the index")
    if index is not None and value is not None and _tup(p.insert(index=index, new_element=value)) != want:
        return bad(want, p.insert(index=index, new_element=value), "keyword form")
    # removal undoes insertion
    back = {"remove(index)": got.remove(eff_i), "remove_element(value)": got.remove_element(eff_v)}
    if eff_v == n:
        back["remove()"] = got.remove()
        back["remove_element()"] = got.remove_element()
    for name, b in back.items():
        f = _cmp(b, t, f"{what}.{name}")
        if f is not None:
            return f
    return ok(n >= 1)


@check("C10.remove")
def remove(item):
    p, index = item
    t = _tup(p)
    n = len(t)
    if index is None:
        # "defaults to the greatest element"; nothing to remove from the empty perm
        want = T.remove_value(t, n - 1) if n else ()
        got = p.remove()
        idx = t.index(n - 1) if n else None
    else:
        # a negative index counts from the end, as everywhere in Python (the entry self[index] is removed)
        idx = index if index >= 0 else n + index
        want = T.remove_index(t, idx)
        got = p.remove(index)
    what = f"Perm{t}.remove({'' if index is None else index})"
    f = _cmp(got, want, what)
    if f is not None:
        return f
    if idx is not None:
        f = _cmp(got.insert(idx, t[idx]), t, f"{what}.insert({idx}, {t[idx]})")
        if f is not None:
            return f
    return ok(n >= 2)


@check("C10.remove_element")
def remove_element(item):
    p, value = item
    t = _tup(p)
    n = len(t)
    if value is None:
        want = T.remove_value(t, n - 1) if n else ()
        got = p.remove_element()
        v = n - 1 if n else None
    else:
        want = T.remove_value(t, value)
        got = p.remove_element(value)
        v = value
    what = f"Perm{t}.remove_element({'' if value is None else value})"
    f = _cmp(got, want, what)
    if f is not None:
        return f
    if v is not None:
        f = _cmp(got.insert(t.index(v), v), t, f"{what}.insert({t.index(v)}, {v})")
        if f is not None:
            return f
        if _tup(p.remove(t.index(v))) != want:
            return bad(want, p.remove(t.index(v)), "remove(index of value) must agree with remove_element(value)")
    return ok(n >= 2)


# ===================================================================== inflation
@check("C10.inflate")
def inflate(item):
    p, comps = item
    t = _tup(p)
    comps = tuple(comps)
    plain = [None if c is None else _tup(c) for c in comps]
    want = T.inflate(t, plain)
    what = f"Perm{t}.inflate({plain})"
    for name, arg in (("list", list(comps)), ("tuple", comps), ("generator", (c for c in comps))):
        f = _cmp(p.inflate(arg), want, f"{what} [{name}]")
        if f is not None:
            return f
    if len(want) != sum(1 if c is None else len(c) for c in plain):
        raise RuntimeError("spec length")
    nt = len(t) >= 2 and any(c is not None and len(c) != 1 for c in plain)
    return ok(nt)


# ===================================================================== shifts
_SHIFT = {
    "shift_right": (lambda t, k: T.shift_right(t, k), ("shift", "cyclic_shift", "cyclic_shift_right")),
    "shift_left": (lambda t, k: T.shift_right(t, -k), ("cyclic_shift_left",)),
    "shift_up": (lambda t, k: T.shift_up(t, k), ()),
    "shift_down": (lambda t, k: T.shift_up(t, -k), ()),
}


def _shift_check(method):
    spec, aliases = _SHIFT[method]

    def fn(item):
        p, k = item
        t = _tup(p)
        want = spec(t, 1 if k is None else k)
        for name in (method,) + aliases:
            got = getattr(p, name)() if k is None else getattr(p, name)(k)
            f = _cmp(got, want, f"Perm{t}.{name}({'' if k is None else k})")
            if f is not None:
                return f
        if k is not None and _tup(getattr(p, method)(times=k)) != want:
            return bad(want, getattr(p, method)(times=k), "keyword form")
        return ok(len(t) >= 2 and (1 if k is None else k) % len(t) != 0)

    return fn


for _m in _SHIFT:
    globals()["chk_" + _m] = check("C10." + _m)(_shift_check(_m))


@check("C10.shift.laws")
def shift_laws(item):
    """Cyclic group actions of Z on columns (right/left) and rows (up/down)."""
    p, a, bs = item
    t = _tup(p)
    n = len(t)
    ra, ua = p.shift_right(a), p.shift_up(a)
    facts = {
        "shift_left(a) == shift_right(-a)": (p.shift_left(a), p.shift_right(-a)),
        "shift_down(a) == shift_up(-a)": (p.shift_down(a), p.shift_up(-a)),
        "shift_right(a).shift_left(a) == p": (ra.shift_left(a), p),
        "shift_left(a).shift_right(a) == p": (p.shift_left(a).shift_right(a), p),
        "shift_up(a).shift_down(a) == p": (ua.shift_down(a), p),
        "shift_right(n) == p": (p.shift_right(n), p),
        "shift_up(n) == p": (p.shift_up(n), p),
        "shift_right(0) == p": (p.shift_right(0), p),
        "shift_up(0) == p": (p.shift_up(0), p),
        "shift_right(a+n) == shift_right(a)": (p.shift_right(a + n), ra),
        "shift_up(a-n) == shift_up(a)": (p.shift_up(a - n), ua),
        # rotating columns of p = rotating rows of the inverse
        "shift_right(a) == inverse(inverse.shift_up(a))": (ra, p.inverse().shift_up(a).inverse()),
    }
    for b in bs:
        facts[f"shift_right(a).shift_right({b}) == shift_right(a+{b})"] = (ra.shift_right(b), p.shift_right(a + b))
        facts[f"shift_up(a).shift_up({b}) == shift_up(a+{b})"] = (ua.shift_up(b), p.shift_up(a + b))
        facts[f"shift_left(a).shift_left({b}) == shift_left(a+{b})"] = (p.shift_left(a).shift_left(b), p.shift_left(a + b))
        facts[f"shift_down(a).shift_down({b}) == shift_down(a+{b})"] = (p.shift_down(a).shift_down(b), p.shift_down(a + b))
        facts[f"shift_up(a).shift_right({b}) == shift_right({b}).shift_up(a)"] = (ua.shift_right(b), p.shift_right(b).shift_up(a))
    for name, (x, y) in facts.items():
        f = _vp(x, n, name) or _vp(y, n, name)
        if f is not None:
            return f
        if _tup(x) != _tup(y):
            return bad(_tup(y), _tup(x), f"law {name} fails for p={t}, a={a}")
    return ok(n >= 2 and a % n != 0)


# ===================================================================== decomposability
def _bool_check(methods, spec, nt):
    def fn(p):
        t = _tup(p)
        want = spec(t)
        for m in methods:
            got = getattr(p, m)()
            if got is not want:
                return bad(want, got, f"Perm{t}.{m}()", nt(t, want))
        return ok(nt(t, want))

    return fn


chk_is_sum = check("C10.is_sum_decomposable")(
    _bool_check(("is_sum_decomposable", "sum_decomposable"), T.is_sum_decomposable, lambda t, w: len(t) >= 3))
chk_is_skew = check("C10.is_skew_decomposable")(
    _bool_check(("is_skew_decomposable", "skew_decomposable"), T.is_skew_decomposable, lambda t, w: len(t) >= 3))
chk_is_simple = check("C10.is_simple")(
    _bool_check(("is_simple",), T.is_simple, lambda t, w: len(t) >= 4))
chk_is_strongly_simple = check("C10.is_strongly_simple")(
    _bool_check(("is_strongly_simple",), T.is_strongly_simple, lambda t, w: len(t) >= 4 and T.is_simple(t)))


def _decomp_check(kind):
    method = {"sum": "sum_decomposition", "skew": "skew_decomposition"}[kind]
    spec = {"sum": T.sum_decomposition, "skew": T.skew_decomposition}[kind]
    glue_spec = {"sum": T.direct_sum, "skew": T.skew_sum}[kind]
    glue = {"sum": "direct_sum", "skew": "skew_sum"}[kind]
    indec = {"sum": T.is_sum_decomposable, "skew": T.is_skew_decomposable}[kind]
    indec_m = {"sum": "is_sum_decomposable", "skew": "is_skew_decomposable"}[kind]

    def fn(p):
        Perm = _P()
        t = _tup(p)
        got = getattr(p, method)()
        what = f"Perm{t}.{method}()"
        if type(got) is not list:
            return bad("a list of Perm", type(got).__name__, what)
        for b in got:
            f = _vp(b, len(b) if isinstance(b, tuple) else 0, f"{what}: block")
            if f is not None:
                return f
        blocks = [_tup(b) for b in got]
        if any(len(b) == 0 for b in blocks):
            return bad("non-empty blocks", blocks, what)
        # re-assembly (definition and real operation)
        if glue_spec(*blocks) != t:
            return bad(t, glue_spec(*blocks), f"{what}: blocks {blocks} do not re-assemble to the permutation")
        re = getattr(Perm(), glue)(*got)
        if _tup(re) != t:
            return bad(t, re, f"{what}: Perm().{glue}(*blocks) is not the permutation")
        for b, bo in zip(blocks, got):
            if indec(b) or getattr(bo, indec_m)():
                return bad("indecomposable blocks", blocks, f"{what}: block {b} is decomposable")
        want = spec(t)
        if blocks != want:
            return bad(want, blocks, f"{what}: differs from the finest decomposition")
        if (len(blocks) >= 2) is not getattr(p, indec_m)():
            return bad(len(blocks) >= 2, getattr(p, indec_m)(), f"{indec_m} must hold iff there are >= 2 blocks")
        return ok(len(t) >= 3 and 2 <= len(blocks) < len(t))

    return fn


chk_sum_dec = check("C10.sum_decomposition")(_decomp_check("sum"))
chk_skew_dec = check("C10.skew_decomposition")(_decomp_check("skew"))


# ===================================================================== intervals
@check("C10.block_decomposition")
def block_decomposition(p):
    t = _tup(p)
    want = T.block_table(t)
    for m in ("block_decomposition", "all_intervals", "decomposition"):
        got = getattr(p, m)()
        if type(got) is not list or [list(x) for x in got] != want:
            return bad(want, got, f"Perm{t}.{m}(): entry L must list the starts of all intervals of length L (2 <= L < n)")
    return ok(len(t) >= 4 and any(want))


@check("C10.block_decomposition_as_pattern")
def block_decomposition_as_pattern(p):
    t = _tup(p)
    want = {S.std(t[s:s + L]) for s, L in T.proper_intervals(t)}
    got = p.block_decomposition_as_pattern()
    if type(got) is not list:
        return bad("a list", type(got).__name__, "block_decomposition_as_pattern")
    for b in got:
        f = _vp(b, len(b) if isinstance(b, tuple) else 0, "block_decomposition_as_pattern: entry")
        if f is not None:
            return f
    gs = [_tup(b) for b in got]
    if len(set(gs)) != len(gs) or set(gs) != want:
        return bad(sorted(want), sorted(gs), f"Perm{t}.block_decomposition_as_pattern(): patterns of the proper intervals, each once")
    return ok(len(want) >= 2)


@check("C10.maximum_block")
def maximum_block(p):
    t = _tup(p)
    want = T.maximum_block(t)
    for m in ("maximum_block", "maximal_interval", "simple_location"):
        got = getattr(p, m)()
        if type(got) is not tuple or got != want:
            return bad(want, got, f"Perm{t}.{m}(): (length, first start) of a largest proper interval, (0, 0) if none")
    return ok(len(t) >= 4 and want != (0, 0))


# ===================================================================== monotone blocks
_STEPS = {
    "monotone_block_decomposition": ((1, -1), ("all_monotone_intervals",)),
    "monotone_block_decomposition_ascending": ((1,), ()),
    "monotone_block_decomposition_descending": ((-1,), ()),
}


def _mono_check(method):
    steps, aliases = _STEPS[method]

    def fn(item):
        p, with_ones = item
        t = _tup(p)
        want = T.monotone_blocks(t, steps, bool(with_ones))
        for m in (method,) + aliases:
            res = getattr(p, m)() if with_ones is None else getattr(p, m)(with_ones)
            got = list(res)
            if [tuple(x) for x in got] != want or any(type(x) is not tuple for x in got):
                return bad(want, got, f"Perm{t}.{m}({'' if with_ones is None else with_ones}): maximal runs as (first, last) index pairs")
        if with_ones is not None and [tuple(x) for x in getattr(p, method)(with_ones=with_ones)] != want:
            return bad(want, list(getattr(p, method)(with_ones=with_ones)), "keyword form")
        return ok(any(b > a for a, b in want) and want != [(0, len(t) - 1)])

    return fn


for _m in _STEPS:
    globals()["chk_" + _m] = check("C10." + _m)(_mono_check(_m))

_CONTRACT = {
    "contract_inc_bonds": (1,),
    "contract_dec_bonds": (-1,),
    "contract_bonds": (1, -1),
    "monotone_quotient": (1, -1),
}


def _contract_check(method):
    steps = _CONTRACT[method]

    def fn(p):
        t = _tup(p)
        want = T.contract(t, steps)
        f = _cmp(getattr(p, method)(), want, f"Perm{t}.{method}()")
        if f is not None:
            return f
        return ok(1 < len(want) < len(t))

    return fn


for _m in _CONTRACT:
    globals()["chk_" + _m] = check("C10." + _m)(_contract_check(_m))


# ===================================================================== shadow / covers
def _set_result(got, n, what):
    if type(got) is not list:
        return None, bad("a list of Perm", type(got).__name__, what)
    for q in got:
        f = _vp(q, n, f"{what}: element")
        if f is not None:
            return None, f
    ts = [_tup(q) for q in got]
    if len(set(ts)) != len(ts):
        return None, bad("no duplicates", sorted(ts), f"{what}: the same permutation is listed twice")
    return set(ts), None


@check("C10.children")
def children(p):
    t = _tup(p)
    want = T.deletions(t)
    for m in ("children", "shrink_by_one"):
        got, f = _set_result(getattr(p, m)(), max(len(t) - 1, 0), f"Perm{t}.{m}()")
        if f is not None:
            return f
        if got != want:
            return bad(sorted(want), sorted(got), f"Perm{t}.{m}(): set of one-point deletions")
    return ok(len(t) >= 3 and len(want) < len(t))


@check("C10.coveredby")
def coveredby(p):
    t = _tup(p)
    n = len(t)
    want = T.insertions(t)
    if n <= 6 and want != T.cover_table(n)[t]:
        raise RuntimeError("spec inconsistency: insertions vs cover table")
    got, f = _set_result(p.coveredby(), n + 1, f"Perm{t}.coveredby()")
    if f is not None:
        return f
    if got != want:
        return bad(sorted(want), sorted(got), f"Perm{t}.coveredby(): set of one-point insertions")
    if len(want) != n * n + 1:
        raise RuntimeError("a permutation of length n has n^2+1 covers")
    return ok(n >= 2)


@check("C10.duality")
def duality(p):
    """q in coveredby(p) <=> p in children(q), for every q one longer than p; and the
    same from below: c in children(p) <=> p in coveredby(c) for every c one shorter."""
    Perm = _P()
    t = _tup(p)
    n = len(t)
    up = {_tup(q) for q in p.coveredby()}
    for qt in T.lex_perms_cached(n + 1):
        q = Perm(qt)
        down = t in {_tup(c) for c in q.children()}
        if down != (qt in up):
            return bad(down, qt in up, f"q={qt}: 'q in coveredby(p)' must equal 'p in children(q)' for p={t}")
    if n >= 1:
        mine = {_tup(c) for c in p.children()}
        for ct in T.lex_perms_cached(n - 1):
            if (ct in mine) != (t in {_tup(x) for x in Perm(ct).coveredby()}):
                return bad(ct in mine, not (ct in mine), f"c={ct}: 'c in children(p)' must equal 'p in coveredby(c)' for p={t}")
    return ok(n >= 2)


# ===================================================================== documented asserts
def _assert_calls():
    return {
        "compose": lambda p, *o: p.compose(*o),
        "mul": lambda p, q: p * q,
        "insert": lambda p, i, v: p.insert(i, v),
        "remove_element": lambda p, v: p.remove_element(v),
        "inflate": lambda p, comps: p.inflate(list(comps)),
        "apply": lambda p, seq: p.apply(seq),
        "call": lambda p, i: p(i),
    }


@check("C10.asserts")
def asserts(item):
    """compose: all others are Perms of the same length; insert: 0 <= index <= n+1,
    0 <= new_element <= n; remove_element: 0 <= selected < n; inflate/apply: one
    component/entry per point; __call__: 0 <= value < n."""
    name, args, must_raise = item
    fn = _assert_calls()[name]
    if must_raise:
        hit, info = _raises_assert(lambda: fn(*args))
        if not hit:
            return bad("AssertionError", info, f"{name}{codec.enc(args)}: argument outside the documented range accepted")
        return ok(True)
    fn(*args)
    return ok(True)


# ===================================================================== driver
def run(ctx):
    quick = ctx.tier == "quick"
    Perm = _P()
    rng = D.subrng(ctx, "c10")
    nmax = 7 if quick else 8
    unary = D.perms_upto(nmax)
    by_len = {n: D.perms(n) for n in range(0, 8)}

    # ---- sums
    small = D.perms_upto(4 if quick else 5)
    sums = [(p, ()) for p in D.perms_upto(5)]
    sums += [(p, (q,)) for p in small for q in small]
    p3 = D.perms_upto(3)
    sums += [(p, (q, r)) for p in p3 for q in p3 for r in p3]
    p2 = D.perms_upto(2)
    sums += [(p, (q, r, s)) for p in p2 for q in p2 for r in p2 for s in p2]
    pool = D.perms_upto(6)
    for _ in range(300 if quick else 5000):
        sums.append((rng.choice(pool), tuple(rng.choice(pool) for _ in range(rng.randrange(1, 4)))))
    rule = ("self with 0 others (perms <= 5), all pairs of perms <= %d, all triples <= 3, all quadruples <= 2 "
            "(empty perms included), seeded 2-4 summands of length <= 6" % (4 if quick else 5))
    ctx.run("C10.direct_sum", sums, chunk=300, rule=rule)
    ctx.run("C10.skew_sum", sums, chunk=300, rule=rule)
    ctx.add_sample("C10.direct_sum", (Perm((0,)), (Perm((1, 0)), Perm((2, 1, 0)))))

    # ---- composition
    comp = [(p, ()) for p in D.perms_upto(5)]
    for n in range(0, 6):
        comp += [(p, (q,)) for p in by_len[n] for q in by_len[n]]
    for n in range(0, 4 if quick else 5):
        comp += [(p, (q, r)) for p in by_len[n] for q in by_len[n] for r in by_len[n]]
    for n in range(0, 4):
        comp += [(p, (q, r, s)) for p in by_len[n] for q in by_len[n] for r in by_len[n] for s in by_len[n]]
    for _ in range(500 if quick else 5000):
        n = rng.choice((4, 5, 6, 7, 8))
        comp.append((D.random_perm(rng, n), tuple(D.random_perm(rng, n) for _ in range(rng.randrange(1, 5)))))
    ctx.run("C10.compose", comp, chunk=500,
            rule="0 others; all pairs of equal length <= 5; all triples <= %d; all quadruples <= 3; seeded 2-5 factors of length 4-8"
                 % (3 if quick else 4))
    laws = []
    for n in range(0, 4 if quick else 5):
        laws += [(p, q, r) for p in by_len[n] for q in by_len[n] for r in by_len[n]]
    for _ in range(1500 if quick else 10000):
        n = rng.choice((4, 5, 6, 7))
        laws.append((D.random_perm(rng, n), D.random_perm(rng, n), D.random_perm(rng, n)))
    ctx.run("C10.compose.laws", laws, chunk=300,
            rule="associativity, identity, inverse, anti-homomorphism of inverse on all triples of equal length <= %d + seeded triples 4-7"
                 % (3 if quick else 4))
    long_unary = [D.random_perm(rng, n) for n in range(9, 41) for _ in range(3 if quick else 20)]
    ctx.run("C10.inverse", unary + long_unary, chunk=1500, rule=f"all permutations <= {nmax} + seeded ones of every length 9-40")
    ctx.run("C10.call", unary + long_unary, chunk=1500, rule=f"all permutations <= {nmax} + seeded ones of every length 9-40, every argument 0..n-1")
    app = []
    for n in range(0, 5):
        app += [(p, q) for p in by_len[n] for q in by_len[n]]
    for _ in range(1000 if quick else 10000):
        n = rng.choice((5, 6, 7, 8, 9, 10))
        app.append((D.random_perm(rng, n), D.random_perm(rng, n)))
    ctx.run("C10.apply", app, chunk=400, rule="all pairs (perm, sequence order) of equal length <= 4 + seeded 5-10; tuples, str, lists, generators, perms")

    # ---- insert / remove
    ins_n = 6 if quick else 7
    ins = []
    for p in D.perms_upto(ins_n):
        n = len(p)
        for i in [None] + list(range(0, n + 2)):
            for v in [None] + list(range(0, n + 1)):
                ins.append((p, i, v))
    for _ in range(250 if quick else 1500):
        p = D.random_perm(rng, ins_n + 1)
        n = len(p)
        ins += [(p, i, v) for i in [None] + list(range(0, n + 2)) for v in [None] + list(range(0, n + 1))]
    ctx.run("C10.insert", ins, chunk=1500,
            rule=f"all permutations <= {ins_n} (+ seeded of length {ins_n + 1}) x every index in {{default, 0..n+1}} x every value in {{default, 0..n}}")
    ctx.add_sample("C10.insert", (Perm((2, 0, 1)), 4, 1))
    rem = [(p, i) for p in unary for i in [None] + list(range(len(p)))]
    ctx.run("C10.remove", rem + [(p, i) for p in unary for i in range(-len(p), 0)], chunk=1500,
            rule=f"all permutations <= {nmax} x every index (0..n-1 and the negative forms -n..-1) and the default")
    ctx.run("C10.remove_element", rem, chunk=1500, rule=f"all permutations <= {nmax} x every value and the default")

    # ---- inflation
    choices = (None, Perm(), Perm((0,)), Perm((0, 1)), Perm((1, 0)), Perm((1, 2, 0)))
    infl_n = 4 if quick else 5
    infl = ((p, comps) for p in D.perms_upto(infl_n) for comps in itertools.product(choices, repeat=len(p)))
    ctx.run("C10.inflate", infl, chunk=1500,
            rule=f"all permutations <= {infl_n} x all component lists over {{None, empty, 0, 01, 10, 120}}; non-trivial = some component "
                 "is not a single point")
    more = []
    big = choices + (Perm((2, 0, 3, 1)), Perm((0, 2, 1)), Perm((3, 2, 1, 0)))
    for _ in range(1500 if quick else 15000):
        p = D.random_perm(rng, rng.choice((5, 6, 7)))
        more.append((p, tuple(rng.choice(big) for _ in range(len(p)))))
    ctx.run("C10.inflate", more, chunk=300, rule="seeded permutations of length 5-7 with components from a 9-element pool")
    ctx.add_sample("C10.inflate", (Perm((1, 0, 2)), (None, Perm((0, 1)), Perm())))

    # ---- shifts
    sh_n = 6 if quick else 7
    shp = D.perms_upto(sh_n) + [D.random_perm(rng, sh_n + 1) for _ in range(300 if quick else 3000)]
    shifts = [(p, k) for p in shp for k in [None] + list(range(-2 * len(p) - 1, 2 * len(p) + 2))]
    for m in _SHIFT:
        ctx.run("C10." + m, shifts, chunk=2000,
                rule=f"all permutations <= {sh_n} (+ seeded of length {sh_n + 1}) x every amount in [-2n-1, 2n+1] and the default, aliases included")
    sl = []
    for p in shp:
        n = len(p)
        full = tuple(range(-2 * n - 1, 2 * n + 2))
        for a in full:
            bs = full if n <= 4 else tuple(sorted({-n - 1, -1, 1, n, -a, rng.choice(full)}))
            sl.append((p, a, bs))
    ctx.run("C10.shift.laws", sl, chunk=500,
            rule="same (perm, a); second amount b over the whole range for n <= 4, else over {-n-1, -1, 1, n, -a, one seeded}")
    ctx.add_sample("C10.shift_right", (Perm((0, 1, 2)), -4))

    # ---- decomposability, intervals, monotone blocks, contractions, children
    extra = [D.random_perm(rng, n) for n in (9, 10, 12) for _ in range(60 if quick else 600)]
    # planted structure: sums / inflations of random pieces (long permutations are almost never decomposable)
    for _ in range(200 if quick else 2000):
        parts = [D.random_perm(rng, rng.randrange(1, 5)) for _ in range(rng.randrange(2, 4))]
        q = parts[0].direct_sum(*parts[1:]) if rng.random() < 0.5 else parts[0].skew_sum(*parts[1:])
        extra.append(q)
        outer = D.random_perm(rng, rng.randrange(2, 5))
        extra.append(Perm(T.inflate(tuple(outer), [tuple(D.random_perm(rng, rng.randrange(1, 4))) for _ in outer])))
    dom = unary + extra
    dom_rule = (f"all permutations <= {nmax} + seeded of length 9-12 + seeded sums/skew sums/inflations (built with the spec) "
                "of random pieces")
    for name in ("C10.is_sum_decomposable", "C10.is_skew_decomposable", "C10.sum_decomposition", "C10.skew_decomposition",
                 "C10.block_decomposition", "C10.block_decomposition_as_pattern", "C10.maximum_block", "C10.is_simple"):
        ctx.run(name, dom, chunk=800, rule=dom_rule)
    example = (4, 1, 6, 3, 0, 7, 2, 5)
    strong = unary + [Perm(t) for t in sorted(S.orbit(example))]
    strong += [D.random_perm(rng, n) for n in (8, 9) for _ in range(150 if quick else 1500)]
    ctx.run("C10.is_strongly_simple", strong, chunk=400,
            rule=f"all permutations <= {nmax}, the symmetry class of the docstring example (length 8), seeded of length 8-9; "
                 "non-trivial = simple of length >= 4")
    mono = [(p, w) for p in dom for w in (None, True, False)]
    for m in _STEPS:
        ctx.run("C10." + m, mono, chunk=1000, rule=dom_rule + " x with_ones in {default, True, False}")
    for m in _CONTRACT:
        ctx.run("C10." + m, dom, chunk=800, rule=dom_rule)
    ctx.run("C10.children", dom, chunk=800, rule=dom_rule)
    cov_n = 6 if quick else 7
    ctx.run("C10.coveredby", D.perms_upto(cov_n) + extra[: (60 if quick else 600)], chunk=200,
            rule=f"all permutations <= {cov_n} + seeded of length 9; oracle = all one-point insertions, cross-checked for n <= 6 against "
                 "'q of length n+1 with p among its one-point deletions'")
    dual_n = 5 if quick else 6
    ctx.run("C10.duality", D.perms_upto(dual_n), chunk=4,
            rule=f"every permutation p <= {dual_n} against every q of length |p|+1 and every c of length |p|-1")
    ctx.add_sample("C10.block_decomposition", Perm((5, 3, 0, 1, 2, 4, 7, 6)))

    # ---- documented asserts
    A = []
    for p in D.perms_upto(3):
        n = len(p)
        for m in (n - 1, n + 1):
            if m >= 0:
                A += [("compose", (p, Perm(range(m))), True), ("mul", (p, Perm(range(m))), True),
                      ("compose", (p, Perm(range(n)), Perm(range(m))), True),
                      ("inflate", (p, tuple([None] * m)), True), ("apply", (p, tuple(range(m))), True)]
        A += [("compose", (p, tuple(range(n))), True),  # a plain tuple is not a Perm
              ("compose", (p, Perm(range(n))), False), ("mul", (p, Perm(range(n))), False),
              ("inflate", (p, tuple([None] * n)), False), ("apply", (p, tuple(range(n))), False),
              ("insert", (p, n + 2, 0), True), ("insert", (p, -1, 0), True), ("insert", (p, 0, n + 1), True),
              ("insert", (p, 0, -1), True), ("insert", (p, n + 1, n), False), ("insert", (p, 0, 0), False),
              ("remove_element", (p, n), True), ("remove_element", (p, -1), True),
              ("call", (p, n), True), ("call", (p, -1), True)]
        if n:
            A += [("remove_element", (p, n - 1), False), ("remove_element", (p, 0), False),
                  ("call", (p, n - 1), False), ("call", (p, 0), False)]
    ctx.run("C10.asserts", A, chunk=50,
            rule="each documented assert just inside (accepted) and just outside (AssertionError) its range, on every permutation <= 3")

    ctx.exhaustive = False
    ctx.assumptions += [
        "B layer: bounded; exhaustive up to the stated sizes, seeded beyond",
        "oracles build point configurations with tuple/Fraction coordinates and read the permutation off by sorting (specs/structure.py)",
        "Python asserts are enabled (no -O)",
        "is_strongly_simple is read as: simple and every one-point deletion is simple",
    ]
    from props import dlayer

    containers.run_for(ctx, "C10")
    dlayer.run(ctx, "C10")
