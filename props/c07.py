"""C07 - concurrent queries on a permutation class.

B part only: a STRESS run with real threads.  Interleavings are SAMPLED by the
CPython scheduler (switch interval 1 microsecond, barrier start, seeded query
plans); they are NOT enumerated, so a pass here is not evidence for "every
interleaving" - that part of the property is the business of the structural
rely/guarantee obligations of the deductive layer (DESIGN section 7, C07: one
lock object, every cache write dominated by `with L`, no re-acquisition, every
write preserves "published levels never change", every read outside the lock is
of a level the same thread has ensured).

One input of `C07.round` = one round: (patterns, number of threads, seed, mode).
The round clears the instance cache, builds a fresh class, starts 2-4 threads that
each run a seeded plan of count / of_length (consumed) / `in` / up_to_length
queries for different lengths, and compares EVERY return value with the
single-threaded oracle:

  oracle = brute-force filter by the definition (specs/classes.level) for lengths
  <= 6 and for mesh bases; for classical bases and lengths 7-8 the same brute-force
  containment test restricted to candidates whose maximum-deleted permutation is
  in the level below (specs/classes.level_closed; downward closure).  The code
  under test is not used as its own oracle.

Any exception in a thread, a thread that does not finish, a wrong value, or a
violated representation invariant (props.c02.well_formed) after the round fails
the round.  mode "shared": one Av object built before the threads start; mode
"constructed": every thread constructs the class itself from an equal basis
after the barrier (they must behave as one class).
"""
import random
import sys
import threading

from props import c02
from specs import classes as K
from specs import core as S
from vlib import domains as D
from vlib.core import bad, check, ok

LEVEL = "other"


def _oracle_set(n, spec):
    if any(S.is_mesh(q) for q in spec) or n <= 5:
        return K.level_set(n, spec)
    return K.level_closed_set(n, spec)


def _plan(rng, spec, top, length):
    Perm = D.P()
    ops = []
    for _ in range(length):
        n = rng.randrange(0, top + 1)
        r = rng.random()
        if r < 0.3:
            ops.append(("count", n))
        elif r < 0.55:
            ops.append(("of_length", n))
        elif r < 0.85:
            lv = sorted(_oracle_set(n, spec))
            if lv and rng.random() < 0.5:
                ops.append(("in", Perm(rng.choice(lv))))
            else:
                ops.append(("in", D.random_perm(rng, n)))
        else:
            ops.append(("up_to_length", rng.randrange(0, top)))
    return ops


def _execute(av, op):
    if op[0] == "count":
        return av.count(op[1])
    if op[0] == "of_length":
        return list(av.of_length(op[1]))
    if op[0] == "in":
        return op[1] in av
    return list(av.up_to_length(op[1]))


def _compare(spec, op, got):
    if op[0] == "count":
        want = len(_oracle_set(op[1], spec))
        return None if got == want else f"count({op[1]}) = {got!r}, alone it is {want}"
    if op[0] == "in":
        want = tuple(op[1]) in _oracle_set(len(op[1]), spec)
        return None if got is want else f"{tuple(op[1])} in av = {got!r}, alone it is {want}"
    tg = [tuple(p) for p in got]
    if len(set(tg)) != len(tg):
        return f"{op[0]}({op[1]}) lists a permutation twice"
    if op[0] == "of_length":
        want = _oracle_set(op[1], spec)
    else:
        lens = [len(t) for t in tg]
        if lens != sorted(lens):
            return f"up_to_length({op[1]}) is not by increasing length"
        want = set()
        for i in range(op[1] + 1):
            want |= _oracle_set(i, spec)
    if set(tg) != want:
        return (f"{op[0]}({op[1]}): {len(tg)} permutations, alone {len(want)}; extra {sorted(set(tg) - want)[:2]} "
                f"missing {sorted(want - set(tg))[:2]}")
    return None


@check("C07.round")
def round_(item):
    from permuta import Av

    patts, nthreads, seed, mode, top = item
    spec = tuple(S.to_spec(p) for p in patts)
    mesh = any(S.is_mesh(q) for q in spec)
    rng = random.Random(seed)
    plans = [_plan(rng, spec, top, rng.randrange(5, 10)) for _ in range(nthreads)]
    if rng.random() < 0.5:  # everybody starts with the deepest level: maximal contention on the builder
        for pl in plans:
            pl[0] = ("count", top) if rng.random() < 0.7 else ("of_length", top)
    hows = [rng.choice(("basis", "reversed", "iterable", "from_iterable")) for _ in range(nthreads)]
    Av.clear_cache()
    shared = c02._construct(patts, "basis") if mode == "shared" else None
    barrier = threading.Barrier(nthreads)
    results = [[] for _ in range(nthreads)]
    objects = [None] * nthreads
    errors = []

    def worker(i):
        try:
            barrier.wait(timeout=60)
            av = shared if shared is not None else c02._construct(patts, hows[i])
            objects[i] = av
            out = results[i]
            for op in plans[i]:
                out.append(_execute(av, op))
        except BaseException as exc:  # noqa: BLE001 - anything raised in a thread is a failure
            errors.append(f"thread {i}: {type(exc).__name__}: {exc}")

    threads = [threading.Thread(target=worker, args=(i,), daemon=True) for i in range(nthreads)]
    old = sys.getswitchinterval()
    sys.setswitchinterval(1e-6)
    try:
        for t in threads:
            t.start()
        for t in threads:
            t.join(timeout=90)
    finally:
        sys.setswitchinterval(old)
    if any(t.is_alive() for t in threads):
        return bad("all threads finish", "a thread is still running after 90 s (deadlock?)", f"plans {plans}")
    if errors:
        return bad("no exception in any thread", "; ".join(errors[:4]), f"plans {plans}")
    for i in range(nthreads):
        if len(results[i]) != len(plans[i]):
            return bad(len(plans[i]), len(results[i]), f"thread {i} did not record every result")
        for op, got in zip(plans[i], results[i]):
            msg = _compare(spec, op, got)
            if msg:
                return bad("the value the query returns when run alone", msg, f"thread {i} of {nthreads}; plans {plans}")
    distinct = []
    for av in objects:
        if av is not None and not any(av is o for o in distinct):
            distinct.append(av)
    for av in distinct:
        msg = c02.well_formed(av, spec, mesh, level_set=_oracle_set, cap=top)
        if msg:
            return bad("a well-formed level cache after the round", msg, f"{len(distinct)} object(s); plans {plans}")
    # non-trivial = at least two threads needed a level that did not exist when they started
    deepest = [max((len(op[1]) if op[0] == "in" else op[1]) for op in pl) for pl in plans]
    return ok(sum(1 for d in deepest if d >= 2) >= 2)


BASES = None


def _bases():
    Perm = D.P()
    classical = [
        (Perm((0, 1, 2)),),
        (Perm((0, 2, 1)), Perm((3, 0, 1, 2))),
        (Perm((1, 3, 0, 2)), Perm((2, 0, 3, 1))),
        (Perm((0, 1, 2, 3)),),
        (Perm((0, 1, 2)), Perm((2, 1, 0))),
        (Perm((0, 1)),),
        (Perm((1, 2, 0)), Perm((1, 0, 3, 2)), Perm((0, 1, 2, 3, 4))),
    ]
    meshes = [
        (D.mesh((1, 0), [(1, 0), (1, 1), (1, 2)]),),
        (D.mesh((0,), D.cells(1)),),
        (Perm((0, 1, 2)), D.mesh((1, 0), [(0, 0), (2, 2)])),
    ]
    return classical, meshes


def run(ctx):
    quick = ctx.tier == "quick"
    rng = D.subrng(ctx, "c07")
    K.selfcheck()
    classical, meshes = _bases()
    # the oracle levels are computed once here; the forked workers inherit the memo
    for b in classical:
        spec = tuple(S.to_spec(p) for p in b)
        for n in range(9):
            _oracle_set(n, spec)
    for b in meshes:
        spec = tuple(S.to_spec(p) for p in b)
        for n in range(7):
            _oracle_set(n, spec)
    rounds = 400 if quick else 5000
    items = []
    for j in range(rounds):
        if j % 4 == 3:
            b = meshes[(j // 4) % len(meshes)]
            top = rng.choice((4, 5, 5, 6))
        else:
            b = classical[(j - j // 4) % len(classical)]
            top = rng.choice((5, 6, 6, 7, 7, 8))
        items.append((b, rng.choice((2, 3, 4)), rng.randrange(10 ** 9), "shared" if j % 3 else "constructed", top))
    ctx.run("C07.round", items, chunk=4, timeout_s=300,
            rule=f"{rounds} rounds; 7 classical bases (lengths up to 5-8) and 3 mesh bases (up to 4-6), 2-4 threads, seeded plans of "
                 f"5-9 queries per thread (count/of_length/in/up_to_length), half of the rounds start every thread on the deepest "
                 f"level; 2/3 of the rounds share one object, 1/3 construct the class concurrently from equal bases; schedules are "
                 f"SAMPLED by the interpreter (switch interval 1e-6 s), not enumerated; non-trivial = at least two threads need a "
                 f"level >= 2 that does not exist at the start of the round")
    ctx.add_sample("C07.round", items[0])
    ctx.add_sample("C07.round", items[3])
    ctx.exhaustive = False
    ctx.explanation = (
        "Level 'other': the property quantifies over every interleaving, which this run does not cover. What is SAMPLED here: "
        f"{rounds} seeded rounds of 2-4 real threads on one class (or on classes constructed concurrently from equal bases), "
        "with CPython's switch interval lowered to 1 microsecond; every returned value is compared with the single-threaded "
        "brute-force oracle, every exception or unfinished thread is a failure, and the representation invariant of the level "
        "cache is evaluated after each round. The rounds run in several worker processes; Av._CACHE_LOCK is a multiprocessing "
        "lock created at import, so it is shared by the forked workers too (extra contention, same semantics inside a process). "
        "What is STRUCTURAL and comes from the deductive layer, not from this run: the lock-discipline obligations O1-O6 of "
        "DESIGN section 7 (one lock object; all writes to the cache dominated by `with Av._CACHE_LOCK`; no re-acquisition; each "
        "write keeps published levels unchanged; reads outside the lock only of levels the reading thread has ensured; the "
        "instance-cache race only duplicates well-formed instances), together with the GIL atomicity assumption. A pass of the "
        "stress run means: no wrong answer was observed on the sampled schedules."
    )
    ctx.assumptions += [
        "CPython with the GIL; thread schedules are sampled by the interpreter, not enumerated",
        "oracle: brute-force containment; for classical bases at lengths 7-8 candidates are restricted by downward closure",
        "sys.setswitchinterval(1e-6) is set inside each round and restored afterwards",
    ]
    from props import dlayer

    dlayer.run(ctx, "C07")
