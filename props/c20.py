"""C20 - persisted and shipped BiSC data and stored automata are faithful.

B layer.  Every scenario works in its own tempfile.TemporaryDirectory (the
library's file names are relative to the working directory; the check chdir()s
into the temporary directory and restores the old one), so a check is a pure
function of its input and nothing is left under /verif or /repo.

  C20.bisc_files   operation sequences over write(name, dataset) / read(name)
  C20.malformed    missing / empty / truncated / wrongly typed files are reported
  C20.dfa_db       operation sequences over the automaton database
  C20.shipped      the shipped <name>_good/_bad files are the partition of S_<=8
                   by the property they are named after
"""
import contextlib
import io
import itertools
import json
import os
import tempfile

from specs import core as S
from vlib import codec
from vlib import domains as D
from vlib import repo
from vlib.core import bad, check, ok

LEVEL = "exploration"


@contextlib.contextmanager
def _tempcwd():
    old = os.getcwd()
    with tempfile.TemporaryDirectory(prefix="verif_c20_") as d:
        os.chdir(d)
        try:
            yield d
        finally:
            os.chdir(old)


# ------------------------------------------------------------ BiSC data files
NAMES = (("alpha", 3), ("alpha", 2), ("beta", 3))  # (info, n): file <info>_good_len<n>.json


def _prop0(p):
    return True


def _prop1(p):
    return len(p) == 0 or p[0] == 0


def _prop2(p):
    return all(p[i] < p[i + 1] for i in range(len(p) - 1))


DATASETS = (_prop0, _prop1, _prop2)


def _want(n, prop):
    """The good/bad dictionaries of the docstring of write_bisc_files: key k ->
    permutations of length k with / without the property (lexicographic order)."""
    good = {k: [t for t in itertools.permutations(range(k)) if prop(t)] for k in range(n + 1)}
    badd = {k: [t for t in itertools.permutations(range(k)) if not prop(t)] for k in range(n + 1)}
    return good, badd


def _plain(d):
    return {k: [tuple(p) for p in v] for k, v in d.items()}


def _read(path):
    from permuta.bisc.bisc import read_bisc_file

    buf = io.StringIO()
    with contextlib.redirect_stdout(buf):
        got = read_bisc_file(path)
    return got, buf.getvalue()


def _bisc_scenario(prepop, ops):
    """Returns the list of failing steps as (step index, name index, message)."""
    from permuta import Perm
    from permuta.bisc.bisc import create_bisc_input, write_bisc_files

    fails = []
    model = {}  # name index -> dataset index last written
    with _tempcwd():
        if prepop is not None:
            kind, ni, dj = prepop
            info, n = NAMES[ni]
            if kind == "written":
                with contextlib.redirect_stdout(io.StringIO()):
                    write_bisc_files(n, DATASETS[dj], info)
                model[ni] = dj
            else:  # foreign files of that name, not written by the library
                for part in ("good", "bad"):
                    with open(f"{info}_{part}_len{n}.json", "w") as fh:
                        fh.write("stale content")
        for step, op in enumerate(ops):
            ni = op[1]
            info, n = NAMES[ni]
            if op[0] == "write":
                dj = op[2]
                out = io.StringIO()
                with contextlib.redirect_stdout(out):
                    write_bisc_files(n, DATASETS[dj], info)
                model[ni] = dj
                if out.getvalue():
                    fails.append((step, ni, f"write printed {out.getvalue()!r}"))
                continue
            for part in (0, 1):
                path = f"{info}_{('good', 'bad')[part]}_len{n}"
                got, said = _read(path)
                if ni not in model:
                    # never written by the library: missing (or the foreign empty file)
                    if got != {} or "File is invalid" not in said:
                        fails.append((step, ni, f"read of {path} (never written) returned {_plain(got)!r}, printed {said!r}"))
                    continue
                want = _want(n, DATASETS[model[ni]])[part]
                if not isinstance(got, dict) or _plain(got) != want:
                    fails.append((step, ni, f"read of {path} returned {_plain(got)!r} (printed {said.strip()!r}); last written: {want!r}"))
                elif not all(type(p) is Perm for v in got.values() for p in v):
                    fails.append((step, ni, f"read of {path}: values are not Perm objects"))
                # round trip with what the writer itself produces
                direct = create_bisc_input(n, DATASETS[model[ni]])[part]
                if _plain(direct) != want:
                    fails.append((step, ni, f"create_bisc_input({n}, dataset {model[ni]})[{part}] is {_plain(direct)!r}, definition {want!r}"))
    return fails


@check("C20.bisc_files")
def bisc_files(item):
    prepop, ops = item
    fails = _bisc_scenario(prepop, ops)
    nt = any(op[0] == "read" for op in ops) and any(op[0] == "write" for op in ops)
    if fails:
        return bad("every read returns the dictionaries last written for that name",
                   f"{len(fails)} failing read(s); first: step {fails[0][0]}: {fails[0][2]}",
                   "\n".join(f"STEP {s} name {ni} :: {m}" for s, ni, m in fails[:20]), nt)
    return ok(nt)


# ---------------------------------------------------------- malformed files
@check("C20.malformed")
def malformed(item):
    """item = (label, content or None).  The file x_good_len3.json holds `content`
    (None: no such file; ("dir",): a directory of that name).  The reader must
    return {} and print 'File is invalid' - never data, never another error."""
    label, content = item
    with _tempcwd():
        if content == "<directory>":
            os.mkdir("x_good_len3.json")
        elif content is not None:
            with open("x_good_len3.json", "w") as fh:
                fh.write(content)
        try:
            got, said = _read("x_good_len3")
        except Exception as exc:  # noqa: BLE001
            return bad("{} and the message 'File is invalid'", f"raised {type(exc).__name__}: {exc}", f"{label}: content {content!r}")
    # an empty JSON object is a well-formed file without entries: {} is its content
    valid_empty = content not in (None, "<directory>") and content.split("\n")[0].strip() == "{}"
    if got != {}:
        return bad("{} (reported as invalid)", _plain(got) if isinstance(got, dict) else repr(got), f"{label}: content {content!r}")
    if not valid_empty and "File is invalid" not in said:
        return bad("the message 'File is invalid'", repr(said), f"{label}: content {content!r}")
    return ok(content is not None)


def kf_toplevel(failure):
    """The file holds valid JSON whose top-level value is not an object, and the
    failure is the AttributeError from `.items()`."""
    _label, content = codec.dec(failure["input"])
    if content in (None, "<directory>"):
        return False
    try:
        val = json.loads(content)
    except ValueError:
        return False
    return not isinstance(val, dict) and "AttributeError" in failure.get("actual", "")


def _well_typed(val):
    return isinstance(val, dict) and all(
        isinstance(v, list) and all(isinstance(p, list) and all(type(x) is int for x in p) for p in v) for v in val.values()
    )


def kf_member_type(failure):
    """Valid JSON object, but some member is not a list of lists of integers, and
    the reader returned data built from it instead of reporting the file."""
    _label, content = codec.dec(failure["input"])
    if content in (None, "<directory>"):
        return False
    try:
        val = json.loads(content)
    except ValueError:
        return False
    return isinstance(val, dict) and not _well_typed(val) and "reported as invalid" in failure.get("expected", "")


# ---------------------------------------------------------- automaton database
def dfa_equivalent(a, b):
    """Language equivalence of two complete DFAs (automata-lib objects are only
    read through states / transitions / initial_state / final_states /
    input_symbols): breadth-first search of the product for a pair that
    disagrees on acceptance."""
    if set(a.input_symbols) != set(b.input_symbols):
        return False
    start = (a.initial_state, b.initial_state)
    seen = {start}
    todo = [start]
    while todo:
        x, y = todo.pop()
        if (x in a.final_states) != (y in b.final_states):
            return False
        for sym in a.input_symbols:
            nxt = (a.transitions[x][sym], b.transitions[y][sym])
            if nxt not in seen:
                seen.add(nxt)
                todo.append(nxt)
    return True


_FRESH = {}


def _fresh(perm):
    """make_dfa_for_perm(p): the 'fresh computation' of the property statement
    (its own correctness is C14/C15's subject).  Memoised per process."""
    from permuta.permutils.pin_words import PinWords

    key = tuple(perm)
    if key not in _FRESH:
        _FRESH[key] = PinWords.make_dfa_for_perm(perm)
    return _FRESH[key]


def _slurp(path):
    with open(path) as fh:
        return fh.read()


def _db_files():
    out = []
    if os.path.isdir("dfa_db"):
        for sub in sorted(os.listdir("dfa_db")):
            for fn in sorted(os.listdir(os.path.join("dfa_db", sub))):
                out.append((sub, fn))
    return out


def _perm_of_entry(fn):
    """The permutation a database file is named after: its digits (lengths <= 10),
    or integers separated by non-digits.  None if the name is not understood."""
    import re

    stem = fn.rsplit(".", 1)[0]
    if stem.isdigit() or stem == "":
        t = tuple(int(c) for c in stem)
        if S.is_perm(t):
            return t
    t = tuple(int(x) for x in re.findall(r"\d+", stem))
    return t if S.is_perm(t) and len(t) > 1 else None


def _db_invariant(step):
    """Every file in the database is named after a permutation of the length its
    directory says and holds an automaton equivalent to that permutation's."""
    from automata.fa.dfa import DFA  # noqa: F401 - needed by eval of the stored repr
    from permuta import Perm

    for sub, fn in _db_files():
        t = _perm_of_entry(fn)
        if t is None:
            continue  # naming scheme not recognised (internal detail): entry not judged
        with open(os.path.join("dfa_db", sub, fn)) as fh:
            text = fh.read()
        try:
            dfa = eval(text.strip(), {"DFA": DFA, "frozenset": frozenset})  # noqa: S307 - file written by the library in this scenario
        except Exception as exc:  # noqa: BLE001
            return f"step {step}: dfa_db/{sub}/{fn} does not evaluate: {type(exc).__name__}"
        if not dfa_equivalent(dfa, _fresh(Perm(t))):
            return f"step {step}: dfa_db/{sub}/{fn} holds an automaton of another language"
    return None


@check("C20.dfa_db")
def dfa_db(item):
    from permuta.permutils.pin_words import PinWords

    clear_between, ops = item
    PinWords.load_dfa_for_perm.cache_clear()
    loads = 0
    with _tempcwd():
        for step, op in enumerate(ops):
            if clear_between:
                PinWords.load_dfa_for_perm.cache_clear()  # as a new process would see the database
            kind = op[0]
            before = {k: _slurp(os.path.join("dfa_db", *k)) for k in _db_files()}
            if kind == "store":
                PinWords.store_dfa_for_perm(op[1])
                if not _db_files():
                    return bad("a database entry for the permutation", "no file", f"step {step}: store {tuple(op[1])}; ops {ops}")
            elif kind == "store_given":
                PinWords.store_dfa_for_perm(op[1], _fresh(op[1]))
            elif kind == "load":
                got = PinWords.load_dfa_for_perm(op[1])
                loads += 1
                if not dfa_equivalent(got, _fresh(op[1])):
                    return bad("an automaton language-equivalent to make_dfa_for_perm", "another language",
                               f"step {step}: load {tuple(op[1])}; ops {ops}")
            elif kind == "create":
                PinWords.create_dfa_db_for_length(op[1])
                named = [_perm_of_entry(fn) for _sub, fn in _db_files()]
                if None not in named:  # (file naming is internal; judged only when understood)
                    have = {t for t in named if len(t) == op[1]}
                    want = set(itertools.permutations(range(op[1])))
                    if have != want:
                        return bad(f"entries for all of S_{op[1]}", sorted(have),
                                   f"step {step}: create_dfa_db_for_length({op[1]}); ops {ops}")
            elif kind == "basis":
                got = PinWords.make_dfa_for_basis(list(op[1]), use_db=True)
                loads += 1
                want = PinWords.make_dfa_for_basis(list(op[1]), use_db=False)
                if not dfa_equivalent(got, want):
                    return bad("the automaton of the basis computed without the database", "another language",
                               f"step {step}: make_dfa_for_basis({[tuple(p) for p in op[1]]}, use_db=True); ops {ops}")
            else:
                raise KeyError(kind)
            after = {k: _slurp(os.path.join("dfa_db", *k)) for k in _db_files()}
            for k, text in before.items():
                if after.get(k) != text:
                    return bad("existing entries are left alone (write-once)", f"dfa_db/{k[0]}/{k[1]} changed or vanished",
                               f"step {step}: {kind}; ops {ops}")
            msg = _db_invariant(step)
            if msg:
                return bad("every database entry is the automaton of the permutation it is named after", msg, f"ops {ops}")
    PinWords.load_dfa_for_perm.cache_clear()
    return ok(loads > 0 and len(ops) > 1)


@check("C20.dfa_names")
def dfa_names(item):
    """Entries for different permutations do not interfere: after store(a, X) and
    store(b, Y) (X, Y two automata with different languages, handed to the
    library's writer through its `in_dfa` argument so that nothing has to be
    computed for long permutations), a process-fresh load(a) is X and load(b) is Y."""
    from permuta import Perm
    from permuta.permutils.pin_words import PinWords

    a, b = item
    X, Y = _fresh(Perm((0, 1))), _fresh(Perm((1, 0)))
    assert not dfa_equivalent(X, Y)
    PinWords.load_dfa_for_perm.cache_clear()
    try:
        with _tempcwd():
            PinWords.store_dfa_for_perm(a, X)
            PinWords.store_dfa_for_perm(b, Y)
            PinWords.load_dfa_for_perm.cache_clear()
            ga, gb = PinWords.load_dfa_for_perm(a), PinWords.load_dfa_for_perm(b)
            entries = len(_db_files())
    finally:
        PinWords.load_dfa_for_perm.cache_clear()
    if not dfa_equivalent(ga, X) or not dfa_equivalent(gb, Y):
        return bad("load(a) is the entry stored for a, load(b) the entry stored for b",
                   f"load(a) {'ok' if dfa_equivalent(ga, X) else 'WRONG'}, load(b) {'ok' if dfa_equivalent(gb, Y) else 'WRONG'}; "
                   f"{entries} database file(s) for 2 permutations", f"a = {tuple(a)}, b = {tuple(b)}")
    return ok(True)


def kf_name_collision(failure):
    """Two different permutations of length > 10 whose entries concatenate to the
    same decimal string (the database file name)."""
    a, b = codec.dec(failure["input"])
    return tuple(a) != tuple(b) and len(a) > 10 and "".join(map(str, a)) == "".join(map(str, b))


# ------------------------------------------------------------------ shipped data
def _resource_dir():
    return os.path.join(repo.REPO, "permuta", "resources", "bisc")


def _emptied():
    """Files emptied by the sandbox (exactly those are artefacts)."""
    path = "/root/.vp/EMPTIED_FILES.txt"
    out = set()
    if os.path.exists(path):
        with open(path) as fh:
            for line in fh:
                line = line.strip()
                if line:
                    out.add(os.path.basename(line))
    return out


def _property_named(name):
    """The property a data set is named after: a function of that (lower-cased)
    name in permuta.bisc.perm_properties, else a Perm method (this is the mapping
    used by tests/bisc/test_bisc.py).  The functions themselves are checked
    independently (C03 mesh avoidance, C12 sorting operators / named families)."""
    from permuta import Perm
    from permuta.bisc import perm_properties

    fn = getattr(perm_properties, name.lower(), None)
    if callable(fn):
        return fn
    fn = getattr(Perm, name.lower(), None)
    if callable(fn):
        return fn
    return None


def _load_json(path):
    with open(path) as fh:
        raw = json.load(fh)
    return {int(k): [tuple(p) for p in v] for k, v in raw.items()}


@check("C20.shipped")
def shipped(item):
    """item = (name, top length, task).  task ("structure",): keys, partition, no
    duplicates, and the library's reader returns the same content.  task
    ("property", n, part, parts): good[n] == {p in S_n : property(p)} on the part-th
    slice of S_n (lexicographic blocks).  task ("sample", perms): the same for the
    listed permutations.  task ("good_only", n, part, parts): for a data set whose
    `bad` file is a sandbox artefact."""
    from permuta import Perm

    name, top, task = item
    rdir = _resource_dir()
    gpath = os.path.join(rdir, f"{name}_good_len{top}.json")
    bpath = os.path.join(rdir, f"{name}_bad_len{top}.json")
    good = _load_json(gpath)
    if task[0] == "structure":
        badd = _load_json(bpath)
        for label, d in (("good", good), ("bad", badd)):
            if sorted(d) != list(range(top + 1)):
                return bad(list(range(top + 1)), sorted(d), f"{name}_{label}_len{top}: keys")
        for n in range(top + 1):
            g, b = good[n], badd[n]
            if len(set(g)) != len(g) or len(set(b)) != len(b):
                return bad("no duplicates", "a permutation is listed twice", f"{name} length {n}")
            if set(g) & set(b):
                return bad("disjoint", sorted(set(g) & set(b))[:3], f"{name} length {n}: in both files")
            if set(g) | set(b) != set(itertools.permutations(range(n))):
                return bad(f"good u bad = S_{n}", f"{len(g)} + {len(b)} entries", f"{name} length {n}: not all of S_{n}")
        # the library's own reader sees the same data
        for path, d in ((gpath, good), (bpath, badd)):
            old = os.getcwd()
            try:
                os.chdir(os.path.dirname(path))
                got, said = _read(os.path.basename(path)[:-5])
            finally:
                os.chdir(old)
            if _plain(got) != d or said:
                return bad("the content of the file", f"{len(got)} keys, printed {said!r}", f"read_bisc_file({os.path.basename(path)})")
        return ok(True)
    prop = _property_named(name)
    if prop is None:
        return bad("a property of that name in perm_properties or Perm", "none", f"data set {name}")
    if task[0] == "sample":
        todo = [tuple(p) for p in task[1]]
    else:
        n, part, parts = task[1], task[2], task[3]
        allp = list(itertools.permutations(range(n)))
        size = -(-len(allp) // parts)
        todo = allp[part * size:(part + 1) * size]
    members = {n: set(v) for n, v in good.items()}
    seen_true = seen_false = 0
    for t in todo:
        has = bool(prop(Perm(t)))
        listed = t in members.get(len(t), ())
        if has != listed:
            return bad(f"{t} in good  <=>  {name}({t})", f"listed as good: {listed}, property: {has}", f"data set {name}, length {len(t)}")
        seen_true += has
        seen_false += not has
    return ok(seen_true > 0 and seen_false > 0)


# ------------------------------------------------------------------------ run
def _sequences(alphabet, maxlen):
    for k in range(1, maxlen + 1):
        yield from itertools.product(alphabet, repeat=k)


def dfa_name_pairs(rng, quick):
    """Pairs of distinct permutations of equal length whose database entries must not interfere."""
    Perm = D.P()
    pairs = [(a, b) for a in D.perms_upto(3, 1) for b in D.perms_upto(3, 1) if a != b and len(a) == len(b)]
    for _ in range(60 if quick else 600):
        n = rng.randrange(4, 13)
        a, b = D.random_perm(rng, n), D.random_perm(rng, n)
        if a != b:
            pairs.append((a, b))
    for _ in range(6 if quick else 40):  # same digits, different permutations: (..1,0..10..) versus (..10..1,0..)
        for n in (11, 12, 13):
            rest = [v for v in range(n) if v not in (0, 1, 10)]
            rng.shuffle(rest)
            i = rng.randrange(0, len(rest) + 1)
            j = rng.randrange(i, len(rest) + 1)
            a = rest[:i] + [1, 0] + rest[i:j] + [10] + rest[j:]
            b = rest[:i] + [10] + rest[i:j] + [1, 0] + rest[j:]
            pairs.append((Perm(a), Perm(b)))
    return pairs


@check("C20.raw_json")
def raw_json(item):
    """write_json_to_file(obj, name) followed by read_bisc_file(name): the reader hands back exactly the integer
    sequences that were written (as Perm objects with those entries) - it must not repair, standardise or reorder them.
    Sequences that are not standard permutations (one-based, windows of a longer permutation, ties) included."""
    label, obj = item
    from permuta.bisc.bisc import write_json_to_file

    with _tempcwd():
        with contextlib.redirect_stdout(io.StringIO()):
            write_json_to_file(obj, "raw_good_len3.json")
        got, said = _read("raw_good_len3")
    want = {int(k): [tuple(p) for p in v] for k, v in obj.items()}
    if not isinstance(got, dict) or _plain(got) != want:
        return bad(want, f"{_plain(got) if isinstance(got, dict) else got!r} (printed {said.strip()!r})", f"{label}: read_bisc_file after write_json_to_file")
    return ok(any(sorted(p) != list(range(len(p))) for v in want.values() for p in v))


ODD_NAMES = ("Av2.3.1", "run.1", "a.b", ".hidden", "x.json", "with space", "dash-and_underscore", "UPPER.lower.3",
             "sub.dir/plain", "sub.dir/dotted.name", "trailing.", "len3_good_len3", "\u00e9t\u00e9.v2")


@check("C20.bisc_names")
def bisc_names(item):
    """what is written under a data-set name is what is read back under that name, whatever characters the name
    contains (dots, spaces, a directory part) - and no OTHER file is consulted (decoys with a similar name)"""
    info, n, dj, decoys = item
    from permuta import Perm
    from permuta.bisc.bisc import write_bisc_files

    with _tempcwd():
        d = os.path.dirname(info)
        if d:
            os.makedirs(d, exist_ok=True)
        if decoys:
            other = json.dumps({str(k): [list(t) for t in itertools.permutations(range(k))][:1] for k in range(n + 1)})
            stem = os.path.basename(info)
            cands = {info.rsplit(".", 1)[0] + ".json", info + ".json", stem.split(".")[0] + ".json"}
            for part in ("good", "bad"):
                full = f"{info}_{part}_len{n}"
                cands.add(full.rsplit(".", 1)[0] + ".json" if "." in os.path.basename(full) else full + ".txt")
            for c in cands:
                if os.path.dirname(c) and not os.path.isdir(os.path.dirname(c)):
                    continue
                with open(c, "w") as fh:
                    fh.write(other)
        with contextlib.redirect_stdout(io.StringIO()):
            write_bisc_files(n, DATASETS[dj], info)
        for part in (0, 1):
            path = f"{info}_{('good', 'bad')[part]}_len{n}"
            if not os.path.isfile(path + ".json"):
                return bad(f"a file {path}.json", sorted(os.listdir(d or ".")), "write_bisc_files did not create the documented file")
            got, said = _read(path)
            want = _want(n, DATASETS[dj])[part]
            if not isinstance(got, dict) or _plain(got) != want:
                return bad(want, f"{_plain(got) if isinstance(got, dict) else got!r} (printed {said.strip()!r})", f"read_bisc_file({path!r}) after write_bisc_files({n}, dataset {dj}, {info!r})")
            if not all(type(p) is Perm for v in got.values() for p in v):
                return bad("Perm objects", "other types", f"read of {path}")
    return ok(True)


def run(ctx):
    quick = ctx.tier == "quick"
    Perm = D.P()
    rng = D.subrng(ctx, "c20")
    raws = [("standard", {"0": [[]], "1": [[0]], "2": [[0, 1], [1, 0]]}), ("one-based", {"2": [[1, 2], [2, 1]], "3": [[1, 3, 2]]}),
            ("windows", {"3": [[5, 2, 7], [4, 9, 0]]}), ("ties", {"3": [[0, 0, 1], [2, 2, 2]]}), ("negative", {"2": [[-1, 0]]}),
            ("gaps", {"4": [[0, 10, 20, 30], [30, 20, 10, 0]]}), ("empty lists", {"0": [], "5": []}), ("same twice", {"2": [[1, 0], [1, 0]]})]
    ctx.run("C20.raw_json", raws, chunk=2,
            rule="write_json_to_file / read_bisc_file round trip of 8 hand-made dictionaries incl. sequences that are not standard permutations")
    odd = [(info, n, dj, dec) for info in ODD_NAMES for n in (2, 3) for dj in range(len(DATASETS)) for dec in (False, True)]
    ctx.run("C20.bisc_names", odd, chunk=12,
            rule=f"{len(ODD_NAMES)} data-set names with dots, spaces, a directory part, a trailing dot ... x lengths 2, 3 x {len(DATASETS)} datasets, "
                 "without and with decoy files of similar names: the documented file is created and read back")

    # ---- write / read sequences
    alphabet = [("write", ni, dj) for ni in range(len(NAMES)) for dj in range(len(DATASETS))]
    alphabet += [("read", ni) for ni in range(len(NAMES))]
    maxlen = 3 if quick else 4
    prepops = (None, ("written", 0, 1), ("foreign", 0, 0))
    seqs = []
    for prepop in prepops:
        for ops in _sequences(alphabet, maxlen):
            if not any(op[0] == "read" for op in ops):
                continue  # nothing observed
            seqs.append((prepop, ops))
    ctx.run("C20.bisc_files", seqs, chunk=200,
            rule=f"ALL sequences of length <= {maxlen} over {{write(name, dataset), read(name)}} with {len(NAMES)} names "
                 f"(alpha/len3, alpha/len2, beta/len3) x {len(DATASETS)} datasets that contain at least one read, from an empty "
                 f"directory, from one pre-populated by an earlier write, and from one holding foreign (unparsable) files of a name; "
                 f"non-trivial = the sequence has a write and a read")
    ctx.add_sample("C20.bisc_files", (None, (("write", 0, 1), ("write", 0, 2), ("read", 0))))
    ctx.add_sample("C20.bisc_files", (("written", 0, 1), (("read", 0), ("write", 2, 0), ("read", 2))))

    # ---- malformed / missing
    valid = json.dumps({str(k): [list(t) for t in itertools.permutations(range(k)) if _prop1(t)] for k in range(4)})
    mal = [("missing", None), ("directory", "<directory>"), ("empty", ""), ("whitespace", "  \n"), ("two documents", valid + valid),
           ("list", "[1, 2]"), ("null", "null"), ("number", "5"), ("string", "\"abc\""), ("list of lists", "[[0], [1, 0]]"),
           ("key not a length", "{\"a\": [[0]]}"), ("value not a list", "{\"1\": 5}"), ("entry not a sequence", "{\"1\": [5]}"),
           ("nested object", "{\"1\": {\"0\": 1}}"), ("string instead of list", "{\"1\": \"0\"}"),
           ("list of strings", "{\"1\": [\"0\"]}"), ("binary junk", "\x00\x01\x02{"), ("trailing junk", valid + " x"),
           ("leading junk", "x" + valid), ("empty object", "{}")]
    for cut in range(1, len(valid)):
        mal.append((f"truncated at {cut}", valid[:cut]))
    emptied = sorted(_emptied())
    ctx.run("C20.malformed", mal, chunk=20,
            rule=f"missing file, directory, empty, whitespace, two concatenated documents, 6 wrong top-level types, 4 wrongly typed "
                 f"members, junk, and every proper prefix ({len(valid) - 1}) of a valid document")
    for fn in emptied:  # the sandbox-emptied shipped files are reported, too
        path = os.path.join(_resource_dir(), fn)
        if os.path.exists(path) and os.path.getsize(path) == 0:
            old = os.getcwd()
            try:
                os.chdir(_resource_dir())
                got, said = _read(fn[:-5])
            finally:
                os.chdir(old)
            res = ok(True) if got == {} and "File is invalid" in said else bad("{} and 'File is invalid'", repr((got, said)), fn)
            ctx.direct("C20.malformed", ("shipped file emptied by the sandbox", fn), res)

    # ---- automaton database
    small = D.perms_upto(3 if quick else 4, 1)
    p3 = D.perms(3)
    dfa_inputs = []
    base_ops = []
    for p in D.perms_upto(2, 0) + [Perm((0, 2, 1)), Perm((1, 2, 0))]:
        base_ops += [("store", p), ("load", p)]
    base_ops += [("create", 1), ("create", 2), ("store_given", Perm((1, 0))), ("basis", (Perm((0, 1)), Perm((1, 0)))),
                 ("basis", (Perm((0, 2, 1)), Perm((1, 0))))]
    for clear in (False, True):
        for ops in _sequences(base_ops, 2):
            dfa_inputs.append((clear, ops))
    n_exh = len(dfa_inputs)
    for _ in range(150 if quick else 1500):
        ops = []
        for _j in range(rng.randrange(3, 7)):
            r = rng.random()
            p, q = rng.choice(small), rng.choice(small)
            if r < 0.3:
                ops.append(("store", p))
            elif r < 0.65:
                ops.append(("load", p))
            elif r < 0.72:
                ops.append(("store_given", p))
            elif r < 0.8:
                ops.append(("create", rng.choice((0, 1, 2, 3))))
            else:
                ops.append(("basis", (p, q)))
        dfa_inputs.append((rng.random() < 0.4, tuple(ops)))
    dfa_inputs.append((False, (("create", 3),) + tuple(("load", p) for p in p3) + (("basis", (p3[1], p3[4])),)))
    if not quick:
        dfa_inputs.append((True, (("create", 4), ("load", Perm((1, 3, 0, 2))), ("basis", (Perm((1, 3, 0, 2)), Perm((2, 0, 3, 1)))))))
    # permutations of length 6 WITHOUT a pin word (56 of 720; none shorter): their automaton has the empty language
    # and no accepting state - stored and loaded like any other
    from specs import pins as _pins
    nonpin = [Perm(t) for t in _pins.nonpin_perms(6)]
    for t in ((1, 2, 5, 0, 3, 4), (2, 1, 0, 5, 4, 3)):
        q = Perm(t) if Perm(t) in nonpin else nonpin[0]
        dfa_inputs.append((True, (("store", q), ("load", q), ("basis", (q, Perm((0, 2, 1)))))))
    ctx.run("C20.dfa_db", dfa_inputs, chunk=12,
            rule=f"ALL sequences of length <= 2 over {len(base_ops)} operations (store/load of 6 perms <= 3, create(1), create(2), "
                 f"store with a given automaton, make_dfa_for_basis(use_db=True) x2) x memo kept / memo cleared before every step "
                 f"({n_exh}); seeded sequences of 3-6 operations over perms of length 1-{3 if quick else 4}; after every step every "
                 f"file of the database is evaluated and compared (product construction) with make_dfa_for_perm; plus store / load / basis "
                 f"for two permutations of length 6 that have no pin word")
    ctx.add_sample("C20.dfa_db", dfa_inputs[n_exh + 1])

    # ---- distinct permutations, distinct entries
    pairs = dfa_name_pairs(rng, quick)
    ctx.run("C20.dfa_names", pairs, chunk=10,
            rule="all ordered pairs of distinct permutations of equal length <= 3, seeded pairs of length 4-12, and seeded pairs of "
                 "length 11-13 that differ only in reading the digits 1,0 / 10")
    ctx.add_sample("C20.dfa_names", pairs[-1])

    # ---- shipped data
    files = sorted(os.listdir(_resource_dir()))
    names8 = sorted({f[: -len("_good_len8.json")] for f in files if f.endswith("_good_len8.json")})
    ship = []
    sample_rng = D.subrng(ctx, "c20-shipped")
    for name in names8:
        if f"{name}_good_len8.json" in emptied or f"{name}_bad_len8.json" in emptied:
            continue
        ship.append((name, 8, ("structure",)))
        for n in range(0, 7):
            ship.append((name, 8, ("property", n, 0, 1)))
        if quick:
            perms = tuple(D.random_perm(sample_rng, sample_rng.choice((7, 8))) for _ in range(2000))
            for j in range(0, 2000, 250):
                ship.append((name, 8, ("sample", perms[j:j + 250])))
        else:
            for part in range(4):
                ship.append((name, 8, ("property", 7, part, 4)))
            for part in range(32):
                ship.append((name, 8, ("property", 8, part, 32)))
    n9 = 0
    if not quick:
        for f in files:
            if f.endswith("_good_len9.json") and f not in emptied:
                name = f[: -len("_good_len9.json")]
                partner = f"{name}_bad_len9.json"
                if partner in files and partner not in emptied:
                    ship.append((name, 9, ("structure",)))
                for n in range(0, 8):
                    ship.append((name, 9, ("property", n, 0, 1)))
                for part in range(8):
                    ship.append((name, 9, ("property", 8, part, 8)))
                for part in range(72):
                    ship.append((name, 9, ("property", 9, part, 72)))
                n9 += 1
    ctx.run("C20.shipped", ship, chunk=1, timeout_s=600,
            rule=f"{len(names8)} shipped data sets (len8): keys 0..8, good/bad disjoint, no duplicates, union = S_n, read_bisc_file "
                 f"returns the file content; good[n] = {{p : property(p)}} for all n <= 6 and "
                 f"{'2000 seeded permutations of length 7-8 per data set' if quick else 'all of S_7 and S_8'}"
                 f"{'' if quick else f'; {n9} len9 good files (partner emptied by the sandbox): good[n] = {{p : property(p)}} for all n <= 9'}"
                 f"; non-trivial = the slice has members and non-members")
    ctx.add_sample("C20.shipped", ship[1])
    ctx.exhaustive = False
    ctx.notes["sandbox_emptied_files"] = emptied
    ctx.assumptions += [
        "B layer: bounded; operation sequences and data-set slices as stated",
        "the property functions of permuta.bisc.perm_properties / Perm used to judge the shipped files are checked independently (C03, C12)",
        "'fresh computation' of an automaton = PinWords.make_dfa_for_perm (checked by C14/C15); language equivalence by an own "
        "product construction over the public attributes of automata-lib DFAs",
        "only sequences of the library's own operations on the automaton database are in scope (no foreign or corrupted entries)",
        "files listed in /root/.vp/EMPTIED_FILES.txt are sandbox artefacts: excluded from the partition check, used for the "
        "'malformed file is reported' clause",
        "tempfile.TemporaryDirectory / os.chdir per scenario; json module as JSON oracle",
    ]
    from props import dlayer

    dlayer.run(ctx, "C20")
