"""Bridge between a property check and the deductive layer (pyvc)."""


def run(ctx, prop):
    from pyvc import driver

    driver.run_property(ctx, prop)
