"""Bridge between a property check and the deductive layer (pyvc)."""


def run(ctx, prop):
    try:
        from pyvc import driver
    except ImportError:
        ctx.notes["deductive"] = "pyvc not built yet"
        return
    driver.run_property(ctx, prop)
