"""C12 - sorting operators, the Simion-Schmidt map and the named families match
their definitions.

B layer (bounded stand-in): the real operators against explicit device simulations
(specs/devices.py), the 'sortable' predicates against "the device output is the
identity" and against the published pattern characterisations, pass counts against
iterated device passes, Simion-Schmidt against the contract "the unique 132-avoider
with the same left-to-right minima", family predicates against independent definitions.
"""
import functools

from specs import core as S
from specs import devices as DV
from specs import statistics as ST
from vlib import domains as D
from vlib.core import bad, check, ok

LEVEL = "exploration"


def _t(perm):
    return tuple(tuple.__iter__(perm))


def _is_perm_obj(x):
    return isinstance(x, D.P()) and S.is_perm(_t(x))


# ------------------------------------------------------------------ operators
OPS = {
    "stack_sort": DV.stack_pass,
    "pop_stack_sort": DV.pop_stack_pass,
    "bubble_sort": DV.bubble_pass,
    "quick_sort": DV.quick_pass,
}


def _make_op_check(name, device):
    def fn(perm):
        t = _t(perm)
        want = device(t)
        got = getattr(perm, name)()
        nt = not DV.is_identity(t) and not DV.is_identity(want)
        if not _is_perm_obj(got):
            return bad(want, repr(got), f"Perm.{name} must return a Perm", nt)
        if _t(got) != want:
            return bad(want, _t(got), f"Perm.{name} vs one pass of the device", nt)
        if _t(perm) != t:
            return bad(t, _t(perm), f"Perm.{name} changed its argument", nt)
        return ok(nt)

    fn.__name__ = "op_" + name
    return check(f"C12.op.{name}")(fn)


for _n, _d in OPS.items():
    _make_op_check(_n, _d)

# predicate -> (device, number of passes, pattern characterisation or None)
SORTABLE = {
    "stack_sortable": (DV.stack_pass, 1, DV.stack_sortable_by_patterns),
    "pop_stack_sortable": (DV.pop_stack_pass, 1, DV.pop_stack_sortable_by_patterns),
    "bubble_sortable": (DV.bubble_pass, 1, DV.bubble_sortable_by_patterns),
    "quick_sortable": (DV.quick_pass, 1, None),
    "west_2_stack_sortable": (DV.stack_pass, 2, DV.west2_by_patterns),
    "west_3_stack_sortable": (DV.stack_pass, 3, None),
}


def _make_sortable_check(name, device, k, by_patterns):
    def fn(perm):
        t = _t(perm)
        want = DV.sorted_by_passes(t, device, k)
        got = getattr(perm, name)()
        nt = len(t) >= 3 and not DV.is_identity(t)
        if got is not want:
            return bad(want, got, f"Perm.{name} vs '{k} pass(es) of the device give the identity'", nt)
        if by_patterns is not None:
            patt = by_patterns(t)
            if got is not patt:
                return bad(patt, got, f"Perm.{name} vs its pattern characterisation", nt)
        return ok(nt)

    fn.__name__ = "sortable_" + name
    return check(f"C12.sortable.{name}")(fn)


for _n, (_d, _k, _p) in SORTABLE.items():
    _make_sortable_check(_n, _d, _k, _p)

COUNTS = {"count_stack_sorts": DV.stack_pass, "count_pop_stack_sorts": DV.pop_stack_pass}


def _make_count_check(name, device):
    def fn(perm):
        t = _t(perm)
        want = DV.passes_needed(t, device)
        got = getattr(perm, name)()
        nt = want >= 2
        if not isinstance(got, int) or isinstance(got, bool) or got != want:
            return bad(want, got, f"Perm.{name} vs the least number of device passes that sort", nt)
        return ok(nt)

    fn.__name__ = name
    return check(f"C12.count.{name}")(fn)


for _n, _d in COUNTS.items():
    _make_count_check(_n, _d)


# ------------------------------------------------------------- Simion-Schmidt
@functools.lru_cache(maxsize=None)
def _av(n, patt):
    return tuple(DV.avoiders_by_insertion(n, patt))


@functools.lru_cache(maxsize=None)
def _by_ltrmin(n, patt):
    idx = {}
    for c in _av(n, patt):
        idx.setdefault(tuple(DV.ltrmin_data(c)), []).append(c)
    return idx


def _ss(perm, inverse):
    from permuta.permutils.bijections import Bijections

    return Bijections.simion_and_schmidt(perm, inverse=True) if inverse else Bijections.simion_and_schmidt(perm)


def _simion_schmidt(perm, inverse):
    """inverse=False: Av(123) -> Av(132); inverse=True: Av(132) -> Av(123)."""
    t = _t(perm)
    n = len(t)
    src, dst = (DV.P132, DV.P123) if inverse else (DV.P123, DV.P132)
    label = f"simion_and_schmidt(inverse={inverse})"
    in_domain = not S.contains(t, src)
    if not in_domain:
        try:
            res = _ss(perm, inverse)
        except ValueError:
            return ok(True)
        return bad("ValueError (outside the domain)", res, f"{label} on a permutation containing {src}")
    nt = n >= 3
    got = _ss(perm, inverse)
    if not _is_perm_obj(got) or len(got) != n:
        return bad(f"a Perm of length {n}", repr(got), label, nt)
    g = _t(got)
    if S.contains(g, dst):
        return bad(f"avoids {dst}", g, f"{label}: the image is outside the target class", nt)
    if DV.ltrmin_data(g) != DV.ltrmin_data(t):
        return bad(DV.ltrmin_data(t), DV.ltrmin_data(g),
                   f"{label}: positions and values of the left-to-right minima are not fixed", nt)
    cands = _by_ltrmin(n, dst).get(tuple(DV.ltrmin_data(t)), [])
    if len(cands) != 1:
        raise AssertionError(f"spec: {len(cands)} members of Av{dst} with the left-to-right minima of {t}")
    if g != cands[0]:
        return bad(cands[0], g, f"{label} vs the unique {dst}-avoider with the same left-to-right minima", nt)
    back = _ss(got, not inverse)
    if not _is_perm_obj(back) or _t(back) != t:
        return bad(t, repr(back), f"{label} is not undone by inverse={not inverse}", nt)
    if n == 0 and type(got) is not D.P():
        return bad("Perm(())", repr(got), label, nt)
    return ok(nt)


@check("C12.simion_schmidt.forward")
def ss_forward(perm):
    return _simion_schmidt(perm, False)


@check("C12.simion_schmidt.inverse")
def ss_inverse(perm):
    return _simion_schmidt(perm, True)


@check("C12.simion_schmidt.bijection")
def ss_bijection(n):
    """On the whole of Av_n(123): the images are pairwise different and are exactly
    Av_n(132); the same for inverse=True from Av_n(132)."""
    Perm = D.P()
    for inverse, src, dst in ((False, DV.P123, DV.P132), (True, DV.P132, DV.P123)):
        dom = _av(n, src)
        images = [_t(_ss(Perm(t), inverse)) for t in dom]
        if len(set(images)) != len(images):
            dup = next(x for x in images if images.count(x) > 1)
            return bad("injective", dup, f"simion_and_schmidt(inverse={inverse}) on Av_{n}{src}: an image occurs twice")
        if set(images) != set(_av(n, dst)):
            miss = sorted(set(_av(n, dst)) - set(images))[:5]
            extra = sorted(set(images) - set(_av(n, dst)))[:5]
            return bad({"not hit": miss}, {"outside": extra},
                       f"simion_and_schmidt(inverse={inverse}): image of Av_{n}{src} vs Av_{n}{dst}")
    if n <= 7:  # the insertion-built classes agree with brute-force filtering of S_n
        for patt in (DV.P123, DV.P132):
            if list(_av(n, patt)) != sorted(S.avoiders(n, [patt])):
                raise AssertionError("spec: avoiders_by_insertion disagrees with the definition")
    return ok(n >= 3)


# ------------------------------------------------------------------- families
FAMILIES = {
    "smooth": (DV.smooth,),
    "forest_like": (DV.forest_like,),
    "baxter": (DV.baxter, DV.baxter_vincular),
    "simsun": (DV.simsun,),
    "dihedral": (DV.dihedral,),
    "in_alternating_group": (DV.in_alternating_group,),
    "yt_perm_avoids_22": (lambda t: DV.yt_avoids(t, [2, 2]),),
    "yt_perm_avoids_32": (lambda t: DV.yt_avoids(t, [3, 2]),),
    "av_231_and_mesh": (DV.av_231_and_mesh,),
    "hard_mesh": (DV.hard_mesh,),
}


def _make_family_check(name, specs):
    def fn(perm):
        from permuta.bisc import perm_properties as PP

        t = _t(perm)
        got = getattr(PP, name)(perm)
        nt = len(t) >= 3
        for k, spec in enumerate(specs):
            want = spec(t)
            if got is not want:
                return bad(want, got, f"perm_properties.{name} vs the independent definition"
                           + (f" (formulation #{k + 1})" if len(specs) > 1 else ""), nt)
        return ok(nt)

    fn.__name__ = "family_" + name
    return check(f"C12.family.{name}")(fn)


for _n, _s in FAMILIES.items():
    _make_family_check(_n, _s)


@check("C12.dihedral_group")
def dihedral_group(n):
    from permuta.permutils.groups import dihedral_group as dg

    got = list(dg(n))
    if n <= 2:  # library convention (docstring of perm_properties.dihedral): D1, D2 are not counted
        if got:
            return bad([], got, f"dihedral_group({n}): nothing for n <= 2 (library convention)")
        return ok(False)
    if not all(_is_perm_obj(g) and len(g) == n for g in got):
        return bad(f"Perms of length {n}", got, f"dihedral_group({n})")
    want = DV.dihedral_elements(n)
    gs = [_t(g) for g in got]
    if len(gs) != len(set(gs)):
        return bad("no repetition", gs, f"dihedral_group({n}) yields an element twice")
    if set(gs) != want or len(want) != 2 * n:
        return bad(sorted(want), sorted(gs), f"dihedral_group({n}) vs the group generated by the rotation and the reflection")
    return ok(True)


def run(ctx):
    quick = ctx.tier == "quick"
    rng = D.subrng(ctx, "c12")
    Perm = D.P()
    nmax = 7 if quick else 8
    perms = D.perms_upto(nmax)
    rej = 6 if quick else 7
    smax = 8 if quick else 9
    for n in range(smax + 1):  # warm the spec caches before the pool forks
        _by_ltrmin(n, DV.P123), _by_ltrmin(n, DV.P132)
    for name in OPS:
        ctx.run(f"C12.op.{name}", perms, chunk=250)
    for name in SORTABLE:
        ctx.run(f"C12.sortable.{name}", perms, chunk=250)
    for name in COUNTS:
        ctx.run(f"C12.count.{name}", perms, chunk=250)
    ctx.rules.append(f"C12.op.* / C12.sortable.* / C12.count.*: all permutations of length 0..{nmax}; non-trivial = "
                     "neither input nor output is the identity (op), n >= 3 and not the identity (sortable), "
                     ">= 2 passes needed (count)")
    ctx.add_sample("C12.op.quick_sort", Perm((2, 0, 1, 3, 5, 4)))
    ctx.add_sample("C12.sortable.west_2_stack_sortable", Perm((2, 4, 1, 3, 0)))
    # longer seeded inputs for the recursive formulations
    longer = [D.random_perm(rng, rng.randint(9, 14)) for _ in range(300 if quick else 3000)]
    for name in OPS:
        ctx.run(f"C12.op.{name}", longer, chunk=50, rule=None)
    for name in COUNTS:
        ctx.run(f"C12.count.{name}", longer, chunk=50)
    ctx.rules.append("C12.op.* and C12.count.* additionally on seeded permutations of length 9-14")
    # block-structured long inputs (direct / skew sums of short blocks): several strong fixed points / sum
    # components at positions >= 8, the inputs on which the recursive operators split more than once
    blocky = D.block_perms(rng, 400 if quick else 3000, lo=9, hi=20)
    for name in OPS:
        ctx.run(f"C12.op.{name}", blocky, chunk=50, rule=None)
    for name in SORTABLE:
        ctx.run(f"C12.sortable.{name}", blocky, chunk=50, rule=None)
    for name in COUNTS:
        ctx.run(f"C12.count.{name}", blocky, chunk=50, rule=None)
    # inputs that need more than a thousand passes (an implementation whose depth grows with the number of passes,
    # or a counter that overflows, only shows here); pop-stack only: the library's stack sort is itself recursive
    # on the position of the maximum and exceeds CPython's recursion limit near length 1000 (observation)
    many = [Perm(list(range(1, n)) + [0]) for n in (1100, 1300)] + [Perm([n - 1] + list(range(n - 1))) for n in (1101,)]
    ctx.run("C12.count.count_pop_stack_sorts", many, chunk=1, rule=None)
    # the recursive operators on inputs of length 1200 (known finding C12-recursion-*: they exceed CPython's recursion limit)
    deep = [Perm(range(1200)), Perm(list(range(1, 1200)) + [0])]
    for name in ("stack_sort", "bubble_sort", "quick_sort", "pop_stack_sort"):
        ctx.run(f"C12.op.{name}", deep, chunk=1, rule=None)
    ctx.rules.append("C12.op.* additionally on the identity and a rotation of length 1200")
    ctx.rules.append("C12.count.count_pop_stack_sorts additionally on three permutations of length 1100-1300 that need > 1000 passes")
    ctx.rules.append(f"C12.op.* / C12.sortable.* / C12.count.* additionally on {len(blocky)} seeded block-structured "
                     "permutations of length 9-20 (direct/skew sums of blocks of length <= 6)")

    # ---- Simion-Schmidt
    for chk, patt in (("forward", DV.P123), ("inverse", DV.P132)):
        dom = D.perms_upto(rej) + [Perm(t) for n in range(rej + 1, smax + 1) for t in _av(n, patt)]
        # a few seeded long inputs outside the domain
        dom += [D.random_perm(rng, 12) for _ in range(20)]
        ctx.run(f"C12.simion_schmidt.{chk}", dom, chunk=200,
                rule=f"all permutations of length <= {rej} (in the domain: image contract; outside: ValueError) + the "
                     f"whole domain Av_n{patt} for n <= {smax} + 20 seeded of length 12")
    ctx.run("C12.simion_schmidt.bijection", list(range(0, smax + 1)), chunk=1,
            rule=f"n = 0..{smax}: injective on Av_n(123), image = Av_n(132), and conversely for inverse=True")
    ctx.add_sample("C12.simion_schmidt.forward", Perm((2, 4, 1, 3, 0)))

    # ---- families
    fmax = 7 if quick else 8
    fperms = D.perms_upto(fmax)
    for name in FAMILIES:
        ctx.run(f"C12.family.{name}", fperms, chunk=250)
    ctx.rules.append(f"C12.family.*: all permutations of length 0..{fmax} (library conventions for n < 3)")
    seeded = [D.random_perm(rng, rng.randint(9, 40)) for _ in range(300 if quick else 2000)]
    ctx.run("C12.family.in_alternating_group", seeded, chunk=50,
            rule="seeded permutations of length 9-40: parity of inversions vs sign from the cycle type")
    dih = []
    for n in range(8, 13 if quick else 21):
        dih += [Perm(t) for t in sorted(DV.dihedral_elements(n))]
        for _ in range(2 * n):
            p = list(range(n))
            i, j = rng.sample(range(n), 2)
            p[i], p[j] = p[j], p[i]
            dih.append(Perm(p))
            dih.append(D.random_perm(rng, n))
    # every affine map i -> a*i + b (mod n) with a unit a: a member exactly for a = +-1 (for n = 8, 12, 15, 16, 20, 21, 24
    # there are other units with a*a = 1, e.g. 3*3 = 1 mod 8)
    import math as _math
    for n in range(8, 17 if quick else 31):
        for a in range(1, n):
            if _math.gcd(a, n) == 1:
                for b in (range(0, n, 3) if quick and n > 12 else range(n)):
                    dih.append(Perm([(a * i + b) % n for i in range(n)]))
    ctx.run("C12.family.dihedral", dih, chunk=50,
            rule="lengths 8-12 (20 thorough): every group element, transpositions and seeded permutations")
    ctx.run("C12.dihedral_group", list(range(-1, 13 if quick else 41)), chunk=2,
            rule="dihedral_group(n) for n = -1..12 (40 thorough): 2n distinct elements = the generated group; none for n <= 2")
    ctx.add_sample("C12.family.baxter", Perm((1, 3, 0, 2)))
    ctx.exhaustive = False
    ctx.notes["observations"] = [
        "in_alternating_group: the docstring says 'D1 and D2 are not subgroups of S1 and S2' (copied from dihedral); the "
        "code and the pinned tests return True for lengths 0 and 1 and False for both permutations of length 2. The "
        "contract takes the sign for n != 2 and the library convention (False) for n = 2.",
        "smooth / forest_like follow the library's docstring convention (1324 & 2143, resp. 1324 & 21-3bar-54), i.e. the "
        "complement of the Lakshmibai-Sandhya / Bousquet-Melou-Butler convention.",
        "quick_sortable has no published pattern characterisation known to this checker: only 'the pass outputs the "
        "identity' is checked; west_3_stack_sortable likewise (three device passes).",
    ]
    ctx.assumptions += [
        "B layer: bounded; exhaustive over S_n only up to the stated n",
        "pattern characterisations taken from the literature: stack Av(231) (Knuth), pop-stack Av(231,312) (Avis-Newborn), "
        "bubble Av(231,321) (Albert et al.), two passes Av(2341, 3-5bar-241) (West); a 132-/123-avoider is determined by "
        "its left-to-right minima (Simion-Schmidt)",
        "quicksort pass = strong fixed points are pivots, otherwise the first entry is the pivot (DESIGN section 7 C12)",
    ]
    from props import dlayer

    dlayer.run(ctx, "C12")


def kf_recursion(failure):
    """The failing input is a permutation of length >= 900 and the failure is CPython's RecursionError: the operator
    is written as a recursion whose depth grows with the length of the input."""
    from vlib import codec

    item = codec.dec(failure["input"])
    text = str(failure.get("actual", "")) + str(failure.get("note", ""))
    return len(item) >= 900 and "RecursionError" in text
