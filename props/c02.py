"""C02 - Av(basis) reports exactly the avoiders, independent of query history.

B layer.  A *scenario* is (patterns, how the class is constructed, operation
sequence).  Every scenario starts with Av.clear_cache() and builds all state
itself, so a check is a pure function of its input.  After EVERY operation

  * the result is compared with the brute-force oracle (specs/classes.level:
    filter of S_n by the definition of classical / mesh containment, over the
    patterns as given - not over the pruned basis), and
  * the representation invariant `well_formed` is evaluated on every Av object the
    scenario has touched (skipped if the attribute `cache` does not exist).

A failing operation does not stop the scenario: all failing steps are collected
(`STEP <i> <op> :: message` lines in the note) so that one defect cannot hide
another one later in the same sequence.
"""
import itertools

from specs import classes as K
from specs import core as S
from vlib import codec
from vlib import domains as D
from vlib.core import bad, check, ok

LEVEL = "exploration"

CAP_CLASSICAL = 7  # oracle lengths used by `first` / is_subclass decisions
CAP_MESH = 5


# ------------------------------------------------------------------ helpers
def _is_meshy(patts):
    from permuta import MeshPatt

    return any(isinstance(p, MeshPatt) for p in patts)


def _construct(patts, how):
    """Build the class from the patterns *as given* (order, repetitions)."""
    from permuta import Av, Basis, MeshBasis

    mesh = _is_meshy(patts)
    if how == "from_string" and (mesh or not all(0 < len(p) < 10 for p in patts)):
        how = "basis"
    if how == "basis":
        return Av(MeshBasis(*patts) if mesh else Basis(*patts))
    if how == "reversed":
        rev = tuple(reversed(patts))
        return Av(MeshBasis(*rev) if mesh else Basis(*rev))
    if how == "iterable":
        return Av(tuple(patts))
    if how == "from_iterable":
        return Av.from_iterable(list(patts))
    if how == "from_string":
        words = []
        for j, p in enumerate(patts):
            words.append("".join(str(v + (j % 2)) for v in p))  # alternately 0- and 1-based
        return Av.from_string("_".join(words))
    raise KeyError(how)


def well_formed(av, spec, mesh, level_set=None, cap=None):
    """Representation invariant of DESIGN section 7 / C02 (message or None).

    keys(cache[i]) == Av_i for every level present (level 0 included).  Classical basis: levels older than the last two are compacted (all
    values None); the last two hold lists; at level len-2 the list of p is, as a
    set, {v : p with v inserted at the right end is in the class} (this is what
    the level builder reads as `spots`); the lists of the last level contain only
    such values.  Level 0 is seeded with [0], so a spurious 0 is tolerated there
    (it is only read through members of level 1).  Mesh basis: only the key sets
    are constrained (the values are never read)."""
    from permuta import Perm

    level_set = level_set or K.level_set  # (n, spec) -> frozenset of tuples
    cap = CAP_CLASSICAL if cap is None else cap
    cache = getattr(av, "cache", None)
    if cache is None or not isinstance(cache, list):
        return None
    if not cache:
        return "cache has no level 0"
    n_levels = len(cache)
    for i, lv in enumerate(cache):
        keys = set(tuple(p) for p in lv)
        want = level_set(i, spec)  # level 0 included: the empty permutation is a key iff it avoids the basis
        if keys != want:
            extra = sorted(keys - want)[:3]
            missing = sorted(want - keys)[:3]
            return f"cache[{i}] is not Av_{i}: extra {extra} missing {missing}"
        if not all(type(p) is Perm for p in lv):
            return f"cache[{i}] has a key that is not a Perm"
    if mesh:
        return None
    for i, lv in enumerate(cache):
        if i < n_levels - 2:
            if any(v is not None for v in lv.values()):
                return f"cache[{i}] (older than the last two levels) is not compacted"
            continue
        for p, lis in lv.items():
            if not isinstance(lis, list):
                return f"cache[{i}][{tuple(p)}] = {lis!r} in one of the last two levels"
            if i + 1 > cap or (i == n_levels - 1 and not lis):
                continue
            nxt = level_set(i + 1, spec)
            t = tuple(p)
            good = {v for v in range(i + 1) if tuple(x + (x >= v) for x in t) + (v,) in nxt}
            got = set(lis)
            tolerated = {0} if i == 0 else set()
            if i == n_levels - 2:
                if not (good <= got <= good | tolerated):
                    return f"cache[{i}][{t}] lists {sorted(got)}, admissible right insertions are {sorted(good)}"
            elif not got <= good | tolerated:
                return f"cache[{i}][{t}] (last level) lists {sorted(got)}, admissible are {sorted(good)}"
    return None


class _World:
    def __init__(self, patts, how):
        self.patts = tuple(patts)
        self.how = how
        self.spec = tuple(S.to_spec(p) for p in patts)
        self.mesh = any(S.is_mesh(q) for q in self.spec)
        self.cap = CAP_MESH if self.mesh else CAP_CLASSICAL
        self.touched = []  # (Av, spec patterns, is mesh)
        self.iters = []
        self.epoch = 0
        self.av_epoch = 0
        self.fails = []
        self.step = -1
        self.opname = "construct"
        self.av = None

    def fail(self, msg, opname=None):
        self.fails.append(f"STEP {self.step} {opname or self.opname} :: {msg}")

    def touch(self, av, spec):
        if not any(a is av for a, _s, _m in self.touched):
            self.touched.append((av, spec, any(S.is_mesh(q) for q in spec)))

    def invariant(self):
        for av, spec, mesh in self.touched:
            msg = well_formed(av, spec, mesh)
            if msg:
                self.fail(f"invariant: {msg} (class of {spec})", "invariant-after-" + self.opname)

    # ---- result checks
    def check_level_listing(self, got, n, what):
        from permuta import Perm

        tg = [tuple(p) for p in got]
        if not all(type(p) is Perm for p in got):
            self.fail(f"{what}: yields something that is not a Perm")
        if len(set(tg)) != len(tg):
            self.fail(f"{what}: a permutation is repeated")
        want = K.level_set(n, self.spec)
        if set(tg) != want:
            self.fail(f"{what}: extra {sorted(set(tg) - want)[:3]} missing {sorted(want - set(tg))[:3]}")

    def check_upto(self, got, n, what):
        tg = [tuple(p) for p in got]
        lens = [len(t) for t in tg]
        if lens != sorted(lens):
            self.fail(f"{what}: not by increasing length")
        if len(set(tg)) != len(tg):
            self.fail(f"{what}: a permutation is repeated")
        want = set()
        for i in range(n + 1):
            want |= K.level_set(i, self.spec)
        if set(tg) != want:
            self.fail(f"{what}: extra {sorted(set(tg) - want)[:3]} missing {sorted(want - set(tg))[:3]}")

    def check_first(self, got, k, what, opname=None):
        tg = [tuple(p) for p in got]
        msg = K.first_k_problem(tg, k, self.spec, self.cap, not self.mesh)
        if msg:
            self.fail(f"{what}: {msg}; got {tg[:8]}", opname)

    def subclass_want(self, spec_a, spec_b):
        """Is Av(A) a subset of Av(B)?  (True/False, decided) - classical: a
        counterexample, if any, exists at a length <= the longest element of B (a
        member of Av(A) containing b in B has b itself as a member, by downward
        closure), so comparing levels up to that length is exact.  Mesh: only a
        counterexample found up to the cap decides (False); otherwise undecided."""
        classical = not any(S.is_mesh(q) for q in spec_a + spec_b)
        top = max(len(q) for q in spec_b) if classical else CAP_MESH
        for n in range(top + 1):
            if not K.level_set(n, spec_a) <= K.level_set(n, spec_b):
                return False, True
        return True, classical


def _other_av(w, other_patts):
    av = _construct(other_patts, "basis")
    w.touch(av, tuple(S.to_spec(p) for p in other_patts))
    return av


def _advance(w, rec, steps):
    from permuta import Perm

    for _ in range(steps):
        if rec["done"]:
            return
        try:
            p = next(rec["it"])
        except StopIteration:
            rec["done"] = True
            return
        t = tuple(p)
        label = "iter-" + rec["kind"]
        if type(p) is not Perm:
            w.fail("iterator yields something that is not a Perm", label)
        elif not K.in_class(t, w.spec):
            w.fail(f"iterator yields {t}, which is not in the class", label)
        elif t in rec["seen"]:
            w.fail(f"iterator yields {t} twice", label)
        elif rec["kind"] == "of_length" and len(t) != rec["n"]:
            w.fail(f"of_length({rec['n']}) iterator yields {t}", label)
        rec["seen"].add(t)
        rec["got"].append(p)


def _finish_iter(w, rec):
    _advance(w, rec, 10 ** 6)
    kind, n = rec["kind"], rec["n"]
    w.opname = "iter-" + kind
    if kind == "of_length":
        w.check_level_listing(rec["got"], n, f"drained of_length({n}) iterator opened at step {rec['step']}")
    elif kind == "up_to_length":
        w.check_upto(rec["got"], n, f"drained up_to_length({n}) iterator opened at step {rec['step']}")
    else:
        w.check_first(rec["got"], n, f"drained first({n}) iterator opened at step {rec['step']}")


def _do(w, op):
    from permuta import Av

    av = w.av
    kind = op[0]
    if kind == "count":
        got = av.count(op[1])
        want = len(K.level(op[1], w.spec))
        if got != want or type(got) is not int:
            w.fail(f"count({op[1]}) = {got!r}, oracle {want}")
    elif kind == "of_length":
        w.check_level_listing(list(av.of_length(op[1])), op[1], f"of_length({op[1]})")
    elif kind == "contains":
        got = op[1] in av
        want = K.in_class(tuple(op[1]), w.spec)
        if got is not want:
            w.fail(f"{tuple(op[1])} in av = {got!r}, oracle {want}")
    elif kind == "contains_other":
        for obj in ((0, 1), [0], 0, "0", None, frozenset(), D.mesh((0,), [])):
            got = obj in av
            if got is not False:
                w.fail(f"{obj!r} in av = {got!r} for something that is not a Perm")
    elif kind == "up_to_length":
        w.check_upto(list(av.up_to_length(op[1])), op[1], f"up_to_length({op[1]})")
    elif kind == "first":
        w.check_first(list(av.first(op[1])), op[1], f"first({op[1]})")
    elif kind == "enumeration":
        got = av.enumeration(op[1])
        want = [len(K.level(i, w.spec)) for i in range(op[1] + 1)]
        if got != want:
            w.fail(f"enumeration({op[1]}) = {got}, oracle {want}")
    elif kind in ("is_subclass", "is_superclass"):
        other = _other_av(w, op[1])
        ospec = tuple(S.to_spec(p) for p in op[1])
        try:
            got = av.is_subclass(other) if kind == "is_subclass" else other.is_subclass(av)
        except NotImplementedError:
            # declining to compare with / from a mesh class (as is_finite etc. do) does
            # not disagree with anything; for two classical bases it is a failure
            if w.mesh or any(S.is_mesh(q) for q in ospec):
                return
            raise
        if kind == "is_subclass":
            want, decided = w.subclass_want(w.spec, ospec)
        else:
            want, decided = w.subclass_want(ospec, w.spec)
        if decided and bool(got) is not want:
            w.fail(f"Av{w.spec}.{kind}(Av{ospec}) = {got!r}, by comparing the levels: {want}")
    elif kind == "clear_cache":
        Av.clear_cache()
        w.epoch += 1
    elif kind == "new_class":
        other = _other_av(w, op[1])
        ospec = tuple(S.to_spec(p) for p in op[1])
        got = [tuple(p) for p in other.of_length(op[2])]
        if len(set(got)) != len(got) or set(got) != K.level_set(op[2], ospec):
            w.fail(f"other class Av{ospec}.of_length({op[2]}) differs from the oracle")
        if other.count(op[2]) != len(got):
            w.fail(f"other class Av{ospec}.count({op[2]}) differs from its own listing")
    elif kind == "reconstruct":
        new = _construct(w.patts, op[1])
        if w.av_epoch == w.epoch and new is not av:
            w.fail(f"constructing the class again ({op[1]}) gives a different object although the "
                   f"instance cache was not cleared")
        if new.basis != av.basis or type(new.basis) is not type(av.basis):
            w.fail(f"constructing the class again ({op[1]}) gives basis {new.basis}, before {av.basis}")
        w.touch(new, w.spec)
        w.av, w.av_epoch = new, w.epoch
    elif kind == "open_iter":
        _k, which, n = op
        if which == "of_length":
            it = iter(av.of_length(n))
        elif which == "up_to_length":
            it = iter(av.up_to_length(n))
        else:
            it = iter(av.first(n))
        rec = {"it": it, "kind": which, "n": n, "got": [], "seen": set(), "done": False, "step": w.step}
        w.iters.append(rec)
        _advance(w, rec, 1)
    elif kind == "advance":
        if w.iters:
            _advance(w, w.iters[op[1] % len(w.iters)], op[2])
    else:
        raise KeyError(kind)


def run_scenario(patts, how, ops):
    from permuta import Av

    Av.clear_cache()
    w = _World(patts, how)
    try:
        w.av = _construct(w.patts, how)
    except Exception as exc:  # noqa: BLE001 - the code under test
        w.fail(f"constructing the class raised {type(exc).__name__}: {exc}")
        return w
    w.touch(w.av, w.spec)
    w.invariant()
    for i, op in enumerate(ops):
        w.step, w.opname = i, op[0]
        try:
            _do(w, op)
        except Exception as exc:  # noqa: BLE001 - the code under test
            w.fail(f"raised {type(exc).__name__}: {exc}")
        w.opname = op[0]
        w.invariant()
    w.step = len(ops)
    for rec in w.iters:
        w.opname = "iter-" + rec["kind"]
        try:
            _finish_iter(w, rec)
        except Exception as exc:  # noqa: BLE001
            w.fail(f"draining an open iterator raised {type(exc).__name__}: {exc}")
    w.opname = "end"
    w.invariant()
    return w


def _nontrivial(spec, upto):
    from math import factorial

    return any(0 < len(K.level(n, spec)) < factorial(n) for n in range(min(upto, 5) + 1))


def _verdict(w, nt):
    if w.fails:
        return bad(
            "every operation agrees with the filter of S_n and the level cache stays well formed",
            f"{len(w.fails)} failing step(s); first: {w.fails[0]}",
            "\n".join(w.fails[:40]),
            nt,
        )
    return ok(nt)


# ------------------------------------------------------------------- checks
@check("C02.levels")
def levels(item):
    """Fresh class; the given lengths are requested in the given order; for each:
    count, full listing, membership of EVERY permutation of that length."""
    patts, how, ns = item
    ops = []
    for n in ns:
        ops += [("count", n), ("of_length", n)]
    w = run_scenario(patts, how, ops)
    if w.av is not None:
        w.opname = "contains"
        for n in ns:
            members = K.level_set(n, w.spec)
            for t in itertools.permutations(range(n)):
                try:
                    got = D.P()(t) in w.av
                except Exception as exc:  # noqa: BLE001
                    w.fail(f"{t} in av raised {type(exc).__name__}: {exc}")
                    break
                if got is not (t in members):
                    w.fail(f"{t} in av = {got!r}, oracle {t in members}")
                    break
        w.opname = "contains"
        w.invariant()
    return _verdict(w, _nontrivial(w.spec, max(ns)))


@check("C02.history")
def history(item):
    patts, how, ops = item
    w = run_scenario(patts, how, ops)
    return _verdict(w, _nontrivial(w.spec, 5) and len(ops) > 0)


@check("C02.degenerate")
def degenerate(item):
    """Mesh bases with a pattern of length 0 (the unshaded empty pattern is
    contained in every permutation, the shaded one only in the empty
    permutation).  Refusing such a basis with ValueError - as is done for the
    classical empty permutation - is accepted; answering is accepted only if the
    answers are the avoiders."""
    from permuta import Av

    patts, how, ops = item
    Av.clear_cache()
    try:
        _construct(patts, how)
    except ValueError:
        return ok(False)
    w = run_scenario(patts, how, ops)
    return _verdict(w, True)


@check("C02.errors")
def errors(item):
    """Av.__new__ error paths: an empty basis, or one that reduces to the empty
    permutation, is refused with ValueError."""
    from permuta import Av, Basis, MeshBasis, Perm

    kind, patts = item
    Av.clear_cache()
    makers = {
        "Av(Basis)": lambda: Av(Basis(*patts)),
        "Av(MeshBasis)": lambda: Av(MeshBasis(*patts)),
        "Av(list)": lambda: Av(list(patts)),
        "Av(tuple)": lambda: Av(tuple(patts)),
        "from_iterable": lambda: Av.from_iterable(list(patts)),
        "from_string": lambda: Av.from_string(" ".join("".join(map(str, p)) for p in patts)),
    }
    empty_class_by_eps = any(len(p) == 0 for p in patts)
    must_raise = not patts or empty_class_by_eps
    if kind == "Av(MeshBasis)" and empty_class_by_eps:
        # MeshBasis wraps the classical empty permutation into an unshaded empty mesh
        # pattern; the class is empty all the same - refusing or answering correctly
        # is covered by C02.degenerate
        return ok(False)
    try:
        av = makers[kind]()
    except ValueError:
        return ok(True) if must_raise else bad("a class", "ValueError", f"{kind} on a legal basis")
    if must_raise:
        return bad("ValueError", f"{av!r}", f"{kind}: basis is empty or contains the empty permutation")
    if av.count(0) != 1 or Perm() not in av:
        return bad(1, av.count(0), "legal basis: the empty permutation is in the class")
    return ok(True)


# ------------------------------------------------------- known-finding predicates
def _parse(failure):
    patts, _how, _ops = codec.dec(failure["input"])
    spec = tuple(S.to_spec(p) for p in patts)
    steps = []
    for line in failure.get("note", "").splitlines():
        if line.startswith("STEP "):
            head = line.split(" :: ")[0].split()
            steps.append((int(head[1]), head[2], line))
    return patts, spec, steps, codec.dec(failure["input"])[2]


def _explain(spec, ops, step):
    """Which recorded defect (if any) explains one failing step."""
    idx, opname, line = step
    mesh = any(S.is_mesh(q) for q in spec)
    if opname in ("first", "iter-first") and mesh and K.has_gap(spec, CAP_MESH) and "level" in line and "incomplete" in line:
        return "first-gap"
    if opname in ("is_subclass", "is_superclass") and 0 <= idx < len(ops):
        other = tuple(S.to_spec(p) for p in ops[idx][1])
        if mesh or any(S.is_mesh(q) for q in other):
            return "subclass-mesh"
    return None


def _kf(failure, which):
    _patts, spec, steps, ops = _parse(failure)
    if not steps:
        return False
    why = [_explain(spec, ops, st) for st in steps]
    return all(why) and why[0] == which


def kf_first_gap(failure):
    """`first`/_all on a mesh basis whose class has an empty level below a non-empty
    one (within the oracle's lengths): the listing stops at the empty level."""
    return _kf(failure, "first-gap")


def kf_subclass_mesh(failure):
    """is_subclass where one of the two bases is a mesh basis."""
    return _kf(failure, "subclass-mesh")


def kf_empty_mesh(failure):
    """The basis contains a mesh pattern of length 0."""
    patts, _how, _ops = codec.dec(failure["input"])
    return any(S.is_mesh(S.to_spec(p)) and len(S.to_spec(p)[0]) == 0 for p in patts)


# ------------------------------------------------------------------ domains
def _classical_bases(rng, quick):
    Perm = D.P()
    small = D.perms_upto(3, 2)  # S2 u S3: 8 patterns
    bases = []
    for r in (1, 2, 3):
        for comb in itertools.combinations(small, r):
            bases.append(tuple(comb))
    if quick:
        keep = [b for b in bases if len(b) <= 2]
        three = [b for b in bases if len(b) == 3]
        bases = keep + rng.sample(three, 12)
    p4, p5 = D.perms(4), D.perms(5)
    seeded = [
        (Perm((0,)),), (Perm((0, 1)),), (Perm((1, 0)),),
        (Perm((0, 1)), Perm((1, 0))), (Perm((0, 1, 2)), Perm((1, 0))),
        (Perm((0, 1, 2)), Perm((2, 1, 0))), (Perm((0, 1, 2, 3)), Perm((2, 1, 0))),
        (Perm((0, 1, 2, 3)), Perm((3, 2, 1, 0))),
        (Perm((0, 1)), Perm((0, 1, 2))),  # redundant element
        (Perm((0, 2, 1)), Perm((0, 2, 1)), Perm((0, 3, 1, 2))),  # repetition + redundant
        (Perm((0, 2, 1, 3)), Perm((1, 0, 3, 2))),  # smooth
        (Perm((1, 3, 0, 2)), Perm((2, 0, 3, 1))),  # separable
        (Perm((0, 2, 1)), Perm((3, 0, 1, 2))),
        (Perm((0, 1, 2, 3, 4)),), (Perm((4, 3, 2, 1, 0)), Perm((0, 1, 2))),
        (Perm((1, 0)), Perm((0, 1, 2, 3, 4))),
    ]
    singles4 = p4 if not quick else rng.sample(p4, 8)
    seeded += [(p,) for p in singles4]
    seeded += [(p,) for p in rng.sample(p5, 4 if quick else 20)]
    for _ in range(14 if quick else 120):
        shape = rng.choice(((3, 4), (4, 4), (2, 5), (3, 5), (4, 5), (3, 4, 4), (3, 3, 5), (4, 4, 5), (2, 4), (3, 4, 5)))
        b = tuple(D.random_perm(rng, k) for k in shape)
        seeded.append(b)
    for _ in range(4 if quick else 30):  # redundant: an element and a longer one containing it
        a = D.random_perm(rng, rng.choice((2, 3)))
        big = D.random_perm(rng, 5)
        idx = sorted(rng.sample(range(5), len(a)))
        vals = sorted(big[i] for i in idx)
        lst = list(big)
        for j, i in enumerate(idx):
            lst[i] = vals[a[j]]
        seeded.append((Perm(lst), a, D.random_perm(rng, 4)))
    out, seen = [], set()
    for b in bases + seeded:
        if b not in seen:
            seen.add(b)
            out.append(b)
    return out


def _mesh_bases(rng, quick):
    from permuta import BivincularPatt, CovincularPatt, MeshPatt, VincularPatt

    Perm = D.P()
    full1 = D.mesh((0,), D.cells(1))
    out = [
        (full1,),  # class not downward closed: 1, 0, 2, 6, ...
        (D.mesh((0,), [(0, 0)]),), (D.mesh((0,), [(0, 0), (1, 1)]),), (D.mesh((0,), [(0, 1), (1, 0), (1, 1)]),),
        (D.mesh((0, 1), []),), (D.mesh((1, 0), D.cells(2)),), (D.mesh((0, 1), D.cells(2)), D.mesh((1, 0), D.cells(2))),
        (D.mesh((0, 1), [(1, 0), (1, 1), (1, 2)]),),
        (Perm((0, 1, 2)), D.mesh((1, 0), [(1, 0), (1, 1), (1, 2)])),  # classical + mesh
        (D.mesh((0, 1), [(1, 1)]), Perm((2, 1, 0))),
        (Perm((0, 2, 1)), D.mesh((0, 1), [(0, 0), (2, 2)]), Perm((1, 0))),
        (full1, Perm((0, 1))), (full1, D.mesh((1, 0), [(1, 1)])),
        (VincularPatt(Perm((0, 1)), [1]),), (VincularPatt(Perm((1, 0)), [0, 2]),),
        (CovincularPatt(Perm((0, 1)), [1]),), (CovincularPatt(Perm((1, 0)), [0, 1]),),
        (BivincularPatt(Perm((0, 1)), [1], [1]),), (BivincularPatt(Perm((1, 0)), [1], []),),
        (VincularPatt(Perm((0, 1)), [1]), VincularPatt(Perm((1, 0)), [1])),
        (CovincularPatt(Perm((0, 1)), [1]), CovincularPatt(Perm((1, 0)), [2])),
        (BivincularPatt(Perm((0, 1)), [1], [1]), BivincularPatt(Perm((1, 0)), [0], [2])),
        # different mesh subclasses in one basis (construction is C05's concern; the
        # class, once constructed, is this property's)
        (VincularPatt(Perm((0, 1)), [1]), CovincularPatt(Perm((1, 0)), [1])),
        (BivincularPatt(Perm((0, 1)), [1], [1]), D.mesh((1, 0), [(0, 0)])),
        (Perm((0, 1, 2)), VincularPatt(Perm((1, 0)), [1])),
        (MeshPatt(Perm((0, 1, 2)), [(1, 1), (2, 2)]),), (MeshPatt(Perm((2, 0, 1)), [(0, 0), (1, 3), (3, 1)]), Perm((0, 1, 2, 3))),
    ]
    for _ in range(30 if quick else 260):
        r = rng.choice((1, 1, 2))
        b = []
        for _j in range(r):
            k = rng.choice((1, 2, 2))
            t = tuple(D.random_perm(rng, k))
            b.append(D.mesh(t, D.random_shading(rng, k)))
        if rng.random() < 0.25:
            b.append(D.random_perm(rng, rng.choice((2, 3))))
            rng.shuffle(b)
        out.append(tuple(b))
    res, seen = [], set()
    for b in out:
        key = codec.enc(b)
        if key not in seen:
            seen.add(key)
            res.append(b)
    return res


def _degenerate_bases():
    Perm = D.P()
    e0, e1 = D.mesh((), []), D.mesh((), [(0, 0)])
    return [(e0,), (e1,), (e1, D.mesh((0,), [(1, 1)])), (Perm((0, 1)), e1), (e0, Perm((0, 1)))]


def _others(rng, patts, mesh_allowed=True):
    """Bases to compare with / construct next to the class: a superclass candidate,
    a subclass candidate, something unrelated, and (for C02's "every basis") a mesh
    basis."""
    Perm = D.P()
    classical = [p for p in patts if not S.is_mesh(S.to_spec(p))]
    out = [(Perm((0, 1, 2)),), (Perm((1, 0)),), tuple(patts) + (Perm((0, 2, 1)),)]
    if classical and len(classical[0]) < 5:
        t = list(classical[0])
        v = rng.randrange(len(t) + 1)
        t = [x + (x >= v) for x in t]
        t.insert(rng.randrange(len(t) + 1), v)
        out.append((Perm(t),))  # contains an element of the basis: Av(patts) is inside its class
    if classical:
        out.append(tuple(classical))
    out.append((D.random_perm(rng, 3), D.random_perm(rng, 4)))
    if mesh_allowed:
        out.append((D.mesh((1, 0), [(0, 0)]),))
    return out


def _alphabet(rng, patts, mesh):
    spec = tuple(S.to_spec(p) for p in patts)
    Perm = D.P()

    def pick(n, member):
        lv = K.level_set(n, spec)
        cands = [t for t in itertools.permutations(range(n)) if (t in lv) == member]
        return Perm(rng.choice(cands)) if cands else None

    top = 5
    ops = [("count", 2), ("count", 4), ("count", top),
           ("of_length", 0), ("of_length", 3), ("of_length", top),
           ("up_to_length", 4), ("first", 5), ("enumeration", 3),
           ("clear_cache",), ("contains_other",),
           ("open_iter", "of_length", 4), ("open_iter", "up_to_length", top), ("open_iter", "first", 7),
           ("advance", 0, 2), ("reconstruct", "reversed")]
    for n, member in ((4, True), (4, False), (6 if not mesh else 5, True), (6 if not mesh else 5, False)):
        p = pick(n, member)
        if p is not None:
            ops.append(("contains", p))
    others = _others(rng, patts)
    ops.append(("is_subclass", others[0]))
    ops.append(("is_superclass", others[2]))
    ops.append(("new_class", others[1], 3))
    return ops


def _random_ops(rng, patts, mesh, length=12):
    spec = tuple(S.to_spec(p) for p in patts)
    top = 5 if mesh else 6
    others = _others(rng, patts)
    ops = []
    opening = rng.choice(("jump", "long-member", "iter", "plain"))
    if opening == "jump":
        ops.append(("count", top))
        ops.append(("of_length", rng.randrange(0, 3)))
    elif opening == "long-member":
        ops.append(("contains", D.random_perm(rng, top)))
    elif opening == "iter":
        ops.append(("open_iter", rng.choice(("of_length", "up_to_length", "first")), rng.randrange(2, top + 1)))
    ctors = ["basis", "reversed", "iterable", "from_iterable"] + ([] if mesh else ["from_string"])
    while len(ops) < length:
        r = rng.random()
        n = rng.randrange(0, top + 1)
        if r < 0.14:
            ops.append(("count", n))
        elif r < 0.28:
            ops.append(("of_length", n))
        elif r < 0.42:
            lv = K.level(n, spec)
            if lv and rng.random() < 0.5:
                ops.append(("contains", D.P()(rng.choice(lv))))
            else:
                ops.append(("contains", D.random_perm(rng, n)))
        elif r < 0.49:
            ops.append(("up_to_length", rng.randrange(0, top)))
        elif r < 0.56:
            ops.append(("first", rng.randrange(0, 9)))
        elif r < 0.60:
            ops.append(("enumeration", rng.randrange(0, top + 1)))
        elif r < 0.66:
            ops.append((rng.choice(("is_subclass", "is_superclass")), rng.choice(others)))
        elif r < 0.71:
            ops.append(("clear_cache",))
        elif r < 0.77:
            ops.append(("new_class", rng.choice(others), rng.randrange(0, 5)))
        elif r < 0.83:
            ops.append(("reconstruct", rng.choice(ctors)))
        elif r < 0.91:
            ops.append(("open_iter", rng.choice(("of_length", "up_to_length", "first")), rng.randrange(0, top + 1)))
        elif r < 0.98:
            ops.append(("advance", rng.randrange(0, 4), rng.randrange(1, 4)))
        else:
            ops.append(("contains_other",))
    return tuple(ops)


def run(ctx):
    quick = ctx.tier == "quick"
    Perm = D.P()
    rng = D.subrng(ctx, "c02")
    K.selfcheck()
    cbases = _classical_bases(rng, quick)
    mbases = _mesh_bases(rng, quick)
    ctors_c = ("basis", "iterable", "from_iterable", "from_string", "reversed")
    ctors_m = ("basis", "iterable", "from_iterable", "reversed")

    # ---- history-free: every level, every permutation
    nmax = 6 if quick else 7
    lv_inputs = []
    for j, b in enumerate(cbases):
        how = ctors_c[j % len(ctors_c)]
        lv_inputs.append((b, how, tuple(range(nmax + 1))))
        lv_inputs.append((b, "basis", (nmax,)))
        lv_inputs.append((b, how, (nmax - 1, nmax, 2, 0)))
    ctx.run("C02.levels", lv_inputs, chunk=3,
            rule=f"{len(cbases)} classical bases (all subsets of S2 u S3 of size <=2, size 3 {'sampled' if quick else 'all'}; "
                 f"seeded bases with elements of length 4-5, finite classes, redundant elements, Perm((0,)), Perm((0,1))) x "
                 f"3 request orders (0..{nmax} increasing; only {nmax}; {nmax - 1},{nmax},2,0): count, listing as a set without "
                 f"repetition, membership of every permutation of each requested length, invariant after every operation; "
                 f"non-trivial = some level n<=5 has 0 < |Av_n| < n!")
    mv_inputs = []
    for j, b in enumerate(mbases):
        how = ctors_m[j % len(ctors_m)]
        mv_inputs.append((b, how, tuple(range(CAP_MESH + 1))))
        mv_inputs.append((b, "basis", (CAP_MESH, 1, 3)))
    ctx.run("C02.levels", mv_inputs, chunk=2,
            rule=f"{len(mbases)} mesh bases (1-3 elements; mesh patterns of length <=2 with seeded shadings, fully shaded point, "
                 f"classical+mesh mixtures, Vincular/Covincular/Bivincular patterns, two of length 3) x 2 request orders, lengths <= {CAP_MESH}")
    ctx.add_sample("C02.levels", lv_inputs[40])
    ctx.add_sample("C02.levels", mv_inputs[0])

    # ---- all short histories for representative bases
    reps = [
        ((Perm((0, 1, 2)),), "basis"),
        ((Perm((0, 2, 1)), Perm((3, 0, 1, 2))), "iterable"),
        ((Perm((0, 1)),), "from_string"),
        ((Perm((0, 1, 2)), Perm((2, 1, 0))), "from_iterable"),
        ((Perm((1, 2, 0)), Perm((1, 0, 3, 2)), Perm((0, 1, 2, 3, 4))), "basis"),
        ((D.mesh((1, 0), [(1, 0), (1, 1), (1, 2)]),), "basis"),
        ((D.mesh((0,), D.cells(1)),), "basis"),
        ((Perm((0, 1, 2)), D.mesh((1, 0), [(0, 0), (2, 2)])), "iterable"),
    ]
    hist = []
    n_alpha = 0
    for patts, how in reps:
        mesh = _is_meshy(patts)
        alpha = _alphabet(rng, patts, mesh)
        n_alpha = max(n_alpha, len(alpha))
        hist.append((patts, how, ()))
        for a in alpha:
            hist.append((patts, how, (a,)))
        for a in alpha:
            for b in alpha:
                hist.append((patts, how, (a, b)))
        triples = ((a, b, c) for a in alpha for b in alpha for c in alpha)
        if quick:
            triples = rng.sample(list(triples), 500)
        for t in triples:
            hist.append((patts, how, t))
    ctx.run("C02.history", hist, chunk=250, timeout_s=20,
            rule=f"{len(reps)} representative bases (5 classical incl. a finite class and a length-5 element, 3 mesh incl. the "
                 f"not-downward-closed one) x ALL operation sequences of length <=2 over an alphabet of {n_alpha} operations "
                 f"(count/of_length/contains member+non-member incl. a longer perm/up_to_length/first/enumeration/is_subclass/"
                 f"is_superclass/clear_cache/new_class/reconstruct/open_iter x3/advance/non-Perm membership), length 3: "
                 f"{'500 seeded per basis' if quick else 'all'}")
    ctx.add_sample("C02.history", hist[30])
    ctx.add_sample("C02.history", hist[-1])

    # ---- seeded long histories for every basis
    per = 2 if quick else 10
    longs = []
    for b in cbases + mbases:
        mesh = _is_meshy(b)
        for j in range(per):
            how = rng.choice(ctors_m if mesh else ctors_c)
            longs.append((b, how, _random_ops(rng, b, mesh)))
    ctx.run("C02.history", longs, chunk=2 * per, timeout_s=30,
            rule=f"every enumerated basis ({len(cbases)} classical + {len(mbases)} mesh) x {per} seeded operation sequences of "
                 f"length 12 (jump ahead first / membership of a long permutation first / iterator first; interleaved partially "
                 f"consumed iterators drained at the end)")
    ctx.add_sample("C02.history", longs[5])

    # ---- degenerate mesh bases and error paths
    deg = []
    for b in _degenerate_bases():
        for ops in ((("count", 0),), (("enumeration", 3), ("first", 3)), (("contains", Perm()), ("of_length", 1))):
            deg.append((b, "basis", ops))
    ctx.run("C02.degenerate", deg, chunk=4, rule="5 mesh bases containing a pattern of length 0 x 3 short histories")
    errs = []
    for kind in ("Av(Basis)", "Av(MeshBasis)", "Av(list)", "Av(tuple)", "from_iterable", "from_string"):
        for patts in ((), (Perm(),), (Perm(), Perm((0, 1))), (Perm((1, 0)), Perm()), (Perm((0,)),), (Perm((0, 1)), Perm((0, 1)))):
            if kind == "from_string" and any(len(p) == 0 for p in patts):
                continue
            errs.append((kind, patts))
    ctx.run("C02.errors", errs, chunk=8, rule="6 ways of constructing x {empty basis, bases containing the empty permutation, legal bases}")
    ctx.exhaustive = False
    ctx.assumptions += [
        "B layer: bounded; bases, lengths (classical <= 7, mesh <= 5) and operation sequences as stated; long histories are seeded samples",
        "oracle = filter of itertools.permutations(range(n)) by brute-force containment (specs/core.py, specs/classes.py)",
        "is_subclass oracle for classical bases: comparing levels up to the longest element of the other basis is exact (downward closure); "
        "for mesh bases only a counterexample of length <= 5 decides",
        "'first k' oracle: any listing by increasing length whose complete lower levels match the filter; order inside a length is free",
        "the invariant reads the private attribute `cache` via getattr and is skipped if it does not exist",
    ]
    from props import dlayer

    dlayer.run(ctx, "C02")
