"""C19 - reported enumeration strategies follow their stated conditions and symmetries.

B layer (bounded stand-in).  Every strategy class, `find_strategies` (quick and slow
search) and the shape helpers of core_strategies.py are compared with the hypotheses
written as definitions in specs/strategies.py, over all small bases, in every order,
with repetitions and under the eight symmetries.
"""
import itertools

from specs import core as S
from specs import simples as X
from specs import strategies as T
from vlib import codec
from vlib import domains as D
from vlib.core import bad, check, ok

LEVEL = "exploration"

ONE = (0,)


_LOCK_PID = None


def _own_av_lock():
    """Av._CACHE_LOCK is a multiprocessing.Lock created at import time; forked pool
    workers inherit the *same* OS semaphore, which serialises every Av query across
    all workers of the pool.  Each process gets its own lock (what a freshly started
    interpreter has); behaviour inside one process is unchanged."""
    global _LOCK_PID
    import multiprocessing
    import os

    if _LOCK_PID != os.getpid():
        from permuta import Av

        Av._CACHE_LOCK = multiprocessing.Lock()
        _LOCK_PID = os.getpid()


def _fresh(perms):
    Perm = D.P()
    return [Perm(tuple(p)) for p in perms]


def _tuples(perms):
    return sorted({S.to_spec(p) for p in perms}, key=lambda t: (len(t), t))


def _cs():
    # the package re-exports a *list* under the same name as the module
    import importlib

    return importlib.import_module("permuta.enumeration_strategies.core_strategies")


def _strategy(name):
    import permuta.enumeration_strategies as es

    cs = _cs()

    if hasattr(cs, name):
        return getattr(cs, name)
    return getattr(es, name)


def _names(strats):
    return [type(s).__name__ for s in strats]


def _simples_want(perms):
    """C16 oracle: geometric families by the spec, pin sequences by the automaton
    test of property C15."""
    from permuta.permutils.pin_words import PinWords

    if not X.finitely_many_special(_tuples(perms)):
        return False
    return bool(PinWords.has_finite_pinperms(list(_fresh(perms))))


# ------------------------------------------------------------ spec self-check
@check("C19.spec.shapes")
def spec_shapes(p):
    """Cross-checks inside the spec: components rebuild the permutation, 1 (+) q is
    recognised, and 'the two largest entries are adjacent' is the meaning of the
    two mesh patterns of Corollaries 9.5 / 10.5."""
    comps = T.sum_components(p)
    acc = ()
    for c in comps:
        acc = T.direct_sum(acc, c)
        if T.sum_decomposable(c):
            return bad("indecomposable", c, "sum component decomposable")
    if acc != tuple(p):
        return bad(p, acc, "sum components do not rebuild the permutation")
    comps = T.skew_components(p)
    acc = ()
    for c in comps:
        acc = T.skew_sum(acc, c)
        if T.skew_decomposable(c):
            return bad("indecomposable", c, "skew component decomposable")
    if acc != tuple(p):
        return bad(p, acc, "skew components do not rebuild the permutation")
    if T.sum_decomposable(p) != (len(T.sum_components(p)) > 1):
        return bad(T.sum_decomposable(p), len(T.sum_components(p)), "sum_decomposable vs number of components")
    if T.strip_one_plus(T.one_plus(p)) != tuple(p) or T.strip_plus_one(T.plus_one(p)) != tuple(p):
        return bad(p, (T.strip_one_plus(T.one_plus(p)), T.strip_plus_one(T.plus_one(p))), "1 (+) q round trip")
    if T.top_two_adjacent(p, "desc") != S.contains(p, T.MESH_DESC):
        return bad(S.contains(p, T.MESH_DESC), T.top_two_adjacent(p, "desc"), "mesh pattern (10, shading) in words")
    if T.top_two_adjacent(p, "asc") != S.contains(p, T.MESH_ASC):
        return bad(S.contains(p, T.MESH_ASC), T.top_two_adjacent(p, "asc"), "mesh pattern (01, shading) in words")
    return ok(len(p) >= 3)


# ------------------------------------------------------------ shape helpers
def _helper_spec(name, t):
    if name == "fstrip":
        return T.spec_fstrip(t)
    if name == "bstrip":
        return T.spec_bstrip(t)
    if name == "zero_plus_skewind":
        return T.one_plus_skewind(t)
    if name == "zero_plus_sumind":
        return T.one_plus_sumind(t)
    if name == "zero_plus_perm":
        return T.one_plus_any(t)
    if name == "last_sum_component":
        return T.spec_last_sum_component(t)
    if name == "last_skew_component":
        return T.spec_last_skew_component(t)
    raise KeyError(name)


HELPER_NAMES = ("fstrip", "bstrip", "zero_plus_skewind", "zero_plus_sumind", "zero_plus_perm",
                "last_sum_component", "last_skew_component")


def _make_helper(name):
    @check(f"C19.helper.{name}")
    def helper(perm):
        cs = _cs()
        Perm = D.P()
        t = S.to_spec(perm)
        want = _helper_spec(name, t)
        got = getattr(cs, name)(Perm(t))
        if isinstance(want, bool):
            if got is not want:
                return bad(want, got, f"core_strategies.{name} vs its definition")
            return ok(True)
        if not isinstance(got, Perm) or S.to_spec(got) != want:
            return bad(Perm(want), got, f"core_strategies.{name} vs its definition")
        return ok(S.to_spec(got) != t)

    return helper


for _h in HELPER_NAMES:
    _make_helper(_h)


def _make_valid_extension(name):
    @check(f"C19.valid_extension.{name}")
    def valid_extension(perm):
        _own_av_lock()
        Perm = D.P()
        t = S.to_spec(perm)
        want = T.CORE[name][1](t)
        got = _strategy(name).is_valid_extension(Perm(t))
        if bool(got) is not want or not isinstance(got, bool):
            return bad(want, got, f"{name}.is_valid_extension vs the prescribed 'one plus ...' form")
        return ok(True)

    return valid_extension


def _make_applies(name):
    @check(f"C19.applies.{name}")
    def applies(basis):
        _own_av_lock()
        b = _tuples(basis)
        if name == "InsertionEncodingStrategy":
            want = T.insertion_encoding_applies(b)
        elif name == "FinitelyManySimplesStrategy":
            want = _simples_want(basis)
        else:
            want = T.core_applies(name, b)
        cls = _strategy(name)
        got = cls(list(_fresh(basis))).applies()
        if got is not want:
            return bad(want, got, f"{name}(list).applies() vs its stated hypothesis over the eight symmetric images")
        got2 = cls(p for p in reversed(_fresh(basis))).applies()
        if got2 is not want:
            return bad(want, got2, f"{name}(generator, reversed).applies()")
        return ok(want or len(b) > 1)

    return applies


for _n in T.CORE:
    _make_valid_extension(_n)
for _n in T.ORDER:
    _make_applies(_n)


# ------------------------------------------------------------ find_strategies
@check("C19.find_strategies.fast")
def find_fast(basis):
    _own_av_lock()
    from permuta.enumeration_strategies import find_strategies

    b = _tuples(basis)
    want = T.fast_strategies(b)
    res = find_strategies(list(_fresh(basis)), long_runnning=False)
    got = _names(res)
    if got != want:
        return bad(want, got, "find_strategies(B, long_runnning=False): reported strategy classes vs hypotheses")
    for s in res:
        if set(s.basis) != set(_fresh(basis)):
            return bad(set(_fresh(basis)), set(s.basis), "a reported strategy object does not carry the basis")
        if s.applies() is not True:
            return bad(True, s.applies(), "a reported strategy does not apply")
    return ok(bool(want))


@check("C19.find_strategies.slow")
def find_slow(basis):
    """Quick search = slow search minus the slow strategies; the slow search
    reports FinitelyManySimplesStrategy exactly when C16 says so; the default is the
    slow search."""
    _own_av_lock()
    from permuta.enumeration_strategies import find_strategies

    fast = _names(find_strategies(list(_fresh(basis)), long_runnning=False))
    slow = _names(find_strategies(list(_fresh(basis)), long_runnning=True))
    if [n for n in slow if n not in T.SLOW] != fast:
        return bad(fast, slow, "find_strategies(B, True) minus the slow strategies != find_strategies(B, False)")
    want = T.fast_strategies(_tuples(basis)) + (["FinitelyManySimplesStrategy"] if _simples_want(basis) else [])
    if slow != want:
        return bad(want, slow, "find_strategies(B, long_runnning=True) vs hypotheses")
    default = _names(find_strategies(tuple(_fresh(basis))))
    if default != slow:
        return bad(slow, default, "find_strategies(B) (default) differs from long_runnning=True")
    return ok(bool(slow))


@check("C19.invariance")
def invariance(item):
    """Reordering, repetition, (re-iterable) container type and the eight symmetries
    do not change the reported set (quick search).  One-shot iterators are not part
    of this property's statement (find_strategies hands the same iterator to every
    strategy constructor, so only the first one sees the elements)."""
    _own_av_lock()
    arr = item
    from permuta import Basis
    from permuta.enumeration_strategies import find_strategies

    Perm = D.P()
    b = _tuples(arr)
    base = _names(find_strategies([Perm(t) for t in b], long_runnning=False))
    fresh = _fresh(arr)
    variants = {
        "given arrangement (list)": list(fresh),
        "reversed tuple": tuple(reversed(fresh)),
        "doubled list": list(fresh) + list(fresh),
        "set": set(fresh),
        "frozenset": frozenset(fresh),
    }
    if all(len(t) > 0 for t in b) and len(Basis(*fresh)) == len(b):
        variants["Basis"] = Basis(*fresh)
    for name, v in variants.items():
        got = _names(find_strategies(v, long_runnning=False))
        if got != base:
            return bad(base, got, f"find_strategies on the {name}")
    for g in S.SYMS:
        img = [Perm(S.sym_perm(g, t)) for t in b]
        got = _names(find_strategies(img, long_runnning=False))
        if got != base:
            return bad(base, got, f"find_strategies on the image of the basis under {g}")
    return ok(bool(base))


@check("C19.invariance.slow")
def invariance_slow(basis):
    _own_av_lock()
    from permuta.enumeration_strategies import find_strategies

    Perm = D.P()
    b = _tuples(basis)
    base = _names(find_strategies([Perm(t) for t in b], long_runnning=True))
    for g in S.SYMS:
        img = [Perm(S.sym_perm(g, t)) for t in reversed(b)]
        got = _names(find_strategies(img + img[:1], long_runnning=True))
        if got != base:
            return bad(base, got, f"find_strategies(long_runnning=True) on the image under {g} (reordered, one repeat)")
    return ok(bool(base))


# ------------------------------------------------------------ known findings
def _has_one(perms):
    return any(len(p) == 1 for p in perms)


def kf_length_one(failure):
    """Known defect: Rd2134CoreStrategy / Ru2143CoreStrategy.is_valid_extension strip
    the leading point and then take the last sum / skew component of what is left;
    for the basis element Perm((0,)) nothing is left and `assert len(perm) > 0`
    fails, so both strategies - and with them find_strategies - raise on every
    basis that contains the permutation of length one."""
    item = codec.dec(failure["input"])
    perms = [item] if hasattr(item, "is_increasing") else list(item)
    return _has_one(perms) and failure.get("actual", "").startswith("raised AssertionError")


def _ru2143_explains(perms):
    """The failure disappears when the spec drops the requirement 'p = 1 (+) q' for
    Ru2143 exactly as the code does."""
    b = _tuples(perms)
    lax = T.core_applies("Ru2143CoreStrategy", b, ext=T.ext_ru_2143_without_one_plus)
    strict = T.core_applies("Ru2143CoreStrategy", b)
    return lax and not strict


def kf_ru2143_extension(failure):
    """Known defect: Ru2143CoreStrategy.is_valid_extension does not require the
    element to start with its minimum (to be of the form 1 (+) q)."""
    p = S.to_spec(codec.dec(failure["input"]))
    return (len(p) >= 1 and p[0] != 0 and failure.get("expected") == "False" and failure.get("actual") == "True"
            and T.ext_ru_2143_without_one_plus(p))


def kf_ru2143_applies(failure):
    perms = codec.dec(failure["input"])
    return failure.get("expected") == "False" and failure.get("actual") == "True" and _ru2143_explains(perms)


def kf_ru2143_find(failure):
    """find_strategies lists exactly the expected strategies plus Ru2143CoreStrategy."""
    perms = codec.dec(failure["input"])
    try:
        expected = eval(failure.get("expected"))  # noqa: S307 - list of names written by enc()
        actual = eval(failure.get("actual"))  # noqa: S307
    except Exception:
        return False
    if not isinstance(expected, list) or not isinstance(actual, list):
        return False
    with_ru = sorted(set(expected) | {"Ru2143CoreStrategy"}, key=T.ORDER.index)
    return "Ru2143CoreStrategy" not in expected and actual == with_ru and _ru2143_explains(perms)


# ------------------------------------------------------------------- domains
def run(ctx):
    quick = ctx.tier == "quick"
    Perm = D.P()
    rng = D.subrng(ctx, "c19")

    upto = D.perms_upto(6 if quick else 7, 1)
    ctx.run("C19.spec.shapes", [S.to_spec(p) for p in D.perms_upto(6)], chunk=200,
            rule="all permutations of length <= 6 (spec-internal cross-checks)")
    for h in HELPER_NAMES:
        ctx.run(f"C19.helper.{h}", upto, chunk=500,
                rule="all permutations of length 1..6 (7 thorough)")
    for n in T.CORE:
        ctx.run(f"C19.valid_extension.{n}", upto, chunk=500,
                rule="all permutations of length 1..6 (7 thorough)")

    # ---------------------------------------------------------------- bases
    pool1 = D.perms_upto(4, 1)
    s3 = D.perms(3)
    sub_s3 = [c for r in range(1, 7) for c in itertools.combinations(s3, r)]           # 63
    small = [c for r in (1, 2) for c in itertools.combinations(pool1, r)]               # 561
    combined = []
    for name, (required, shape) in T.CORE.items():
        req = tuple(Perm(t) for t in required)
        for extra in [()] + small:
            if rng.random() < (0.15 if quick else 1.0) or len(extra) == 0:
                combined.append(tuple(dict.fromkeys(req + tuple(extra))))
    # seeded larger bases: required patterns (or patterns containing them) plus
    # extensions of length 4-6 that have / narrowly miss the prescribed form
    p56 = [S.to_spec(p) for p in D.perms_upto(6, 3)]
    larger = []
    for name, (required, shape) in T.CORE.items():
        good = [p for p in p56 if shape(p)]
        near = [p for p in p56 if not shape(p) and p[0] == 0] or [p for p in p56 if not shape(p)]
        for _ in range(40 if quick else 400):
            basis = list(required)
            if rng.random() < 0.25:  # replace one required pattern by a shorter pattern it contains
                r = rng.choice(basis)
                i = rng.randrange(len(r))
                basis[basis.index(r)] = S.std(r[:i] + r[i + 1:])
            basis += rng.sample(good, rng.randint(0, 3))
            if rng.random() < 0.4:
                basis.append(rng.choice(near))
            if rng.random() < 0.3:
                basis.append(rng.choice(p56))
            g = rng.choice(S.SYMS)
            img = [S.sym_perm(g, t) for t in dict.fromkeys(basis)]
            rng.shuffle(img)
            larger.append(tuple(Perm(t) for t in img))
    # symmetric images of the combined bases so that 'some symmetry' is exercised
    moved = []
    for basis in rng.sample(combined, min(len(combined), 300 if quick else 3000)):
        g = rng.choice(S.SYMS[1:])
        moved.append(tuple(Perm(S.sym_perm(g, S.to_spec(p))) for p in basis))
    bases = sub_s3 + small + combined + moved + larger
    ctx.exhaustive = False
    rule = ("all 63 non-empty subsets of S3; all bases of <= 2 perms of length 1-4; each core strategy's required patterns "
            "+ every such <= 2-element set (quick: 15% seeded); seeded symmetric images of those; seeded larger bases: "
            "required patterns (sometimes weakened to a contained pattern) + 0-3 valid extensions of length 3-6 + near "
            "misses, under a seeded symmetry")
    for n in T.ORDER:
        if n in T.SLOW:
            continue
        ctx.run(f"C19.applies.{n}", bases, chunk=60, rule=rule)
    ctx.add_sample("C19.applies.RuCuCoreStrategy", larger[0])
    ctx.run("C19.find_strategies.fast", bases, chunk=60, rule=rule)

    # slow strategy: keep to bases whose pin automaton is cheap (perms <= 4, <= 2-3 elements)
    slow_src = sub_s3 + rng.sample(small, 40 if quick else 250) + rng.sample(combined, min(len(combined), 20 if quick else 150))
    slow_src = [b for b in slow_src if all(len(p) <= 4 for p in b)]
    ctx.run("C19.applies.FinitelyManySimplesStrategy", slow_src, chunk=4,
            rule="subsets of S3, seeded <= 2-element bases, seeded required+extra bases (perms <= 4)")
    ctx.run("C19.find_strategies.slow", slow_src, chunk=4, rule="same bases as the slow strategy")

    inv = []
    for basis in sub_s3 + (rng.sample(small, 150) if quick else list(small)) + rng.sample(combined, min(len(combined), 150 if quick else 1500)) \
            + rng.sample(larger, min(len(larger), 100 if quick else 1000)):
        arr = list(basis)
        if rng.random() < 0.5:
            arr.append(rng.choice(arr))
        rng.shuffle(arr)
        inv.append(tuple(arr))
    ctx.run("C19.invariance", inv, chunk=20,
            rule="bases in a seeded order with repetitions x {list, reversed tuple, doubled, set, frozenset, Basis} x 8 "
                 "symmetric images (geometric spec map); quick search")
    ctx.run("C19.invariance.slow", (rng.sample(sub_s3, 12) if quick else sub_s3) + rng.sample(slow_src, min(len(slow_src), 8 if quick else 60)), chunk=2,
            rule="slow search on 8 symmetric images, reordered with one repeat")
    ctx.assumptions += [
        "B layer: bounded.  Hypotheses of the corollaries of arXiv:1912.07503 as quoted in the docstrings of "
        "core_strategies.py; for the corollaries documented only as 'TODO' (5.4-10.5) the shape condition is the one "
        "named by the helper the strategy calls, restated with independent definitions; 'one plus' is required for all "
        "(property statement)",
        "the basis is taken as given (not reduced to its minimal elements): 'every other basis element' ranges over the "
        "set passed in",
        "Av refuses the empty basis and the empty permutation by design: such bases are not in the domain",
        "InsertionEncodingStrategy oracle = C13 spec; FinitelyManySimplesStrategy oracle = C16 oracle (geometric families "
        "+ has_finite_pinperms, C15)",
    ]
    from props import dlayer

    dlayer.run(ctx, "C19")
