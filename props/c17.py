"""C17 - BiSC output describes its input: sound up to n, complete up to m, irredundant.

B layer (bounded stand-in).  Contracts, all evaluated on the real code and compared
with the mesh-containment definition of specs.core (through the table-driven
evaluation specs.meshfast, which is cross-checked against specs.core at start-up):

  C17.bisc             soundness / completeness / irredundancy of bisc(A, m, n) and
                       equality of the output for list / dict / defaultdict /
                       predicate input (and order independence as a set of patterns)
  C17.own_containment  perm_contains_cl_patt(s)_many_shadings == definition
  C17.max_mesh         maximal_mesh_pattern_of_occurrence == cells without a point
  C17.suffice          patterns_suffice_for_good / _bad verdicts and witnesses
  C17.cleanup          run_clean_up bases still occur in every bad perm tested;
                       to_sg_format is a faithful conversion
  C17.auto_bisc        (thorough) avoiding auto_bisc(prop) == prop on S_0..S_8
"""
import contextlib
import io
import itertools
from collections import defaultdict

from specs import core as S
from specs import meshfast as F
from vlib import domains as D
from vlib.core import CaseTimeout, bad, check, ok

LEVEL = "exploration"

MAX_MONITORS = 3000  # resource bounds for the clean-up phase (product of #shadings on the first level,
MAX_PATTERNS_CLEANUP = 12  # total number of learned patterns)


def _quiet(fn, *args, **kwargs):
    with contextlib.redirect_stdout(io.StringIO()):
        return fn(*args, **kwargs)


def _key(p):
    return (len(p), tuple(p))


def _learned(SG):
    """[(pattern tuple, frozenset of cells)] in the order of the output."""
    return [(tuple(p), frozenset(tuple(c) for c in sh)) for k in SG for p in SG[k] for sh in SG[k][p]]


def _normal(SG):
    return frozenset(_learned(SG))


def _shape_problem(SG, m=None):
    from permuta import Perm

    if not isinstance(SG, dict):
        return f"output is a {type(SG).__name__}, not a dict"
    for k, d in SG.items():
        if not isinstance(k, int) or k < 0 or (m is not None and k > m):
            return f"key {k!r} is not a pattern length in 0..m"
        if not isinstance(d, dict):
            return f"SG[{k}] is not a dict"
        for p, shs in d.items():
            if not isinstance(p, Perm) or len(p) != k:
                return f"SG[{k}] has key {p!r} which is not a Perm of length {k}"
            if not isinstance(shs, list) or not shs:
                return f"SG[{k}][{p!r}] is not a non-empty list of shadings"
            for sh in shs:
                if not isinstance(sh, (set, frozenset)):
                    return f"shading {sh!r} is not a set"
                for c in sh:
                    if not (isinstance(c, tuple) and len(c) == 2 and all(isinstance(v, int) and 0 <= v <= k for v in c)):
                        return f"cell {c!r} is not a cell of the {k + 1}x{k + 1} grid"
            if len({frozenset(sh) for sh in shs}) != len(shs):
                return f"SG[{k}][{p!r}] lists a shading twice"
    return None


def _contains_any(t, learned):
    return any(F.contains(t, q) for q in learned)


# --------------------------------------------------------------------- C17.bisc
@check("C17.bisc")
def bisc_contract(item):
    from permuta.bisc.bisc import bisc

    A, m, n = item
    A = sorted(A, key=_key)  # (length, lexicographic): the order in which a predicate is enumerated
    before = list(A)
    SG = _quiet(bisc, A, m, n)
    if A != before:
        return bad(before, A, "bisc mutated its input list")
    prob = _shape_problem(SG, m)
    if prob:
        return bad("dict {length: {Perm: [set of cells, ...]}}", SG, prob)
    learned = _learned(SG)
    aset = {tuple(a) for a in A}
    good = [tuple(a) for a in A if len(a) <= n]
    n_upto = sum(1 for _ in S.perms_upto(n))
    nt = bool(learned) and 0 < len(good) < n_upto
    # (1) soundness
    for a in good:
        for q in learned:
            if F.contains(a, q):
                return bad(f"{a} in A avoids every learned pattern", f"{a} contains learned {q}", "soundness (|a| <= n)", nt)
    # (2) completeness
    for p in S.perms_upto(m):
        if p not in aset and not _contains_any(p, learned):
            return bad(f"{p} (not in A, length <= m={m}) contains a learned pattern",
                       f"it avoids all of {learned}", "completeness", nt)
    # (3) irredundancy
    for (p, R) in learned:
        for c in sorted(R):
            red = (p, R - {c})
            if any(F.contains(a, red) for a in good):
                continue
            bound = len(p) + 2
            cont = F.containers(red, bound)
            if any(len(q[0]) < len(p) and cont <= F.containers(q, bound) for q in learned):
                continue
            return bad(f"learned {(p, sorted(R))} without cell {c} occurs in a member of A (|a| <= n) or is implied by a shorter learned pattern",
                       "neither", "irredundancy of the shading", nt)
    # (5) representations
    top = max([n] + [len(a) for a in A])
    as_dict = {k: [a for a in A if len(a) == k] for k in range(top + 1)}
    snapshot = {k: list(v) for k, v in as_dict.items()}
    as_dd = defaultdict(list)
    for a in A:
        as_dd[len(a)].append(a)
    members = frozenset(A)
    variants = {
        "dict with every length 0..max as key": _quiet(bisc, as_dict, m, n),
        "defaultdict(list)": _quiet(bisc, as_dd, m, n),
        "predicate (lambda)": _quiet(bisc, lambda perm: perm in members, m, n),
    }
    if as_dict != snapshot:
        return bad(snapshot, as_dict, "bisc mutated its input dict", nt)
    if A and top == n:
        variants["list, n omitted (n = longest member)"] = _quiet(bisc, list(A), m)
    for name, other in variants.items():
        if other != SG:
            return bad(SG, other, f"output for the same set given as {name} differs from the list output", nt)
    # (6) histories: ONE predicate object asked repeatedly with growing (and then repeated, then smaller) n must answer each
    # time like the list input with the same (m, n) - whatever bisc remembers about a predicate must not leak
    pred = lambda perm: perm in members  # noqa: E731 - the same function object for every call below
    for k in ([n - 1] if n >= 1 else []) + [n, n] + ([n - 1] if n >= 1 else []):
        mk = min(m, k)
        want = SG if (mk, k) == (m, n) else _quiet(bisc, list(A), mk, k)
        got = _quiet(bisc, pred, mk, k)
        if got != want:
            return bad(want, got, f"the same predicate object asked again (call with m={mk}, n={k} in the sequence n-1, n, n, n-1) "
                                  f"answers differently from the list input", nt)
    rev = _quiet(bisc, list(reversed(A)), m, n)
    if _normal(rev) != _normal(SG):
        return bad(sorted(_normal(SG)), sorted(_normal(rev)), "set of learned patterns depends on the order of the input list", nt)
    return ok(nt)


# ---------------------------------------------------------- C17.own_containment
@check("C17.own_containment")
def own_containment(item):
    from permuta.bisc.bisc_subfunctions import (
        perm_contains_cl_patt_many_shadings,
        perm_contains_cl_patts_many_shadings,
    )

    SG, maxlen = item
    learned = _learned(SG)
    seen = set()
    for perm in D.perms_upto(maxlen):
        t = tuple(perm)
        want = _contains_any(t, learned)
        seen.add(want)
        got = perm_contains_cl_patts_many_shadings(perm, SG)
        if got is not want:
            return bad(want, got, f"perm_contains_cl_patts_many_shadings({t}, SG) vs mesh containment by definition")
        for k in SG:
            for p, shs in SG[k].items():
                w = any(F.contains(t, (tuple(p), frozenset(sh))) for sh in shs)
                g = perm_contains_cl_patt_many_shadings(perm, p, shs)
                if g is not w:
                    return bad(w, g, f"perm_contains_cl_patt_many_shadings({t}, {tuple(p)}, {shs})")
    return ok(len(seen) == 2)


# ------------------------------------------------------------------ C17.max_mesh
@check("C17.max_mesh")
def max_mesh(perm):
    from permuta.bisc.bisc_subfunctions import maximal_mesh_pattern_of_occurrence

    t = tuple(perm)
    n = len(t)
    proper = False
    for k in range(n + 1):
        for occ in itertools.combinations(range(n), k):
            want = {
                (x, y)
                for x in range(k + 1)
                for y in range(k + 1)
                if S.mesh_occurrence_ok(occ, {(x, y)}, t)
            }
            got = maximal_mesh_pattern_of_occurrence(perm, occ)
            if not isinstance(got, (set, frozenset)) or set(got) != want:
                return bad(sorted(want), got, f"maximal_mesh_pattern_of_occurrence({t}, {occ}): cells of the grid holding no other point")
            proper = proper or 0 < len(want) < (k + 1) ** 2
            if got != maximal_mesh_pattern_of_occurrence(perm, list(occ)):
                return bad(got, "different", "occurrence given as a list")
    return ok(proper)


# ------------------------------------------------------------------- C17.suffice
@check("C17.suffice")
def suffice(item):
    from permuta.bisc.bisc_subfunctions import patterns_suffice_for_bad, patterns_suffice_for_good

    SG, L, perms_by_len, stop = item
    learned = _learned(SG)
    keys_ok = all(k in perms_by_len for k in range(L + 1))
    pool = [p for k in range(L + 1) for p in perms_by_len.get(k, [])]
    hits = [p for p in pool if _contains_any(tuple(p), learned)]
    misses = [p for p in pool if not _contains_any(tuple(p), learned)]
    for name, fn, offenders in (
        ("patterns_suffice_for_good", patterns_suffice_for_good, hits),
        ("patterns_suffice_for_bad", patterns_suffice_for_bad, misses),
    ):
        res = _quiet(fn, SG, L, perms_by_len, stop_on_failure=stop)
        if not (isinstance(res, tuple) and len(res) == 2 and isinstance(res[0], bool) and isinstance(res[1], list)):
            return bad("(bool, list)", res, name)
        val, wit = res
        want = keys_ok and not offenders
        if val is not want:
            return bad(want, res, f"{name}: verdict (every length 0..L present and no offending permutation)")
        if val and wit:
            return bad((True, []), res, f"{name}: witnesses although the check passed")
        for w in wit:
            if w not in offenders:
                return bad(f"witnesses among {offenders}", res, f"{name}: {w} is not an offending permutation of length <= L")
        if not val and keys_ok and not wit:
            return bad("a non-empty witness list", res, f"{name}: failed without witnesses although all lengths are present")
        if stop and len(wit) > 1:
            return bad("one witness", res, f"{name}: stop_on_failure")
    return ok(bool(learned) and bool(hits) and bool(misses))


# ------------------------------------------------------------------- C17.cleanup
def _monitor_count(SG):
    if not SG:
        return 0
    first = SG[min(SG.keys())]
    mult = 1
    for shs in first.values():
        mult *= len(shs)
    return mult


def _cleanup_applicable(SG):
    """run_clean_up needs a learned pattern; its monitor list starts as the product of the
    numbers of shadings on the shortest level and every failing monitor is extended by
    every 'savior' pattern, so the checker only feeds it small outputs (resource bound)."""
    return (bool(SG) and any(SG[k] for k in SG) and _monitor_count(SG) <= MAX_MONITORS
            and sum(len(v) for k in SG for v in SG[k].values()) <= MAX_PATTERNS_CLEANUP)


@check("C17.cleanup")
def cleanup(item):
    from permuta.bisc.bisc import bisc
    from permuta.bisc.bisc_subfunctions import run_clean_up, to_sg_format

    A, m, n, bm, limit_mode, thin = item
    A = sorted(A, key=_key)
    SG = _quiet(bisc, A, m, n)
    if not _cleanup_applicable(SG):
        return ok(False)
    members = set(A)
    B = {k: [p for j, p in enumerate(D.perms(k)) if p not in members and (not thin or (j + k) % thin)] for k in range(bm + 1)}
    lo = min(SG.keys())
    limit = 0 if limit_mode == 0 else len(SG[lo]) + (limit_mode - 1)
    try:
        bases, numbs = _quiet(run_clean_up, SG, B, bm, limit_monitors=limit)
    except CaseTimeout:
        # the monitor list of clean_up can grow exponentially; the property makes no claim
        # about running time, so an unfinished clean-up decides nothing (counted as trivial)
        return ok(False)
    learned = _normal(SG)
    table = {k: (tuple(v[0]), frozenset(v[1])) for k, v in numbs.items()}
    if set(table.values()) != set(learned) or len(table) != len(learned):
        return bad(sorted(learned), sorted(table.values()), "dict_numbs_to_patts does not enumerate the learned patterns one to one")
    for key, (p, _sh) in table.items():
        if not (isinstance(key, tuple) and len(key) == 3 and key[0] == len(p)):
            return bad("(length, pattern number, shading number)", key, "key of dict_numbs_to_patts")
    if not isinstance(bases, list):
        return bad("a list of bases", bases, "run_clean_up")
    for basis in bases:
        if any(i not in table for i in basis):
            return bad("indices of dict_numbs_to_patts", basis, "basis refers to unknown patterns")
        sg = to_sg_format(basis, numbs)
        prob = _shape_problem(sg)
        if prob:
            return bad("SG format", sg, "to_sg_format: " + prob)
        chosen = [table[i] for i in basis]
        if sorted(_learned(sg)) != sorted(chosen):
            return bad(sorted(chosen), sorted(_learned(sg)), "to_sg_format(basis) is not the listed patterns")
        for length in range(lo + 1, bm + 1):
            for b in B[length]:
                if not _contains_any(tuple(b), chosen):
                    return bad(f"basis {sorted(chosen)} occurs in the tested bad permutation {tuple(b)}", "it is avoided",
                               f"run_clean_up(SG, B, {bm}, limit_monitors={limit})")
    return ok(bool(bases))


# ----------------------------------------------------------------- C17.auto_bisc
def _av231(perm):
    from permuta import Perm

    return perm.avoids(Perm((1, 2, 0)))


def _predicates():
    from permuta import Perm
    from permuta.bisc import perm_properties as PP

    return {
        "smooth": PP.smooth,
        "forest_like": PP.forest_like,
        "baxter": PP.baxter,
        "simsun": PP.simsun,
        "av_231": _av231,
        "av_231_lambda": lambda perm: perm.avoids(Perm((1, 2, 0))),
        "stack_sortable": Perm.stack_sortable,
        "west_2_stack_sortable": Perm.west_2_stack_sortable,
        "hard_mesh": PP.hard_mesh,
        "dihedral": PP.dihedral,
        "in_alternating_group": PP.in_alternating_group,
        "yt_perm_avoids_22": PP.yt_perm_avoids_22,
    }


@check("C17.auto_bisc")
def auto(item):
    from permuta import MeshPatt
    from permuta.bisc.bisc import auto_bisc

    name, upto = item
    prop = _predicates()[name]
    sg = _quiet(auto_bisc, prop)
    if sg is None:
        return ok(False)  # the driver gave up: the property says nothing
    prob = _shape_problem(sg)
    if prob:
        return bad("SG format", sg, "auto_bisc: " + prob)
    learned = _learned(sg)
    real = [MeshPatt(p, sh) for k in sg for p in sg[k] for sh in sg[k][p]]
    j = 0
    for perm in D.perms_upto(upto):
        t = tuple(perm)
        want = bool(prop(perm))
        got = not _contains_any(t, learned)
        if got is not want:
            return bad(f"prop({t}) = {want}", f"avoids the returned patterns {learned}: {got}", f"auto_bisc({name}) on S_0..S_{upto}")
        j += 1
        if j % 97 == 0 and perm.avoids(*real) is not got:
            return bad(got, not got, f"Perm.avoids(MeshPatt) differs from the definition on {t} (C03)")
    return ok(True)


# ------------------------------------------------------------------------ inputs
def _universe(maxlen):
    return D.perms_upto(maxlen)


def _seeded_sets(rng, count, maxlen=5):
    """Sets of permutations up to `maxlen` that are not only pattern classes."""
    U = _universe(maxlen)
    tuples = [tuple(p) for p in U]
    Perm = D.P()
    out = []
    kinds = ("random", "class", "meshclass", "complement", "class-1", "class+1", "level")
    for j in range(count):
        kind = kinds[j % len(kinds)]
        if kind == "random":
            dens = rng.choice((0.1, 0.3, 0.5, 0.7, 0.9))
            chosen = [t for t in tuples if rng.random() < dens]
        elif kind == "level":
            # different density on every length (not downward closed in any sense)
            dens = [rng.choice((0.0, 0.2, 0.5, 0.8, 1.0)) for _ in range(maxlen + 1)]
            chosen = [t for t in tuples if rng.random() < dens[len(t)]]
        else:
            if kind == "meshclass":
                k = rng.choice((2, 3))
                basis = [(tuple(rng.sample(range(k), k)), D.random_shading(rng, k))]
                if rng.random() < 0.4:
                    k2 = rng.choice((2, 3, 4))
                    basis.append(tuple(rng.sample(range(k2), k2)))
            else:
                basis = []
                for _ in range(rng.choice((1, 1, 2, 3))):
                    k = rng.choice((2, 3, 3, 4))
                    basis.append(tuple(rng.sample(range(k), k)))
            cls = [t for t in tuples if not any(F.contains(t, b) if S.is_mesh(b) else S.contains(t, b) for b in basis)]
            if kind in ("class", "meshclass"):
                chosen = cls
            elif kind == "complement":
                inside = set(cls)
                chosen = [t for t in tuples if t not in inside]
            elif kind == "class-1":
                chosen = list(cls)
                if chosen:
                    chosen.remove(rng.choice(chosen))
            else:
                inside = set(cls)
                rest = [t for t in tuples if t not in inside]
                chosen = list(cls) + ([rng.choice(rest)] if rest else [])
        mn = rng.choice(((2, 4), (3, 4), (3, 5), (4, 5)))
        out.append((tuple(Perm(t) for t in sorted(chosen, key=_key)), mn[0], mn[1]))
    return out


def _random_sg(rng):
    Perm = D.P()
    sg = {}
    for k in sorted(rng.sample(range(5), rng.choice((1, 1, 2, 3)))):
        d = {}
        for _ in range(rng.choice((1, 2, 3))):
            p = Perm(rng.sample(range(k), k))
            shs = []
            for _ in range(rng.choice((0, 1, 1, 2, 3)) if rng.random() < 0.15 else rng.choice((1, 2, 3))):
                sh = set(D.random_shading(rng, k, rng.choice((0.0, 0.1, 0.25, 0.5))))
                if sh not in shs:
                    shs.append(sh)
            d[p] = shs
        sg[k] = d
    return sg


def _freeze(SG):
    return tuple(sorted((k, tuple(p), tuple(sorted(tuple(sorted(sh)) for sh in shs))) for k in SG for p, shs in SG[k].items()))


def _try_bisc(A, m, n):
    """bisc in the main process, only to *select* inputs for the other checks: a crash of
    the code under test here is not the checker's crash (C17.bisc reports it)."""
    from permuta.bisc.bisc import bisc

    try:
        SG = _quiet(bisc, list(A), m, n)
    except Exception:  # noqa: BLE001
        return None
    return SG if _shape_problem(SG) is None else None


def run(ctx):
    quick = ctx.tier == "quick"
    rng = D.subrng(ctx, "c17")
    F.selfcheck(D.subrng(ctx, "c17-spec"), count=24 if quick else 120)
    # warm the occurrence tables before the pool forks
    for p in S.perms_upto(3):
        F.table(p, 5)
    Perm = D.P()
    # ---------------------------------------------------------------- bisc: exhaustive small universe
    U3 = D.perms_upto(3)
    mns = [(2, 3), (3, 3), (1, 2)] if quick else [(m, n) for n in (1, 2, 3) for m in range(1, n + 1)]
    small = []
    for bits in range(1 << len(U3)):
        A = tuple(p for i, p in enumerate(U3) if bits >> i & 1)
        for (m, n) in mns:
            small.append((A, m, n))
    ctx.run("C17.bisc", small, chunk=48, timeout_s=60,
            rule=f"ALL {1 << len(U3)} subsets A of S0..S3 x (m,n) in {mns}; non-trivial = at least one learned pattern "
                 f"and A (up to n) neither empty nor everything")
    ctx.add_sample("C17.bisc", (tuple(Perm(t) for t in [(), (0,), (0, 1), (0, 1, 2), (0, 2, 1), (1, 0, 2)]), 2, 3))
    # ---------------------------------------------------------------- bisc: seeded sets up to length 5
    seeded = _seeded_sets(rng, 154 if quick else 2002)
    ctx.run("C17.bisc", seeded, chunk=2, timeout_s=240,
            rule=f"{len(seeded)} seeded sets of perms <= 5 (random subsets, per-length densities, Av(classical), Av(mesh), "
                 f"complements, class minus one, class plus one) x (m,n) in (2,4),(3,4),(3,5),(4,5)")
    ctx.exhaustive = False
    # ---------------------------------------------------------------- own containment
    distinct = {}
    for (A, m, n) in small:
        SG = _try_bisc(A, m, n)
        if SG is not None:
            distinct.setdefault(_freeze(SG), SG)
    for (A, m, n) in seeded[: 40 if quick else 300]:
        SG = _try_bisc(A, m, n)
        if SG is not None and sum(len(v) for k in SG for v in SG[k].values()) <= 80:
            distinct.setdefault(_freeze(SG), SG)
    learned_sgs = list(distinct.values())
    synthetic = [{}, {0: {Perm(()): [set()]}}, {0: {Perm(()): [{(0, 0)}]}}, {1: {Perm((0,)): []}}]
    synthetic += [_random_sg(rng) for _ in range(150 if quick else 1500)]
    ml = 5 if quick else 6
    pool = learned_sgs if not quick else rng.sample(learned_sgs, min(len(learned_sgs), 400))
    ctx.run("C17.own_containment", [(sg, ml) for sg in pool + synthetic], chunk=6, timeout_s=300,
            rule=f"{len(pool)} distinct outputs of bisc (of {len(learned_sgs)} seen) + {len(synthetic)} seeded SG-shaped dictionaries "
                 f"(lengths 0-4, several shadings, empty pattern) x all perms <= {ml}; non-trivial = both answers occur")
    # ---------------------------------------------------------------- maximal mesh pattern
    ctx.run("C17.max_mesh", D.perms_upto(6), chunk=30,
            rule="all perms <= 6 x all index subsets (as tuple and list); non-trivial = some cell occupied and some free")
    # ---------------------------------------------------------------- sanity checks
    suff = []
    sgs_for_suff = rng.sample(learned_sgs, min(len(learned_sgs), 60 if quick else 400)) + synthetic[: 40 if quick else 300]
    U4 = D.perms_upto(4)
    for sg in sgs_for_suff:
        for _ in range(2):
            L = rng.choice((1, 2, 3, 4))
            dens = rng.choice((0.15, 0.5, 0.85))
            by = {k: [] for k in range(5)}
            for p in U4:
                if rng.random() < dens:
                    by[len(p)].append(p)
            if rng.random() < 0.2:
                del by[rng.choice(range(5))]
            lrn = _learned(sg)
            mode = rng.choice(("any", "any", "any", "hits", "misses"))
            if mode != "any":
                by = {k: [p for p in v if _contains_any(tuple(p), lrn) == (mode == "hits")] for k, v in by.items()}
            suff.append((sg, L, by, rng.random() < 0.5))
    ctx.run("C17.suffice", suff, chunk=8,
            rule="learned and synthetic SG x L in 1..4 x seeded dictionaries of perms <= 4 (all / only containing / only avoiding, "
                 "20% with a missing length) x stop_on_failure; non-trivial = both kinds of permutation present")
    # ---------------------------------------------------------------- clean-up
    cands = []
    for (A, m, n) in seeded + [small[i] for i in rng.sample(range(len(small)), 900 if quick else 4000)]:
        SG = _try_bisc(A, m, n)
        if SG is not None and _cleanup_applicable(SG):
            cands.append((A, m, n))
        if len(cands) >= (1200 if quick else 5000):
            break
    rng.shuffle(cands)
    clean = []
    # (widened after seeded change C17_c - a stale per-permutation flag in clean_up - was missed: it needs
    # learned patterns on two lengths and a particular order of the bad permutations; most inputs take
    # milliseconds, the few whose monitor lists blow up are cut off and counted as trivial)
    for (A, m, n) in cands[: 400 if quick else 1600]:
        bm = rng.choice((n, n, min(n + 1, 5)))
        clean.append((A, m, n, bm, rng.choice((0, 0, 0, 1, 2)), rng.choice((0, 0, 0, 3))))
    # structured family: the empty and the one-point permutation, a non-empty set of length-2 permutations, at most
    # two of length 3, nothing of length 4; learned and cleaned up to length 4 against the FULL complement
    # (patterns on several lengths, many bad permutations per length)
    P2, P3 = list(D.perms(2)), list(D.perms(3))
    fam = []
    for k2 in (1, 2):
        for c2 in itertools.combinations(P2, k2):
            for k3 in (0, 1, 2):
                for c3 in itertools.combinations(P3, k3):
                    fam.append((list(D.perms(0)) + list(D.perms(1)) + list(c2) + list(c3), 4, 4, 4, 0, 0))
    clean += fam if not quick else fam
    if clean:
        ctx.run("C17.cleanup", clean, chunk=4, timeout_s=45,
                rule=f"{len(clean)} seeded (A, m, n) with a learned pattern, <= {MAX_PATTERNS_CLEANUP} learned patterns and <= "
                     f"{MAX_MONITORS} initial monitors; B = complement of A up to bm in (n, n+1) (or two thirds of it), "
                     f"limit_monitors in (0, #patterns, #patterns+1); non-trivial = a basis is returned")
    else:
        ctx.notes["C17.cleanup"] = "no applicable input (bisc produced no usable output in the main process)"
    # ---------------------------------------------------------------- automatic driver
    if quick:
        autos = [("av_231_lambda", 7), ("simsun", 7)]
    else:
        autos = [(nm, 8) for nm in ("dihedral", "hard_mesh", "yt_perm_avoids_22", "smooth", "forest_like", "baxter", "simsun",
                                    "av_231", "av_231_lambda", "stack_sortable", "west_2_stack_sortable")]
    ctx.run("C17.auto_bisc", autos, chunk=1, timeout_s=1500,
            rule=f"auto_bisc on {len(autos)} predicates (FunctionType; classical, mesh and non-hereditary ones): result vs predicate "
                 f"on ALL perms <= {autos[0][1]} by the spec definition (the driver itself sanity-checks on S8); every 97th perm also "
                 f"cross-checks the real Perm.avoids(MeshPatt); non-trivial = a description was returned")
    ctx.assumptions += [
        "B layer: bounded. bisc: exhaustive over all subsets of S0..S3 for the listed (m, n); seeded for sets of perms <= 5",
        "mesh containment = specs.core definition, evaluated through specs.meshfast (occupied-cell tables); the two are "
        "compared on seeded mesh patterns at every start-up",
        "irredundancy clause: 'implied by a shorter learned pattern' is evaluated as inclusion of container sets over all "
        "perms <= len(pattern)+2 (an over-approximation of implication: can only hide, never invent, a failure)",
        "a dict input is required to have every length 0..n as a key (mine() indexes goodperms[j] unconditionally)",
        f"run_clean_up is only exercised when the product of shadings on the shortest level is <= {MAX_MONITORS} (its monitor list "
        "is that product; resource bound of the checker, not of the property)",
        "patterns_suffice_*: verdict is asserted exactly; the witness list only as 'genuine offending permutations, non-empty, "
        "one element under stop_on_failure' (no docstring promises more)",
    ]
    from props import dlayer

    dlayer.run(ctx, "C17")
