"""C13 - finiteness, polynomial growth and insertion-encodability verdicts.

B layer (bounded stand-in).  The six verdict functions of permuta.permutils, the
three Av methods and the two CLI commands are compared with the structure theorems
written as definitions in specs/growth.py, over all small bases, in every container
form, after arbitrary earlier calls (process-wide memo tables), under the eight
symmetries, and against the real counting sequence of Av(B).
"""
import argparse
import collections
import contextlib
import io
import itertools

from specs import core as S
from specs import growth as G
from vlib import domains as D
from vlib.core import bad, check, ok

LEVEL = "exploration"

FUNCS = (
    "is_finite",
    "is_polynomial",
    "is_non_polynomial",
    "is_insertion_encodable_rightmost",
    "is_insertion_encodable_maximum",
    "is_insertion_encodable",
)
SPEC = {
    "is_finite": G.spec_is_finite,
    "is_polynomial": G.spec_is_polynomial,
    "is_non_polynomial": lambda b: not G.spec_is_polynomial(b),
    "is_insertion_encodable_rightmost": G.spec_rightmost,
    "is_insertion_encodable_maximum": G.spec_maximum,
    "is_insertion_encodable": G.spec_insertion_encodable,
}
KINDS = ("list", "tuple", "set", "frozenset", "generator", "iter", "Basis", "deque", "dict_keys")


_LOCK_PID = None


def _own_av_lock():
    """Av._CACHE_LOCK is a multiprocessing.Lock created at import time; forked pool
    workers inherit the *same* OS semaphore, which serialises every Av query across
    all workers of the pool.  Each process gets its own lock (what a freshly started
    interpreter has); behaviour inside one process is unchanged."""
    global _LOCK_PID
    import multiprocessing
    import os

    if _LOCK_PID != os.getpid():
        from permuta import Av

        Av._CACHE_LOCK = multiprocessing.Lock()
        _LOCK_PID = os.getpid()


def _fn(name):
    from permuta import permutils

    return getattr(permutils, name)


def _clear_memo():
    from permuta.permutils import InsertionEncodablePerms, PolyPerms

    PolyPerms._CACHE.clear()
    InsertionEncodablePerms._CACHE.clear()


def _fresh(perms):
    """New Perm objects of equal value (no shared per-object state)."""
    Perm = D.P()
    return [Perm(tuple(p)) for p in perms]


def _container(kind, perms):
    from permuta import Basis

    perms = _fresh(perms)
    if kind == "list":
        return list(perms)
    if kind == "tuple":
        return tuple(perms)
    if kind == "set":
        return set(perms)
    if kind == "frozenset":
        return frozenset(perms)
    if kind == "generator":
        return (p for p in perms)
    if kind == "iter":
        return iter(list(perms))
    if kind == "Basis":
        return Basis(*perms)
    if kind == "deque":
        return collections.deque(perms)
    if kind == "dict_keys":
        return dict.fromkeys(perms).keys()
    raise KeyError(kind)


def _tuples(perms):
    return sorted({S.to_spec(p) for p in perms}, key=lambda t: (len(t), t))


# ------------------------------------------------------------- spec self-check
@check("C13.spec.classes")
def spec_classes(item):
    """The split definitions of the eight juxtaposition classes coincide with the
    pattern-avoidance descriptions of Albert-Linton-Ruskuc / Atkinson, the classes
    are closed downwards and under the expected symmetries, and every one of the ten
    has at least fib_lower_bound(n) members of length n."""
    name, n = item
    member = G.TEN[name]
    lit = {**G.ALR_MAXIMUM, **G.ATKINSON_HORIZONTAL}.get(name)
    count = 0
    for p in S.all_perms(n):
        m = member(p)
        count += m
        if lit is not None and m != S.avoids_all(p, lit):
            return bad(S.avoids_all(p, lit), m, f"{name}: split definition vs literature basis on {p}")
        if m and n >= 1:
            for i in range(n):
                q = S.std(p[:i] + p[i + 1:])
                if not member(q):
                    return bad(True, False, f"{name} not closed downwards: {p} -> {q}")
        if name.startswith("Winv"):
            inv = S.sym_perm("inverse", p)
            if m != G.TEN["W" + name[4:]](inv):
                return bad(m, not m, f"{name} is not the inverse image of W{name[4:]} at {p}")
    if count < G.fib_lower_bound(n):
        return bad(f">= {G.fib_lower_bound(n)}", count, f"{name} has fewer than Fibonacci-many members of length {n}")
    return ok(n >= 3)


# ------------------------------------------------- verdicts, plain list input
def _make_verdict(fname):
    @check(f"C13.verdict.{fname}")
    def verdict(basis):
        want = SPEC[fname](_tuples(basis))
        got = _fn(fname)(list(_fresh(basis)))
        nt = len(basis) >= 1
        if got is not want:
            return bad(want, got, f"permutils.{fname}(list) vs the structure theorem")
        return ok(nt)

    return verdict


# ------------------------------------------------- verdicts, any container
def _make_container(fname):
    @check(f"C13.container.{fname}")
    def container(item):
        kind, perms = item
        want = SPEC[fname](_tuples(perms))
        got = _fn(fname)(_container(kind, perms))
        nt = len(set(perms)) >= 2
        if got is not want:
            return bad(want, got, f"permutils.{fname}({kind} of {len(perms)} perms) depends on more than set(B)")
        return ok(nt)

    return container


for _f in FUNCS:
    _make_verdict(_f)
    _make_container(_f)


# ------------------------------------------------------------ Av methods
@check("C13.av_methods")
def av_methods(item):
    _own_av_lock()
    how, perms = item
    from permuta import Av, Basis

    b = _tuples(perms)
    want = (G.spec_is_finite(b), G.spec_is_polynomial(b), G.spec_insertion_encodable(b))
    Av.clear_cache()
    fresh = _fresh(perms)
    if how == "Basis":
        av = Av(Basis(*fresh))
    elif how == "list":
        av = Av(list(fresh))
    elif how == "generator":
        av = Av(p for p in fresh)
    elif how == "from_iterable":
        av = Av.from_iterable(iter(fresh))
    elif how == "from_string":
        av = Av.from_string("_".join("".join(str(v) for v in p) for p in fresh))
    elif how == "warm":  # the instance has been enumerated before it is asked
        av = Av(Basis(*fresh))
        av.count(4)
    else:
        raise KeyError(how)
    got = (av.is_finite(), av.is_polynomial(), av.is_insertion_encodable())
    again = (av.is_finite(), av.is_polynomial(), av.is_insertion_encodable())
    if got != want or any(type(g) is not bool for g in got):
        return bad(want, got, f"Av (built via {how}) (is_finite, is_polynomial, is_insertion_encodable)")
    if again != want:
        return bad(want, again, "Av verdicts changed on the second call")
    return ok(len(set(want)) > 1 or len(b) > 1)


# ------------------------------------------------------------------- CLI
def _basis_string(perms, sep="_"):
    return sep.join("".join(str(v) for v in p) for p in perms)


def _cli(func_name, sub, string):
    from permuta import cli

    out1, out2 = io.StringIO(), io.StringIO()
    with contextlib.redirect_stdout(out1):
        getattr(cli, func_name)(argparse.Namespace(basis=string))
    with contextlib.redirect_stdout(out2):
        args = cli.get_parser().parse_args([sub, string])
        args.func(args)
    return out1.getvalue(), out2.getvalue()


@check("C13.cli.poly")
def cli_poly(item):
    _own_av_lock()
    perms, sep = item
    want = G.spec_is_polynomial(_tuples(perms))
    direct, parsed = _cli("has_poly_growth", "poly", _basis_string(perms, sep))
    if direct != parsed:
        return bad(direct, parsed, "permtools poly: parser route prints something else than the function")
    lines = direct.splitlines()
    got = None
    if len(lines) == 1 and lines[0].endswith(" is not polynomial"):
        got = False
    elif len(lines) == 1 and lines[0].endswith(" is polynomial"):
        got = True
    if got is not want:
        return bad(f"one line ending in 'is {'' if want else 'not '}polynomial'", direct, "permtools poly output")
    return ok(True)


@check("C13.cli.insenc")
def cli_insenc(item):
    _own_av_lock()
    perms, sep = item
    b = _tuples(perms)
    direct, parsed = _cli("has_regular_insertion_encoding", "insenc", _basis_string(perms, sep))
    if direct != parsed:
        return bad(direct, parsed, "permtools insenc: parser route prints something else than the function")
    lines = direct.splitlines()
    got = (
        sum("has a regular topmost insertion encoding" in ln for ln in lines),
        sum("has a regular rightmost insertion encoding" in ln for ln in lines),
        sum("does not have a regular insertion encoding" in ln for ln in lines),
    )
    mx, rm = G.spec_maximum(b), G.spec_rightmost(b)
    want = (int(mx), int(rm), int(not (mx or rm)))
    if got != want or len(lines) != sum(want):
        return bad(f"(topmost, rightmost, none) lines = {want}", direct, "permtools insenc output")
    return ok(mx != rm or len(b) > 1)


# ------------------------------------------------------ histories (memo tables)
@check("C13.history")
def history(ops):
    """A sequence of calls in one process starting from cold memo tables; every
    answer must be the one dictated by the theorem, whatever was asked before,
    also when the same questions are asked again in reverse order."""
    _clear_memo()
    results = []
    for j, (fname, perms) in enumerate(ops):
        want = SPEC[fname](_tuples(perms))
        got = _fn(fname)(list(_fresh(perms)))
        results.append(got)
        if got is not want:
            return bad(want, got, f"call #{j} {fname} after {j} earlier calls (cold start)")
    for j, (fname, perms) in reversed(list(enumerate(ops))):
        got = _fn(fname)(tuple(_fresh(perms)))
        if got is not results[j]:
            return bad(results[j], got, f"call #{j} {fname} repeated with warm memo tables")
    return ok(len(ops) > 1)


@check("C13.memo")
def memo(item):
    """cold / warmed with unrelated permutations / warmed with the symmetric images
    of the basis / warmed with the basis itself: identical verdicts."""
    basis, others = item
    Perm = D.P()
    b = _tuples(basis)
    want = tuple(SPEC[f](b) for f in FUNCS)

    def ask():
        return tuple(_fn(f)(list(_fresh(basis))) for f in FUNCS)

    _clear_memo()
    cold = ask()
    if cold != want:
        return bad(want, cold, "cold memo tables")
    _clear_memo()
    for f in FUNCS:
        _fn(f)(list(_fresh(others)))
    warm_other = ask()
    if warm_other != want:
        return bad(want, warm_other, "memo tables warmed with other permutations")
    _clear_memo()
    for s in S.SYMS:
        img = [Perm(S.sym_perm(s, t)) for t in b]
        for f in FUNCS:
            _fn(f)(img)
    warm_sym = ask()
    if warm_sym != want:
        return bad(want, warm_sym, "memo tables warmed with the symmetric images of the basis")
    warm_self = ask()
    if warm_self != want:
        return bad(want, warm_self, "memo tables warmed with the basis itself")
    return ok(len(b) >= 1)


# ------------------------------------------------------------- symmetries
POLY_CAP = 30000
KEEP_HORIZONTAL = ("id", "reverse", "complement", "r2")


@check("C13.symmetry")
def symmetry(basis):
    """finite / polynomial / insertion-encodable are invariant under all eight
    symmetries.  The rightmost and maximum variants are invariant under the four
    symmetries that map columns to columns (id, reverse, complement, rotation by
    180) and are exchanged by the other four (which swap positions and values);
    nothing more is claimed by the theorems."""
    Perm = D.P()
    b = _tuples(basis)
    base = {f: _fn(f)(list(_fresh(basis))) for f in FUNCS}
    nt = False
    for s in S.SYMS:
        img = [Perm(S.sym_perm(s, t)) for t in b]
        got = {f: _fn(f)(list(img)) for f in FUNCS}
        for f in ("is_finite", "is_polynomial", "is_non_polynomial", "is_insertion_encodable"):
            if got[f] is not base[f]:
                return bad(base[f], got[f], f"{f} differs on the image of the basis under {s}")
        r, m = "is_insertion_encodable_rightmost", "is_insertion_encodable_maximum"
        if s in KEEP_HORIZONTAL:
            exp = (base[r], base[m])
        else:
            exp = (base[m], base[r])
        if (got[r], got[m]) != exp:
            return bad(exp, (got[r], got[m]), f"(rightmost, maximum) on the image under {s}")
        nt = nt or img != [Perm(t) for t in b]
    return ok(nt)


# ---------------------------------------------- consistency with enumeration
@check("C13.enumeration")
def enumeration(item):
    """The verdicts of the real functions against the real counting sequence of
    Av(B) (permuta's Av: property C02)."""
    _own_av_lock()
    basis, nmax, polymax = item
    from permuta import Av, Basis

    fresh = _fresh(basis)
    fin = _fn("is_finite")(list(fresh))
    poly = _fn("is_polynomial")(list(fresh))
    nonpoly = _fn("is_non_polynomial")(list(fresh))
    if poly is nonpoly:
        return bad(not poly, nonpoly, "is_non_polynomial is not the negation of is_polynomial")
    Av.clear_cache()
    av = Av(Basis(*fresh))
    b = _tuples(basis)
    if fin:
        if not poly:
            return bad(True, poly, "declared finite but not polynomial (a finite class has eventually zero growth)")
        inc = [len(t) for t in b if G.is_increasing(t)]
        dec = [len(t) for t in b if G.is_decreasing(t)]
        if not inc or not dec:
            return bad("infinite", "finite", "declared finite: no monotone pair of basis elements, so all "
                       "increasing or all decreasing permutations are in the class")
        bound = (min(inc) - 1) * (min(dec) - 1) + 1
        for n in (bound, bound + 1):
            c = av.count(n)
            if c != 0:
                return bad(0, c, f"declared finite: Av_{n} must be empty (Erdos-Szekeres bound {bound})")
        return ok(bound > 2)
    seq = av.enumeration(nmax)
    for n, c in enumerate(seq):
        if c == 0:
            return bad("> 0", c, f"declared infinite but Av_{n} is empty")
    if not poly:
        for n, c in enumerate(seq):
            if c < G.fib_lower_bound(n):
                return bad(f">= {G.fib_lower_bound(n)}", c,
                           f"declared non-polynomial but |Av_{n}| is below the Fibonacci bound; sequence {seq}")
        return ok(True)
    # declared polynomial (and infinite): a necessary condition on an initial segment.
    # |Av_n| = q(n) for a polynomial q of degree d from some n0 on, so the (d)-th
    # differences are constant from there on.  The segment is extended until that
    # is visible on three consecutive entries; if the class gets too big first, or
    # polymax is 0, the case is inconclusive (never a failure).
    if not polymax:
        return ok(False)
    seq = list(seq)
    while True:
        deg = G.eventually_polynomial_degree(seq, tail=3)
        if deg is not None:
            return ok(True)
        if seq[-1] > POLY_CAP:
            return ok(False)
        if len(seq) > polymax:
            break
        seq.append(av.count(len(seq)))
    return bad(f"differences of some order constant on the last three of lengths 0..{polymax}", seq,
               "declared polynomial but the counting sequence does not become polynomial")


# ------------------------------------------------------------------- domains
def _pool(maxlen, lo=0):
    return D.perms_upto(maxlen, lo)


def _bases(pool, sizes):
    for r in sizes:
        for c in itertools.combinations(pool, r):
            yield c


def run(ctx):
    quick = ctx.tier == "quick"
    Perm = D.P()
    rng = D.subrng(ctx, "c13")
    pool0 = _pool(4)        # 34 perms, includes the empty one
    pool1 = _pool(4, 1)     # 33 perms (Av / Basis.from_string need non-empty patterns)

    # --- spec self-check
    ctx.run("C13.spec.classes", [(c, n) for c in G.TEN for n in range(0, 8 if quick else 9)], chunk=1,
            rule="each of the ten classes x every length 0..7 (8 thorough): all permutations of that length")

    # --- bases
    small0 = list(_bases(pool0, (0, 1, 2)))                       # 1 + 34 + 561
    triples0 = list(_bases(pool0, (3,)))                          # 5984
    if quick:
        triples0 = rng.sample(triples0, 1500)
        ctx.exhaustive = False
    # bases designed to hit each class with exactly one witness: one member of each
    # of the ten classes (length 3..5), all but one class at a time
    designed = []
    members = {c: [p for p in S.perms_upto(5) if len(p) >= 3 and G.TEN[c](p)] for c in G.TEN}
    for _ in range(150 if quick else 1500):
        pick = {c: rng.choice(members[c]) for c in G.TEN}
        full = tuple(Perm(t) for t in sorted(set(pick.values())))
        designed.append(full)
        drop = rng.choice(list(G.TEN))
        designed.append(tuple(Perm(t) for t in sorted({v for c, v in pick.items() if c != drop})))
        hv = rng.choice((G.HORIZONTAL, G.VERTICAL))
        designed.append(tuple(Perm(t) for t in sorted({pick[c] for c in hv})))
    allbases = small0 + triples0 + designed
    for f in FUNCS:
        ctx.run(f"C13.verdict.{f}", allbases, chunk=150,
                rule="all bases of <= 2 perms of length <= 4 (incl. the empty basis and the empty perm), "
                     "3-element bases (1500 seeded quick / all 5984 thorough), seeded bases of perms <= 5 with one "
                     "witness per class / one class missing / only the four horizontal or vertical classes")
    ctx.add_sample("C13.verdict.is_polynomial", designed[0])

    # --- containers: order, repetition, container type
    cont = []
    src = small0 + (rng.sample(triples0, 300) if quick else triples0) + designed[: (90 if quick else 900)]
    for basis in src:
        for kind in KINDS:
            if kind == "Basis" and len(basis) == 0:
                continue
            arr = list(basis)
            if arr and rng.random() < 0.7:
                arr += [rng.choice(arr) for _ in range(rng.randint(1, 3))]
            rng.shuffle(arr)
            cont.append((kind, tuple(arr)))
    for f in FUNCS:
        ctx.run(f"C13.container.{f}", cont, chunk=300,
                rule="bases as above x {list, tuple, set, frozenset, generator, iter(list), Basis, deque, dict_keys}, "
                     "each in a seeded order with 0-3 repeated elements; expected = theorem on set(B)")
    ctx.add_sample("C13.container.is_insertion_encodable", ("iter", (Perm((0, 2, 1)), Perm((2, 0, 1)), Perm((0, 1, 2)))))

    # --- Av methods
    small1 = list(_bases(pool1, (1, 2)))
    triples1 = list(_bases(pool1, (3,)))
    avs = []
    for basis in small1 + (rng.sample(triples1, 400) if quick else triples1) + designed[: (60 if quick else 600)]:
        for how in ("Basis", "list", "generator", "from_iterable", "from_string", "warm"):
            if how == "from_string" and any(len(p) > 10 for p in basis):
                continue
            arr = list(basis)
            rng.shuffle(arr)
            avs.append((how, tuple(arr)))
    ctx.run("C13.av_methods", avs, chunk=200,
            rule="non-empty bases without the empty perm x 6 ways to build the Av instance")

    # --- CLI
    clis = []
    for basis in small1 + (rng.sample(triples1, 200) if quick else triples1) + designed[: (60 if quick else 600)]:
        arr = list(basis)
        rng.shuffle(arr)
        clis.append((tuple(arr), rng.choice(("_", ":", ", ", " "))))
    ctx.run("C13.cli.poly", clis, chunk=100, rule="non-empty bases, 0-based digit strings with seeded separators")
    ctx.run("C13.cli.insenc", clis, chunk=100, rule="same inputs as C13.cli.poly")

    # --- histories
    hist = []
    src = small0 + triples0 + designed
    for _ in range(400 if quick else 4000):
        ops = tuple((rng.choice(FUNCS), rng.choice(src)) for _ in range(rng.randint(2, 10)))
        hist.append(ops)
    ctx.run("C13.history", hist, chunk=20,
            rule="seeded sequences of 2-10 (function, basis) calls from cold memo tables, then replayed in reverse")
    memos = []
    for basis in small0 + (rng.sample(triples0, 300) if quick else triples0):
        others = tuple(rng.sample(pool0, 6)) + tuple(D.random_perm(rng, 5) for _ in range(3))
        memos.append((basis, others))
    ctx.run("C13.memo", memos, chunk=60,
            rule="each basis asked cold / after other perms / after its 8 symmetric images / after itself")

    # --- symmetries
    ctx.run("C13.symmetry", small0 + triples0 + designed, chunk=100,
            rule="all bases above x 8 symmetries (images built by the geometric spec map)")

    # --- enumeration
    nmax = 8 if quick else 9
    enum = [(b, nmax, 12) for b in small1]
    enum += [(b, nmax, 12) for b in (rng.sample(triples1, 250) if quick else triples1)]
    rule_enum = (f"non-empty bases without the empty perm; finite => empty at the Erdos-Szekeres bound and one beyond; "
                 f"infinite => non-empty up to N; non-polynomial => |Av_n| >= 1,1,2,3,5,8,... up to N; N = {nmax} for bases "
                 f"of perms <= 4, {nmax - 1} for the seeded bases with perms of length 5; "
                 f"polynomial (bases of perms <= 4 only) => differences of some order constant on three consecutive lengths "
                 f"<= 12 (inconclusive when a level exceeds {POLY_CAP} perms first)")
    ctx.run("C13.enumeration", enum, chunk=4, rule=rule_enum)
    ctx.run("C13.enumeration", [(b, nmax - 1, 0) for b in designed[: (60 if quick else 600)]], chunk=1)
    ctx.assumptions += [
        "B layer: bounded; structure theorems (Erdos-Szekeres, Kaiser-Klazar/Huczynska-Vatter/Homberger-Vatter ten "
        "classes, Albert-Linton-Ruskuc four classes) are used as stated, not proved",
        "the rightmost variant of the insertion-encoding criterion is the inverse picture of ALR Theorem 16",
        "enumeration consistency uses permuta's Av (property C02)",
        "for 'polynomial' verdicts only necessary conditions on lengths <= 12 are tested",
        "Av and the CLI refuse the empty basis / the empty permutation by design: excluded there, included for the functions",
    ]
    from props import dlayer

    dlayer.run(ctx, "C13")
