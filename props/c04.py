"""C04 - the eight symmetries act consistently on permutations, patterns, containment.

B layer: every symmetry method against the geometric definition (affine maps of the
square on doubled coordinates, specs.core.sym_*), the dihedral relations on the real
code, equivariance of the real containment search, orbit helpers, lex_min, CLI.
"""
import contextlib
import io
import itertools

from specs import core as S
from vlib import domains as D
from props import containers  # noqa: F401  (registers its checks before the worker pool is forked)
from vlib.core import bad, check, ok

LEVEL = "exploration"

PERM_METHODS = {
    "inverse": "inverse", "flip_diagonal": "inverse",
    "reverse": "reverse", "flip_vertical": "reverse",
    "complement": "complement", "flip_horizontal": "complement",
    "reverse_complement": "r2", "flip_antidiagonal": "antidiag",
}
MESH_METHODS = {
    "inverse": "inverse", "flip_diagonal": "inverse",
    "reverse": "reverse", "flip_vertical": "reverse",
    "complement": "complement", "flip_horizontal": "complement",
}
ROT_RANGE = range(-9, 10)


def _apply_real(sym, obj):
    """The real-code image of obj under spec symmetry name `sym`."""
    if sym == "id":
        return obj
    if sym in ("r1", "r2", "r3"):
        return obj.rotate(int(sym[1]))
    if sym == "antidiag":
        if hasattr(obj, "flip_antidiagonal"):
            return obj.flip_antidiagonal()
        return obj.rotate(2).inverse()
    return getattr(obj, sym)()


@check("C04.perm_syms")
def perm_syms(perm):
    t = tuple(perm)
    Perm = type(perm)
    for meth, sym in PERM_METHODS.items():
        got = getattr(perm, meth)()
        want = S.sym_perm(sym, t)
        if tuple(got) != want or not isinstance(got, Perm):
            return bad(want, got, f"Perm.{meth} vs the geometric symmetry '{sym}'")
    for k in ROT_RANGE:
        got = perm.rotate(k)
        want = S.sym_perm(S.rot_name(k), t)
        if tuple(got) != want:
            return bad(want, got, f"Perm.rotate({k})")
    if tuple(perm.rotate()) != S.sym_perm("r1", t):
        return bad(S.sym_perm("r1", t), perm.rotate(), "Perm.rotate() default")
    syms = perm.all_syms()
    if {tuple(x) for x in syms} != S.orbit(t):
        return bad(sorted(S.orbit(t)), sorted(tuple(x) for x in syms), "Perm.all_syms is not exactly the orbit")
    if len(syms) != len(set(syms)):
        return bad("no repetition", list(syms), "Perm.all_syms repeats an element")
    return ok(len(S.orbit(t)) > 1)


@check("C04.mesh_syms")
def mesh_syms(mesh):
    sm = S.to_spec(mesh)
    for meth, sym in MESH_METHODS.items():
        got = getattr(mesh, meth)()
        want = S.sym_mesh(sym, sm)
        if S.to_spec(got) != want:
            return bad(want, S.to_spec(got), f"MeshPatt.{meth} vs the geometric symmetry '{sym}'")
    for k in ROT_RANGE:
        got = mesh.rotate(k)
        want = S.sym_mesh(S.rot_name(k), sm)
        if S.to_spec(got) != want:
            return bad(want, S.to_spec(got), f"MeshPatt.rotate({k})")
    if S.to_spec(mesh.rotate()) != S.sym_mesh("r1", sm):
        return bad(S.sym_mesh("r1", sm), S.to_spec(mesh.rotate()), "MeshPatt.rotate() default")
    syms = mesh.all_syms()
    if {S.to_spec(x) for x in syms} != S.orbit(sm):
        return bad(sorted(map(repr, S.orbit(sm))), sorted(repr(S.to_spec(x)) for x in syms), "MeshPatt.all_syms is not exactly the orbit")
    if len({S.to_spec(x) for x in syms}) != len(syms):
        return bad("no repetition", [S.to_spec(x) for x in syms], "MeshPatt.all_syms repeats an element")
    return ok(len(S.orbit(sm)) > 1 and len(sm[1]) > 0)


def _eq(a, b):
    return S.to_spec(a) == S.to_spec(b)


@check("C04.group")
def group(obj):
    """Dihedral relations on the real code: r^4 = e, s^2 = e, s r s = r^-1, products."""
    r = lambda x: x.rotate()  # noqa: E731
    if not _eq(r(r(r(r(obj)))), obj):
        return bad(S.to_spec(obj), S.to_spec(r(r(r(r(obj))))), "rotate^4 != identity")
    if not _eq(obj.rotate(3), r(r(r(obj)))) or not _eq(obj.rotate(-1), obj.rotate(3)) or not _eq(obj.rotate(2), r(r(obj))):
        return bad("rotate(k) = rotate^k", "differs", "rotate(k) inconsistent with iterated rotate()")
    for name in ("inverse", "reverse", "complement"):
        s = lambda x, name=name: getattr(x, name)()  # noqa: E731
        if not _eq(s(s(obj)), obj):
            return bad(S.to_spec(obj), S.to_spec(s(s(obj))), f"{name}^2 != identity")
        if not _eq(s(r(s(obj))), obj.rotate(-1)):
            return bad(S.to_spec(obj.rotate(-1)), S.to_spec(s(r(s(obj)))), f"{name} . rotate . {name} != rotate^-1")
    if not _eq(obj.reverse().complement(), obj.rotate(2)) or not _eq(obj.complement().reverse(), obj.rotate(2)):
        return bad("reverse.complement = rotate(2)", "differs", "")
    if not _eq(obj.inverse().reverse(), obj.rotate(1)) and not _eq(obj.reverse().inverse(), obj.rotate(1)):
        return bad("rotate(1) is inverse followed/preceded by reverse", "neither", "")
    if hasattr(obj, "flip_antidiagonal"):
        if not _eq(obj.flip_antidiagonal(), obj.rotate(2).inverse()) or not _eq(obj.flip_antidiagonal().flip_antidiagonal(), obj):
            return bad("antidiagonal flip = inverse . rotate(2), involution", "differs", "")
    return ok(True)


@check("C04.equivariance")
def equivariance(item):
    """perm contains patt  <=>  g(perm) contains g(patt), real search, real maps."""
    patt, perms = item
    nt = False
    images = [(sym, _apply_real(sym, patt)) for sym in S.SYMS[1:]]
    sp = S.to_spec(patt)
    for perm in perms:
        base = perm.contains(patt)
        truth = S.contains(tuple(perm), sp)
        if base is not truth:
            return bad(truth, base, f"contains({tuple(perm)}) itself is wrong")
        n0 = patt.count_occurrences_in(perm)
        for sym, gp in images:
            gq = _apply_real(sym, perm)
            if gq.contains(gp) is not base:
                return bad(base, gq.contains(gp), f"symmetry {sym}: image of {tuple(perm)} contains image of pattern?")
            if gp.count_occurrences_in(gq) != n0:
                return bad(n0, gp.count_occurrences_in(gq), f"symmetry {sym}: number of occurrences not preserved for {tuple(perm)}")
        nt = nt or base
    return ok(nt)


def _sorted_tuple(perms):
    return tuple(sorted(perms, key=lambda p: (len(p), tuple(p))))


@check("C04.sets")
def sets(item):
    from permuta.permutils import symmetry as Y

    perms, container = item
    spec_set = [tuple(p) for p in perms]

    def mk():
        if container == "list":
            return list(perms)
        if container == "tuple":
            return tuple(perms)
        if container == "gen":
            return (p for p in perms)
        if container == "iter":
            return iter(list(perms))
        if container == "set":
            return set(perms)
        from permuta import Basis
        return Basis(*perms)

    if container == "basis":
        from permuta import Basis
        base = list(Basis(*perms))
        spec_set = [tuple(p) for p in base]
    elif container == "set":
        spec_set = list({tuple(p) for p in perms})
    helpers = {
        "rotate_90_clockwise_set": "r1", "rotate_180_clockwise_set": "r2", "rotate_270_clockwise_set": "r3",
        "inverse_set": "inverse", "reverse_set": "reverse", "complement_set": "complement", "antidiagonal_set": "antidiag",
    }
    for fn, sym in helpers.items():
        got = sorted(tuple(p) for p in getattr(Y, fn)(mk()))
        want = sorted(S.sym_perm(sym, t) for t in spec_set)
        if got != want:
            return bad(want, got, f"{fn} is not the element-wise image")
    want_all = {tuple(sorted((S.sym_perm(sym, t) for t in spec_set), key=lambda t: (len(t), t))) for sym in S.SYMS}
    got_all = {tuple(tuple(p) for p in grp) for grp in Y.all_symmetry_sets(mk())}
    if got_all != want_all:
        return bad(sorted(want_all), sorted(got_all), "all_symmetry_sets is not the set of sorted images under the 8 symmetries")
    want_min = min(want_all, key=lambda grp: [(len(t), t) for t in grp])
    got_min = tuple(tuple(p) for p in Y.lex_min(mk()))
    if got_min != want_min:
        return bad(want_min, got_min, "lex_min is not the minimum of the orbit")
    # constant on the orbit
    Perm = D.P()
    for sym in S.SYMS[1:]:
        img = [Perm(S.sym_perm(sym, t)) for t in spec_set]
        if tuple(tuple(p) for p in Y.lex_min(img)) != want_min:
            return bad(want_min, Y.lex_min(img), f"lex_min differs on the image under {sym}")
    return ok(len(want_all) > 1)


@check("C04.cli_lexmin")
def cli_lexmin(item):
    import argparse

    from permuta import cli

    perms, one_based, sep = item
    text = sep.join("".join(str(v + (1 if one_based else 0)) for v in p) for p in perms)
    buf = io.StringIO()
    with contextlib.redirect_stdout(buf):
        cli.get_lex_min(argparse.Namespace(basis=text))
    out = buf.getvalue().strip()
    # spec: basis = minimal elements of the set; lex_min of it
    mins = [tuple(p) for p in perms if not any(q != p and S.contains(tuple(p), tuple(q)) for q in perms)]
    mins = list(dict.fromkeys(mins))
    orbit_sets = [sorted((S.sym_perm(sym, t) for t in mins), key=lambda t: (len(t), t)) for sym in S.SYMS]
    want = min(orbit_sets, key=lambda grp: [(len(t), t) for t in grp])
    want_text = "_".join("".join(map(str, t)) for t in want)
    if out != want_text:
        return bad(want_text, out, f"permtools lexmin {text!r}")
    return ok(len(mins) > 0)


def run(ctx):
    quick = ctx.tier == "quick"
    Perm = D.P()
    from permuta import BivincularPatt, CovincularPatt, VincularPatt

    rng = D.subrng(ctx, "c04")
    long_perms = [D.random_perm(rng, n) for n in range(9, 41) for _ in range(3 if quick else 20)]
    ctx.run("C04.perm_syms", D.perms_upto(7 if quick else 8) + long_perms, chunk=300,
            rule="all perms up to length 7 (8 thorough) + seeded ones of every length 9-40; rotate(k) for k in [-9, 9]; non-trivial = orbit has > 1 element")
    ctx.add_sample("C04.perm_syms", Perm((0, 4, 1, 3, 2)))
    meshes = list(D.all_mesh(0)) + list(D.all_mesh(1)) + list(D.all_mesh(2))
    m3 = list(D.sampled_mesh(rng, 3, 40 if quick else 600, boundary=True))
    m4 = list(D.sampled_mesh(rng, 4, 2 if quick else 12, boundary=False))
    biv = [BivincularPatt(Perm((0, 2, 1)), (0, 2), (1,)), VincularPatt(Perm((1, 0)), (1, 2)), CovincularPatt(Perm((0, 1, 2)), (0, 3)),
           BivincularPatt(Perm(()), (0,), ())]
    ctx.run("C04.mesh_syms", meshes + m3 + m4 + biv, chunk=200,
            rule=f"all 1042 mesh patterns of length <=2, {len(m3)} of length 3, {len(m4)} of length 4 (seeded shadings), bivincular-type objects")
    ctx.add_sample("C04.mesh_syms", D.mesh((0, 2, 1), [(2, 3), (3, 0), (3, 3)]))
    ctx.run("C04.group", D.perms_upto(6) + meshes[::3] + m3[::2] + biv, chunk=200,
            rule="dihedral relations r^4=e, s^2=e, s r s=r^-1, rc = r^2 on all perms <=6 and mesh patterns")
    # equivariance with the real search
    tp = tuple(D.perms_upto(5 if quick else 6))
    cl = D.perms_upto(3 if quick else 4)
    ms = meshes if not quick else [m for m in meshes if len(m) < 2] + rng.sample([m for m in meshes if len(m) == 2], 200)
    ms3 = m3[: (30 if quick else 300)]
    ctx.run("C04.equivariance", [(p, tp) for p in cl + ms + ms3], chunk=4,
            rule="every pattern (classical <=3/4, mesh <=2 and seeded 3) x every perm <=5/6 x 7 non-trivial symmetries, real containment on both sides; "
                 "non-trivial = pattern occurs in at least one of the perms")
    ctx.exhaustive = False
    # set helpers
    pool = D.perms_upto(3, 2)
    sets_in = []
    for r in (1, 2, 3):
        for comb_ in itertools.combinations(pool, r):
            for cont in ("list", "gen", "set", "basis") if r < 3 else ("list", "iter"):
                sets_in.append((comb_, cont))
    for _ in range(40 if quick else 400):
        k = rng.randint(1, 4)
        comb_ = tuple(D.random_perm(rng, rng.randint(1, 6)) for _ in range(k))
        sets_in.append((comb_, rng.choice(("list", "tuple", "gen", "iter"))))
    sets_in.append(((Perm((0, 1)), Perm((0, 1))), "list"))
    ctx.run("C04.sets", sets_in, chunk=20, rule="all sets of <=3 perms from S2 u S3 in several container types + seeded larger sets (with repetitions)")
    cl_in = []
    for comb_, _c in sets_in[:: (6 if quick else 2)]:
        if all(len(p) <= 9 and len(p) > 0 for p in comb_):
            cl_in.append((comb_, rng.random() < 0.5, rng.choice(("_", ",", " ", ":", ", "))))
    ctx.run("C04.cli_lexmin", cl_in, chunk=10, rule="permtools lexmin through cli.get_lex_min on the same bases, 0- and 1-based, several separators")
    ctx.assumptions += ["B layer: bounded; spec = affine maps of the square on doubled coordinates (points even, cell centres odd)"]
    from props import dlayer
    containers.run_for(ctx, "C04")
    dlayer.run(ctx, "C04")
