"""Container independence of every entry point whose parameter is declared Iterable[...]:
the answer for a list, a tuple, a set (where order is irrelevant), a generator, an iterator, a map
object and a reversed object must be the same.  One check per property; added after three seeded
changes (C03_d, C09_c, C13_d) that traversed a one-shot argument twice were missed.
"""
from vlib import domains as D
from vlib.core import bad, check, ok

ORDERED = (
    ("list", list),
    ("tuple", tuple),
    ("generator", lambda xs: (x for x in xs)),
    ("iterator", lambda xs: iter(list(xs))),
    ("map", lambda xs: map(lambda x: x, list(xs))),
    ("reversed", lambda xs: reversed(list(reversed(list(xs))))),
)


def _same(a, b):
    try:
        return a == b and type(a) is type(b)
    except Exception:  # noqa: BLE001
        return False


def _outcome(call, arg):
    try:
        return call(arg)
    except Exception as exc:  # noqa: BLE001 - a documented rejection is an answer too; it must not depend on the container
        return ("raised", type(exc).__name__)


def _compare(label, call, items):
    """call(container) for every container kind vs call(list)"""
    want = _outcome(call, list(items))
    for name, conv in ORDERED[1:]:
        got = _outcome(call, conv(items))
        if not _same(want, got):
            return bad(f"{label}: same answer as for a list: {want!r}", f"for a {name}: {got!r}", "container kind of an Iterable argument")
    return None


def _norm(x):
    if hasattr(x, "__next__") or isinstance(x, (map, filter)):
        x = list(x)
    if isinstance(x, (set, frozenset)):
        return ("set", frozenset(_norm(e) for e in x))
    if isinstance(x, (list, tuple)) and type(x) in (list, tuple):
        return tuple(_norm(e) for e in x)
    return x


@check("C01.containers")
def c01(item):
    perm, patts = item
    r = _compare("Perm.avoids_set", lambda c: perm.avoids_set(c), patts)
    return r or ok(len(patts) >= 1)


@check("C04.containers")
def c04(item):
    from permuta.permutils import symmetry as Y

    perms = item
    for fname in ("rotate_90_clockwise_set", "rotate_180_clockwise_set", "rotate_270_clockwise_set", "inverse_set", "reverse_set",
                  "complement_set", "antidiagonal_set", "all_symmetry_sets", "lex_min"):
        fn = getattr(Y, fname)
        r = _compare(f"symmetry.{fname}", lambda c, fn=fn: _norm(fn(c)), perms)
        if r:
            return r
    return ok(len(perms) >= 2)


@check("C05.containers")
def c05(item):
    from permuta import Av, Basis, MeshBasis

    patts, mesh = item
    cls = MeshBasis if mesh else Basis
    r = _compare(f"{cls.__name__}.from_iterable", lambda c: tuple(cls.from_iterable(c)), patts)
    if r:
        return r
    if patts:
        r = _compare("Av.from_iterable", lambda c: tuple(Av.from_iterable(c).basis), patts)
        if r:
            return r
        r = _compare("MeshBasis.is_mesh_basis", lambda c: MeshBasis.is_mesh_basis(c), patts)
        if r:
            return r
    return ok(len(patts) >= 2)


@check("C06.containers")
def c06(item):
    from permuta import MeshPatt

    mesh, indices = item
    r = _compare("MeshPatt.sub_mesh_pattern", lambda c: mesh.sub_mesh_pattern(c), sorted(indices))
    if r:
        return r
    cells = sorted(mesh.shading)
    r = _compare("MeshPatt(pattern, shading)", lambda c: MeshPatt(mesh.pattern, c), cells)
    return r or ok(bool(indices) and bool(cells))


@check("C10.containers")
def c10(item):
    Perm = D.P()
    perm, comps = item
    r = _compare("Perm(iterable)", lambda c: Perm(c), list(perm))
    if r:
        return r
    r = _compare("Perm.one_based", lambda c: Perm.one_based(c), [v + 1 for v in perm])
    if r:
        return r
    r = _compare("Perm.apply", lambda c: perm.apply(c), [chr(97 + i) for i in range(len(perm))])
    if r:
        return r
    if comps is not None:
        r = _compare("Perm.inflate", lambda c: perm.inflate(c), comps)
        if r:
            return r
    return ok(len(perm) >= 2)


def run_for(ctx, prop):
    """called from the property modules"""
    import itertools
    import random

    quick = ctx.tier == "quick"
    rng = random.Random(41)
    Perm = D.P()
    small = D.perms_upto(3)
    if prop == "C01":
        items = [(p, list(ps)) for p in D.perms_upto(4) for k in (0, 1, 2) for ps in itertools.islice(itertools.combinations(small, k), 0, 30)]
        ctx.run("C01.containers", items[:: (3 if quick else 1)], chunk=300, rule="avoids_set with the collection of patterns given as list / tuple / generator / iterator / map / reversed")
    elif prop == "C04":
        pool = D.perms_upto(4)
        items = [rng.sample(pool, k) for k in (0, 1, 2, 3, 4) for _ in range(12 if quick else 60)]
        ctx.run("C04.containers", items, chunk=20, rule="the seven symmetry set helpers, all_symmetry_sets and lex_min on lists of <= 4 permutations given as every container kind")
    elif prop == "C05":
        from permuta import MeshPatt

        pool = D.perms_upto(3)
        mpool = pool + [MeshPatt(p, [c_ for c_ in sh if max(c_) <= len(p)]) for p in D.perms_upto(2) for sh in ([], [(0, 0)], [(1, 1), (0, 1)])]
        items = [(list(ps), False) for k in (0, 1, 2, 3) for ps in itertools.islice(itertools.permutations(pool, k), 0, 40 if quick else 200)]
        items += [(rng.sample(mpool, k), True) for k in (1, 2, 3) for _ in range(20 if quick else 100)]
        ctx.run("C05.containers", items, chunk=40, rule="Basis / MeshBasis / Av .from_iterable and is_mesh_basis on collections given as every container kind")
    elif prop == "C06":
        ms = list(D.all_mesh(1)) + rng.sample(list(D.all_mesh(2)), 60 if quick else 300)
        items = [(m, idx) for m in ms for r_ in range(len(m) + 1) for idx in itertools.combinations(range(len(m)), r_)]
        ctx.run("C06.containers", items, chunk=100, rule="sub_mesh_pattern(indices) and MeshPatt(pattern, shading) with the iterable given as every container kind")
    elif prop == "C10":
        items = []
        for p in D.perms_upto(4):
            comps = None
            if 1 <= len(p) <= 3:
                comps = [rng.choice([None, Perm(()), Perm((0,)), Perm((1, 0)), Perm((0, 1))]) for _ in p]
            items.append((p, comps))
        ctx.run("C10.containers", items, chunk=40, rule="Perm(iterable), one_based, apply, inflate with the iterable given as every container kind")
