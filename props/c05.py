"""C05 - a basis is a canonical, minimal, order-independent description of its class.

B layer.  One input = one multiset P of patterns (written in one fixed order);
every clause is its own @check and tries ALL distinct orders of P:

  C05.<kind>.constructs     every order constructs (no exception)
  C05.<kind>.order          every order (and from_iterable) gives the same basis; equal
                            bases have equal hashes and denote the same Av object
  C05.<kind>.subset_cover   R is a subset of P (classical elements of a mesh basis appear
                            wrapped as unshaded mesh patterns); every p in P contains
                            some r in R
  C05.<kind>.antichain      no element of R contains another element of R
  C05.<kind>.same_class     Av(R) == Av(P) on all permutations of length <= 6
  C05.<kind>.fixed_point    Basis(*R) == R, also for every order of R
  C05.from_string           0-based / 1-based / mixed spellings with mixed separators
  C05.av_iterable           Av(...) / Av.from_iterable(...) of lists, tuples, sets and
                            one-shot iterators denote the class of the patterns given

<kind> is `basis` (Basis, classical patterns only) or `mesh` (MeshBasis, any mixture
of Perm, MeshPatt, BivincularPatt, VincularPatt, CovincularPatt).

"contains" between patterns is the syntactic pattern-inside-pattern containment
(specs/classes.patt_le; for two classical patterns the usual one) - that is what
"contains no element that contains another" says; `same_class` is the semantic
clause and is evaluated with the brute-force containment of specs/core.py.
A clause that cannot be evaluated for an order because construction raised is
skipped for that order (the raise is reported by `constructs`).
"""
import itertools

from specs import classes as K
from specs import core as S
from vlib import codec
from props import containers  # noqa: F401  (registers its checks before the worker pool is forked)
from vlib import domains as D
from vlib.core import bad, check, ok

LEVEL = "exploration"
MAXLEN = 6


# ------------------------------------------------------------------ helpers
def _orders(patts):
    """All distinct orders of the multiset (distinct as sequences of (type, value))."""
    seen = set()
    for perm in itertools.permutations(range(len(patts))):
        seq = tuple(patts[i] for i in perm)
        key = tuple((type(p).__name__, S.to_spec(p)) for p in seq)
        if key not in seen:
            seen.add(key)
            yield seq


def _cls(kind):
    from permuta import Basis, MeshBasis

    return Basis if kind == "basis" else MeshBasis


def _spec_of_input(kind, p):
    """What an input pattern looks like inside the basis."""
    sp = S.to_spec(p)
    if kind == "mesh":
        return K.as_mesh(sp)
    return sp


def _spec_of_elem(kind, r):
    sp = S.to_spec(r)
    return K.as_mesh(sp) if kind == "mesh" else sp


def _built(kind, patts):
    """[(order, basis or None)] over all distinct orders."""
    cls = _cls(kind)
    out = []
    for seq in _orders(patts):
        try:
            out.append((seq, cls(*seq)))
        except Exception:  # noqa: BLE001 - reported by `constructs`
            out.append((seq, None))
    return out


def _elems(kind, basis):
    return [_spec_of_elem(kind, r) for r in tuple.__iter__(basis)]


def _show(kind, basis):
    return None if basis is None else _elems(kind, basis)


def _nt(patts):
    return len(patts) >= 2


# ------------------------------------------------------------------ clauses
def _constructs(kind, patts):
    cls = _cls(kind)
    for seq in _orders(patts):
        try:
            b = cls(*seq)
        except Exception as exc:  # noqa: BLE001
            return bad("a basis", f"raised {type(exc).__name__}: {exc}", f"{cls.__name__}(*{[S.to_spec(p) for p in seq]})", _nt(patts))
        if type(b) is not cls or not isinstance(b, tuple):
            return bad(cls.__name__, type(b).__name__, "type of the constructed basis", _nt(patts))
    return ok(_nt(patts))


def _order(kind, patts):
    from permuta import Av

    cls = _cls(kind)
    built = [(seq, b) for seq, b in _built(kind, patts) if b is not None]
    if not built:
        return ok(False)
    seq0, b0 = built[0]
    for seq, b in built[1:]:
        if _elems(kind, b) != _elems(kind, b0) or not (b == b0) or b != b0:
            return bad(_show(kind, b0), _show(kind, b),
                       f"order {[S.to_spec(p) for p in seq0]} versus order {[S.to_spec(p) for p in seq]}", _nt(patts))
        if hash(b) != hash(b0):
            return bad("equal hashes", "different hashes", f"equal bases from two orders of {[S.to_spec(p) for p in patts]}", _nt(patts))
    for seq, b in built[:3]:
        for maker, name in ((lambda s=seq: cls.from_iterable(list(s)), "from_iterable(list)"),
                            (lambda s=seq: cls.from_iterable(iter(s)), "from_iterable(iterator)"),
                            (lambda s=seq: cls(*(s + s[:1])), "one element repeated once more")):
            try:
                b2 = maker()
            except Exception as exc:  # noqa: BLE001
                return bad(_show(kind, b0), f"raised {type(exc).__name__}: {exc}", name, _nt(patts))
            if _elems(kind, b2) != _elems(kind, b0) or b2 != b0 or hash(b2) != hash(b0):
                return bad(_show(kind, b0), _show(kind, b2), name, _nt(patts))
    # equal bases denote the same class object
    legal = len(b0) > 0 and not any(S.patt_len(e) == 0 for e in _elems(kind, b0))
    if legal:
        Av.clear_cache()
        avs = []
        for seq, b in built[:4]:
            avs.append(Av(b))
        avs.append(Av(cls(*built[-1][0])))
        if kind == "basis" or any(S.is_mesh(S.to_spec(p)) for p in patts):
            # (a collection of classical patterns only denotes a Basis, not a MeshBasis)
            avs.append(Av(list(built[-1][0])))
            avs.append(Av.from_iterable(tuple(seq0)))
        for a in avs[1:]:
            if a is not avs[0]:
                return bad("one Av object", "different Av objects", f"equal bases built from {[S.to_spec(p) for p in patts]}", _nt(patts))
        if _elems(kind, avs[0].basis) != _elems(kind, b0) or type(avs[0].basis) is not cls:
            return bad(_show(kind, b0), _show(kind, avs[0].basis), "Av(...).basis", _nt(patts))
    return ok(_nt(patts))


def _subset_cover(kind, patts):
    inp = [_spec_of_input(kind, p) for p in patts]
    ran = False
    for seq, b in _built(kind, patts):
        if b is None:
            continue
        ran = True
        R = _elems(kind, b)
        if len(set(R)) != len(R):
            return bad("no repetition", R, "an element appears twice in the basis", _nt(patts))
        for r in R:
            if r not in inp:
                return bad(f"a subset of {inp}", R, f"{r} is not one of the patterns given", _nt(patts))
        for p in inp:
            if not any(K.patt_le(r, p) for r in R):
                return bad(f"some element of the basis is contained in {p}", R,
                           f"input pattern {p} contains no element of the basis built from order {[S.to_spec(q) for q in seq]}", _nt(patts))
    return ok(_nt(patts) and ran)


def _antichain(kind, patts):
    ran = False
    for seq, b in _built(kind, patts):
        if b is None:
            continue
        ran = True
        R = _elems(kind, b)
        for r1, r2 in itertools.permutations(R, 2):
            if K.patt_le(r1, r2):
                return bad("no element contains another", R,
                           f"{r2} contains {r1} (order {[S.to_spec(q) for q in seq]})", _nt(patts))
    return ok(_nt(patts) and ran)


def _same_class(kind, patts):
    inp = [_spec_of_input(kind, p) for p in patts]
    want = K.avoid_set(inp, MAXLEN)
    ran = False
    for seq, b in _built(kind, patts):
        if b is None:
            continue
        ran = True
        got = K.avoid_set(_elems(kind, b), MAXLEN)
        if got != want:
            diff = sorted(got ^ want, key=lambda t: (len(t), t))
            return bad(f"a basis R with Av(R) = Av(P): {len(want)} permutations of length <= {MAXLEN}",
                       _elems(kind, b),
                       f"Av(R) has {len(got)}; e.g. {diff[0]} is in exactly one of them (order {[S.to_spec(q) for q in seq]})",
                       _nt(patts))
    nontrivial = ran and 0 < len(want) < len(K.universe(MAXLEN))
    return ok(nontrivial)


def _fixed_point(kind, patts):
    cls = _cls(kind)
    ran = False
    for seq, b in _built(kind, patts):
        if b is None:
            continue
        ran = True
        elems = tuple(tuple.__iter__(b))
        for seq2 in _orders(elems) if len(elems) <= 4 else [elems]:
            try:
                b2 = cls(*seq2)
            except Exception as exc:  # noqa: BLE001
                return bad(_show(kind, b), f"raised {type(exc).__name__}: {exc}", "rebuilding a basis from its own elements", _nt(patts))
            if b2 != b or _elems(kind, b2) != _elems(kind, b):
                return bad(_show(kind, b), _show(kind, b2), "rebuilding a basis from its own elements", _nt(patts))
        break  # one order is enough here; `order` covers the rest
    return ok(_nt(patts) and ran)


def _register(kind):
    for name, fn in (("constructs", _constructs), ("order", _order), ("subset_cover", _subset_cover),
                     ("antichain", _antichain), ("same_class", _same_class), ("fixed_point", _fixed_point)):
        def wrapper(patts, _fn=fn, _kind=kind):
            return _fn(_kind, tuple(patts))

        wrapper.__name__ = f"{kind}_{name}"
        check(f"C05.{kind}.{name}")(wrapper)


_register("basis")
_register("mesh")
CLAUSES = ("constructs", "order", "subset_cover", "antichain", "same_class", "fixed_point")


@check("C05.from_string")
def from_string(item):
    """item = (perms, spelling per perm (0/1 based), separators).  The string is
    parsed by Basis.from_string / Av.from_string and must give Basis(*perms)."""
    from permuta import Av, Basis

    perms, based, seps = item
    want = Basis(*perms)  # construction itself is checked by C05.basis.*
    words = ["".join(str(v + b) for v in p) for p, b in zip(perms, based)]
    text = seps[0]
    for j, w in enumerate(words):
        text += w + seps[1 + j % (len(seps) - 1)]
    got = Basis.from_string(text)
    wspec = [S.to_spec(p) for p in want]
    # independent expectation for the parsed set of patterns: standardise each digit word
    parsed = [S.std([int(c) for c in w]) for w in words]
    if [tuple(p) for p in perms] != parsed:
        return bad([tuple(p) for p in perms], parsed, "checker: rendering is not invertible")
    if type(got) is not Basis or [S.to_spec(p) for p in got] != wspec or got != want:
        return bad(wspec, [S.to_spec(p) for p in got], f"Basis.from_string({text!r})")
    if K.avoid_set([S.to_spec(p) for p in got], 5) != K.avoid_set(parsed, 5):
        return bad("the class of the patterns written", [S.to_spec(p) for p in got], f"Basis.from_string({text!r}) denotes another class")
    zero = Basis.from_string(" ".join("".join(str(v) for v in p) for p in perms))
    one = Basis.from_string(",".join("".join(str(v + 1) for v in p) for p in perms))
    if zero != one or zero != got:
        return bad(_show("basis", zero), _show("basis", one), "0-based versus 1-based spelling")
    if len(want) and not any(len(p) == 0 for p in want):
        Av.clear_cache()
        a1, a2, a3 = Av.from_string(text), Av(want), Av.from_string("_".join("".join(str(v + 1) for v in p) for p in perms))
        if a1 is not a2 or a1 is not a3:
            return bad("one Av object", "different objects", f"Av.from_string({text!r}) versus Av(Basis(...)) versus 1-based")
    return ok(len(perms) > 1 and len(set(based)) > 1)


@check("C05.av_iterable")
def av_iterable(item):
    """Av(collection) / Av.from_iterable(collection): list, tuple, set, dict keys,
    generator and iterator forms of the same patterns denote the class of those
    patterns (compared on permutations <= 5 with the oracle, through av.basis)."""
    from permuta import Av, Basis, MeshBasis, MeshPatt

    patts, form, entry = item
    patts = tuple(patts)
    mesh = any(isinstance(p, MeshPatt) for p in patts)
    kind = "mesh" if mesh else "basis"
    makers = {
        "list": lambda: list(patts),
        "tuple": lambda: tuple(patts),
        "set": lambda: set(patts),
        "dict": lambda: dict.fromkeys(patts).keys(),
        "iterator": lambda: iter(patts),
        "generator": lambda: (p for p in patts),
    }
    Av.clear_cache()
    try:
        av = Av(makers[form]()) if entry == "Av" else Av.from_iterable(makers[form]())
    except Exception as exc:  # noqa: BLE001
        return bad("a class", f"raised {type(exc).__name__}: {exc}", f"{entry}({form} of {[S.to_spec(p) for p in patts]})")
    if type(av.basis) is not (MeshBasis if mesh else Basis):
        return bad("MeshBasis" if mesh else "Basis", type(av.basis).__name__, "kind of basis chosen")
    want = K.avoid_set([_spec_of_input(kind, p) for p in patts], 5)
    got = K.avoid_set(_elems(kind, av.basis), 5)
    if got != want:
        return bad(f"the class of {[S.to_spec(p) for p in patts]}", _elems(kind, av.basis),
                   f"{entry}({form}): the basis of the result denotes another class")
    return ok(len(patts) > 1)


# ------------------------------------------------------- known-finding predicates
def kf_one_shot(failure):
    """Av(...) / Av.from_iterable(...) given a one-shot iterator or generator."""
    _patts, form, _entry = codec.dec(failure["input"])
    return form in ("iterator", "generator")


# ------------------------------------------------------------------ domains
def _mesh_pool():
    """(core pool, full pool) of mesh-type patterns and classical patterns."""
    from permuta import BivincularPatt, CovincularPatt, VincularPatt

    Perm = D.P()
    full = []
    full += D.perms_upto(3)  # classical, incl. the empty permutation
    full += [D.mesh((), sh) for sh in D.small_shadings(0, 1)]
    full += [D.mesh((0,), sh) for sh in D.small_shadings(1, 2)]
    for t in ((0, 1), (1, 0)):
        full += [D.mesh(t, sh) for sh in D.small_shadings(2, 2)]
    special = []
    for t in ((0,), (0, 1), (1, 0)):
        k = len(t)
        for i in range(k + 1):
            special.append(VincularPatt(Perm(t), [i]))
            special.append(CovincularPatt(Perm(t), [i]))
        special.append(VincularPatt(Perm(t), []))
        special.append(VincularPatt(Perm(t), list(range(k + 1))))
        special.append(CovincularPatt(Perm(t), [0, k]))
        special.append(BivincularPatt(Perm(t), [k // 2], [k // 2]))
        special.append(BivincularPatt(Perm(t), [0], [k]))
        special.append(BivincularPatt(Perm(t), [], [1]))
        special.append(BivincularPatt(Perm(t), [k], []))
    full += special
    core = [
        Perm(), Perm((0,)), Perm((0, 1)), Perm((1, 0)), Perm((0, 2, 1)), Perm((1, 2, 0)),
        D.mesh((), []), D.mesh((), [(0, 0)]),
        D.mesh((0,), []), D.mesh((0,), [(0, 0)]), D.mesh((0,), [(1, 1)]), D.mesh((0,), [(0, 0), (1, 1)]),
        D.mesh((0,), [(0, 1), (1, 1)]), D.mesh((0,), [(1, 0), (1, 1)]),
        D.mesh((0, 1), []), D.mesh((0, 1), [(1, 1)]), D.mesh((0, 1), [(0, 0), (1, 1)]), D.mesh((0, 1), [(1, 1), (2, 2)]),
        D.mesh((1, 0), [(1, 1)]), D.mesh((1, 0), [(0, 2)]), D.mesh((0, 1), [(1, 0), (1, 1), (1, 2)]),
        D.mesh((0, 2, 1), [(1, 1)]),
        VincularPatt(Perm((0, 1)), [1]), CovincularPatt(Perm((0, 1)), [1]), BivincularPatt(Perm((0, 1)), [1], [1]),
        VincularPatt(Perm((0,)), [1]), CovincularPatt(Perm((0,)), [1]), BivincularPatt(Perm((0,)), [1], [1]),
        VincularPatt(Perm((1, 0)), [1]), BivincularPatt(Perm((1, 0)), [], [1]),
    ]
    return core, full


def _multisets(pool, r):
    return itertools.combinations_with_replacement(pool, r)


def run(ctx):
    quick = ctx.tier == "quick"
    Perm = D.P()
    rng = D.subrng(ctx, "c05")
    K.selfcheck()
    core, full = _mesh_pool()
    # containment sets are computed once here and inherited by the forked workers
    for p in core + full + D.perms_upto(4):
        sp = S.to_spec(p)
        K.containers(K.as_mesh(sp), MAXLEN)
        if not S.is_mesh(sp):
            K.containers(sp, MAXLEN)
    # checker sanity: syntactic containment implies semantic containment on the pool
    specs = sorted({K.as_mesh(S.to_spec(p)) for p in core + full}, key=repr)
    for a in specs:
        for b in specs:
            if K.patt_le(a, b):
                assert K.containers(b, MAXLEN) <= K.containers(a, MAXLEN), (a, b)

    # ---- classical bases
    cpool = D.perms_upto(3 if quick else 4)
    rmax = 3 if quick else 4
    cl_inputs = []
    for r in range(0, rmax + 1):
        src = _multisets(cpool, r)
        if r == 4:
            src = list(src)
            src = rng.sample(src, 12000)
        cl_inputs += [tuple(ms) for ms in src]
    for name in CLAUSES:
        ctx.run(f"C05.basis.{name}", cl_inputs, chunk=400,
                rule=f"all multisets of <= {3 if quick else '3 (all) and 4 (12000 seeded)'} classical patterns from S_0..S_{3 if quick else 4}, "
                     f"every distinct order inside the check; non-trivial = at least two patterns"
                     + (" and the class is neither empty nor everything" if name == "same_class" else ""))
    ctx.add_sample("C05.basis.order", (Perm((0, 2, 1)), Perm((0, 1)), Perm((0, 2, 1))))

    # ---- mesh bases
    m_inputs = []
    for r in range(0, 3):
        m_inputs += [tuple(ms) for ms in _multisets(full, r)]
    n_pairs = len(m_inputs)
    core_r = 3 if quick else 4
    for r in range(3, core_r + 1):
        m_inputs += [tuple(ms) for ms in _multisets(core, r)]
    n_core = len(m_inputs) - n_pairs
    n_seeded = 4000 if quick else 40000
    for _ in range(n_seeded):
        r = rng.choice((3, 3, 4) if not quick else (3,))
        m_inputs.append(tuple(rng.choice(full) for _ in range(r)))
    for name in CLAUSES:
        ctx.run(f"C05.mesh.{name}", m_inputs, chunk=300,
                rule=f"full pool of {len(full)} patterns (classical <=3, mesh patterns on <=2 points with <=2 cells, shaded/unshaded "
                     f"empty pattern, Vincular/Covincular/Bivincular patterns with full rows/columns): all {n_pairs} multisets of <=2; "
                     f"core pool of {len(core)}: all {n_core} multisets of 3{'' if quick else '-4'}; {n_seeded} seeded multisets of "
                     f"3{'' if quick else '-4'} from the full pool; every distinct order inside the check")
    ctx.add_sample("C05.mesh.antichain", (D.mesh((0,), [(1, 1)]), D.mesh((0,), [(0, 0), (1, 1)])))
    ctx.add_sample("C05.mesh.order", (core[22], core[23], Perm((0, 1))))

    # ---- text
    seps_pool = (" ", ",", ", ", "_", "|", "\n", "a", ";;", "-", " and ")
    fs = []
    spool = D.perms_upto(4, 1)
    for r in (1, 2, 3):
        combos = list(itertools.product(spool, repeat=r)) if r == 1 else None
        count = len(spool) if r == 1 else (1500 if quick else 15000)
        for j in range(count):
            perms = combos[j] if combos else tuple(rng.choice(spool) for _ in range(r))
            for based in itertools.product((0, 1), repeat=r):
                seps = ("",) + tuple(rng.choice(seps_pool) for _ in range(3)) if rng.random() < 0.5 else \
                    (rng.choice(seps_pool),) + tuple(rng.choice(seps_pool) for _ in range(2))
                fs.append((perms, based, seps))
    ctx.run("C05.from_string", fs, chunk=300,
            rule="every perm of length 1-4 alone, seeded lists of 2-3 perms <= 4; every 0-/1-based spelling per perm; separators "
                 "drawn from 10 non-digit strings incl. letters and newlines, with and without a leading separator")
    ctx.add_sample("C05.from_string", fs[100])

    # ---- Av(collection)
    avi = []
    sets = [(Perm((0, 1, 2)), Perm((1, 0))), (Perm((0, 2, 1)),), (Perm((0, 2, 1)), Perm((0, 1)), Perm((2, 1, 0))),
            (D.mesh((1, 0), [(0, 0)]), Perm((0, 1, 2))), (Perm((0, 1, 2)), D.mesh((1, 0), [(0, 0)])),
            (Perm((0, 1, 2)), Perm((2, 1, 0)), D.mesh((1, 0), [(1, 1)]), Perm((0, 2, 1))),
            (D.mesh((0, 1), [(1, 1)]),), (core[22], Perm((2, 1, 0)))]
    for _ in range(20 if quick else 200):
        sets.append(tuple(rng.choice(full[1:]) for _ in range(rng.choice((1, 2, 3)))))
    sets = [s for s in sets if all(S.patt_len(S.to_spec(p)) > 0 for p in s)]
    for s in sets:
        for form in ("list", "tuple", "set", "dict", "iterator", "generator"):
            for entry in ("Av", "from_iterable"):
                avi.append((s, form, entry))
    ctx.run("C05.av_iterable", avi, chunk=60,
            rule=f"{len(sets)} pattern collections (hand-picked + seeded from the full pool, no length-0 patterns) x 6 container forms x 2 entry points")
    ctx.add_sample("C05.av_iterable", avi[4])
    ctx.exhaustive = False
    ctx.assumptions += [
        "B layer: bounded; pools and multiset sizes as stated, triples/quadruples from the full pool are seeded samples",
        "pattern-inside-pattern containment for the antichain/cover clauses is the syntactic definition (specs/classes.patt_le), "
        "cross-checked at start-up to imply containment of the containing-permutation sets on the pool",
        f"class equality Av(R) = Av(P) is compared on all permutations of length <= {MAXLEN} (brute force)",
    ]
    from props import dlayer

    containers.run_for(ctx, "C05")
    dlayer.run(ctx, "C05")
