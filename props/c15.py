"""C15 - the basis automaton accepts exactly the pin sequences containing a basis element.

B layer (bounded stand-in).  Oracle: specs/pins.py (M, the reading of a word of M as
a pin sequence, the order-list decoder) and the definition of containment
(standardised subsequences, specs/core.py).  Automata questions that the statement
quantifies over all words (finiteness of M \\ L(dfa), language equivalence of the
data-base automaton) are decided *exactly* by this module's own graph algorithms on
the transition table of the real DFA objects - not by automata-lib.
"""
import functools
import itertools
import os
import tempfile
from collections import deque

from specs import core as S
from specs import pins as P
from vlib import domains as D
from vlib.core import bad, check, ok

LEVEL = "exploration"


def _PW():
    from permuta.permutils.pin_words import PinWords

    return PinWords


# ------------------------------------------------------- own automata helpers
def _step(dfa, q, c):
    """Transition of a (possibly partial) DFA; None is the dead state."""
    if q is None:
        return None
    return dfa.transitions[q].get(c)


def _accepts(dfa, word):
    q = dfa.initial_state
    for c in word:
        q = _step(dfa, q, c)
    return q is not None and q in dfa.final_states


def distinguishing_word(d1, d2):
    """None when L(d1) == L(d2) over {U,L,D,R}; otherwise a shortest word accepted by
    exactly one of them.  Breadth-first search of the product automaton."""
    start = (d1.initial_state, d2.initial_state)
    seen = {start: ""}
    queue = deque([start])
    while queue:
        pair = queue.popleft()
        a, b = pair
        fa = a is not None and a in d1.final_states
        fb = b is not None and b in d2.final_states
        if fa != fb:
            return seen[pair]
        for c in P.DIRECTIONS:
            nxt = (_step(d1, a, c), _step(d2, b, c))
            if nxt not in seen:
                seen[nxt] = seen[pair] + c
                queue.append(nxt)
    return None


def _m_next(axis, c):
    """Own automaton for M: the state is the axis of the last letter (None at the
    start); a letter of the same axis leaves M for good ('dead')."""
    a = "V" if c in P.VERTICAL else "H"
    return None if a == axis else a


def rejected_m_words(dfa):
    """Exact analysis of R = M \\ L(dfa) on the product of `dfa` with the automaton
    of M.  Returns ("finite", longest_length_or_-1, a_longest_word_or_None) or
    ("infinite", prefix, cycle, suffix) with prefix cycle^k suffix in R for all k."""
    start = (dfa.initial_state, "S")  # "S": no letter read yet
    succ = {}
    order = [start]
    seen = {start}
    i = 0
    while i < len(order):
        node = order[i]
        i += 1
        q, axis = node
        outs = []
        for c in P.DIRECTIONS:
            a = _m_next(None if axis == "S" else axis, c)
            if a is None:
                continue  # the word has left M
            nxt = (_step(dfa, q, c), a)
            outs.append((c, nxt))
            if nxt not in seen:
                seen.add(nxt)
                order.append(nxt)
        succ[node] = outs
    rejecting = {n for n in seen if n[0] is None or n[0] not in dfa.final_states}
    # co-reachable: can still reach a rejecting node
    pred = {n: [] for n in seen}
    for n, outs in succ.items():
        for _c, m in outs:
            pred[m].append(n)
    live = set(rejecting)
    stack = list(rejecting)
    while stack:
        n = stack.pop()
        for m in pred[n]:
            if m not in live:
                live.add(m)
                stack.append(m)
    if start not in live:
        return ("finite", -1, None)
    edges = {n: [(c, m) for c, m in succ[n] if m in live] for n in live}
    # Kahn: peel nodes of in-degree 0; what remains lies on or behind a cycle
    indeg = {n: 0 for n in live}
    for n in live:
        for _c, m in edges[n]:
            indeg[m] += 1
    topo = []
    ready = [n for n in live if indeg[n] == 0]
    while ready:
        n = ready.pop()
        topo.append(n)
        for _c, m in edges[n]:
            indeg[m] -= 1
            if indeg[m] == 0:
                ready.append(m)
    if len(topo) == len(live):
        # acyclic: longest path from start to a rejecting node
        best = {}
        for n in reversed(topo):
            cand = (0, "") if n in rejecting else None
            for c, m in edges[n]:
                if best.get(m) is not None:
                    alt = (best[m][0] + 1, c + best[m][1])
                    if cand is None or alt[0] > cand[0]:
                        cand = alt
            best[n] = cand
        return ("finite", best[start][0], best[start][1])
    rest = live - set(topo)

    def path(src, goal_test, first_step=False):
        """Shortest labelled path inside `live` from src to a node satisfying goal_test."""
        q = deque([(src, "")])
        vis = set()
        if not first_step and goal_test(src):
            return "", src
        while q:
            n, w = q.popleft()
            for c, m in edges[n]:
                if goal_test(m):
                    return w + c, m
                if m not in vis:
                    vis.add(m)
                    q.append((m, w + c))
        return None

    for v in sorted(rest, key=repr):
        cyc = path(v, lambda m, v=v: m == v, first_step=True)
        if cyc is not None:
            prefix, _ = path(start, lambda m, v=v: m == v)
            suffix, _ = path(v, lambda m: m in rejecting)
            return ("infinite", prefix, cyc[0], suffix)
    raise AssertionError("Kahn left nodes but no cycle was found")


# ------------------------------------------------------------------ oracles
@functools.lru_cache(maxsize=None)
def _contained(word, k):
    """Patterns of length k contained in the permutation encoded by the word of M."""
    perm = P.decode_m(word)
    return frozenset(S.std([perm[i] for i in idx]) for idx in itertools.combinations(range(len(perm)), k))


def _word_contains_basis(word, basis):
    return any(tuple(b) in _contained(word, len(b)) for b in basis)


# ------------------------------------------------------------------- checks
@check("C15.m_dfa")
def m_dfa(n):
    """All 4^n direction words of length n: make_dfa_for_m accepts exactly M."""
    dfa = _PW().make_dfa_for_m()
    for w in P.all_direction_words(n):
        want = P.in_m(w)
        got = dfa.accepts_input(w)
        if got is not want:
            return bad(want, got, f"make_dfa_for_m on {w!r}")
        if _accepts(dfa, w) is not got:
            raise AssertionError("own DFA runner disagrees with accepts_input")
    return ok(n >= 2)


@check("C15.accept")
def accept(item):
    """(basis, L): for every word w of M with 2 <= |w| <= L:
    dfa.accepts_input(w)  <=>  some basis element is contained in perm(w)."""
    basis, L = item
    dfa = _PW().make_dfa_for_basis(list(basis))
    wrong = []
    acc = rej = 0
    for n in range(2, L + 1):
        for w in P.m_words(n):
            want = _word_contains_basis(w, basis)
            got = dfa.accepts_input(w)
            if got:
                acc += 1
            else:
                rej += 1
            if got is not want:
                wrong.append((w, want, got))
    nt = acc > 0 and rej > 0
    if wrong:
        return bad(
            "accepts exactly the words whose permutation contains a basis element",
            f"{len(wrong)} words differ, first (word, expected, actual): {wrong[:6]}",
            f"make_dfa_for_basis acceptance on M, word lengths 2..{L}; perm of first = {P.decode_m(wrong[0][0])}",
            nt,
        )
    return ok(nt)


@check("C15.finite")
def finite(item):
    """(basis, cap): has_finite_pinperms(basis) <=> M \\ L(dfa) is finite (exact), and the
    words that the analysis exhibits really encode avoiders / containers."""
    basis, cap = item
    PW = _PW()
    dfa = PW.make_dfa_for_basis(list(basis))
    verdict = rejected_m_words(dfa)
    want = verdict[0] == "finite"
    got2 = PW.has_finite_pinperms(list(basis), dfa=dfa)
    # the variant that builds the automaton itself: on bases of <= 1 element here (construction
    # is the dominant cost), on pairs in C15.db
    got = PW.has_finite_pinperms(list(basis)) if len(basis) <= 1 else got2
    nt = len(basis) > 0 and all(len(b) >= 2 for b in basis)
    if got is not want or got2 is not want:
        return bad(want, (got, got2), f"has_finite_pinperms (fresh, dfa=given) vs exact analysis {verdict}", nt)
    tb = [tuple(b) for b in basis]
    if want:
        _, longest, witness = verdict
        if longest >= 2 and any(S.contains(P.decode_m(witness), b) for b in tb):
            return bad("avoider", witness, "longest rejected word of M encodes a permutation containing the basis", nt)
        for n in (longest + 1, longest + 2):
            if 2 <= n <= cap:
                for w in P.m_words(n):
                    if not _word_contains_basis(w, basis):
                        return bad(f"every pin sequence of length > {longest} contains the basis", w,
                                   "finite verdict, but a longer word of M encodes an avoider", nt)
    else:
        _, prefix, cycle, suffix = verdict
        big = next(k for k in itertools.count() if len(prefix + cycle * k + suffix) >= 16)
        for k in sorted({0, 1, 2, 3, big}):
            w = prefix + cycle * k + suffix
            if len(w) >= 2:
                if not P.in_m(w):
                    raise AssertionError(f"pumped word {w!r} is not in M")
                if dfa.accepts_input(w):
                    raise AssertionError(f"pumped word {w!r} is accepted")
                perm = P.decode_m(w)
                if any(S.contains(perm, b) for b in tb):
                    return bad("avoider", w, "infinite verdict, but a pumped rejected word encodes a permutation containing the basis", nt)
    return ok(nt)


def _language_equal(d1, d2, maxlen, what):
    """Exact (product search) + acceptance on every direction word up to maxlen."""
    w = distinguishing_word(d1, d2)
    if w is not None:
        return bad("language-equivalent automata", f"{w!r} is accepted by exactly one ({d1.accepts_input(w)}, {d2.accepts_input(w)})", what)
    for n in range(maxlen + 1):
        for word in P.all_direction_words(n):
            if d1.accepts_input(word) is not d2.accepts_input(word):
                raise AssertionError(f"product search found no difference but {word!r} distinguishes: {what}")
    return None


@check("C15.db")
def db(item):
    """(basis, maxlen): store/load in an empty data base (a fresh temporary working
    directory; the code uses the relative path dfa_db/), then the basis automaton
    built from the data base against the fresh computation."""
    basis, maxlen = item
    PW = _PW()
    basis = list(basis)
    old = os.getcwd()
    with tempfile.TemporaryDirectory() as tmp:
        os.chdir(tmp)
        try:
            PW.load_dfa_for_perm.cache_clear()
            for j, p in enumerate(basis):
                fresh = PW.make_dfa_for_perm(p)
                single = PW.make_dfa_for_basis([p])
                r = _language_equal(fresh, single, min(maxlen, 5), f"make_dfa_for_perm({p}) vs make_dfa_for_basis([{p}])")
                if r:
                    return r
                if j % 2 == 0:
                    PW.store_dfa_for_perm(p)
                else:
                    PW.load_dfa_for_perm(p)  # load of a missing entry stores it first
                fname = os.path.join(tmp, "dfa_db", f"S{len(p)}", "".join(str(v) for v in p) + ".txt")
                if not os.path.isfile(fname):
                    return bad(fname, sorted(os.listdir(tmp)), "no data-base file after store/load")
                before = open(fname).read()
                PW.store_dfa_for_perm(p)  # second store: entry exists
                if open(fname).read() != before:
                    return bad("entry unchanged", "rewritten", "store_dfa_for_perm on an existing entry")
                loaded = PW.load_dfa_for_perm(p)
                r = _language_equal(loaded, fresh, maxlen, f"load_dfa_for_perm({p}) vs make_dfa_for_perm")
                if r:
                    return r
                PW.load_dfa_for_perm.cache_clear()
                again = PW.load_dfa_for_perm(p)
                r = _language_equal(again, fresh, 0, f"load_dfa_for_perm({p}) re-read from the file vs make_dfa_for_perm")
                if r:
                    return r
            fresh_b = PW.make_dfa_for_basis(basis)
            for order in (basis, basis[::-1]):
                from_db = PW.make_dfa_for_basis(list(order), use_db=True)
                r = _language_equal(from_db, fresh_b, maxlen, f"make_dfa_for_basis({order}, use_db=True) vs fresh")
                if r:
                    return r
            f1, f2 = PW.has_finite_pinperms(basis), PW.has_finite_pinperms(basis, use_db=True)
            if f1 is not f2:
                return bad(f1, f2, "has_finite_pinperms(use_db=True) vs fresh")
            stray = [e for e in os.listdir(tmp) if e != "dfa_db"]
            if stray:
                return bad([], stray, "files written outside dfa_db/")
        finally:
            os.chdir(old)
            PW.load_dfa_for_perm.cache_clear()
    return ok(len(basis) > 0)


# ------------------------------------------------------------------------ run
def _short_word_behaviour():
    """What the automaton does on the words of M of length 0 and 1 (they encode no
    pin; the statement does not say what must happen) - recorded, not asserted."""
    PW = _PW()
    Perm = D.P()
    out = {}
    for name, basis in (("[]", []), ("[eps]", [Perm(())]), ("[0]", [Perm((0,))]), ("[01]", [Perm((0, 1))]),
                        ("[021]", [Perm((0, 2, 1))]), ("[eps,10]", [Perm(()), Perm((1, 0))])):
        dfa = PW.make_dfa_for_basis(basis)
        out[name] = {w or "''": dfa.accepts_input(w) for w in ("", "U", "D", "L", "R")}
    return out


def _register_db_names():
    from props import c20 as _c20

    check("C15.db_names")(_c20.dfa_names)  # the same check function under a C15 name
    return _c20


_C20 = _register_db_names()


def _guarded(fn):
    """an observation recorded in the evidence must not take the check down"""
    try:
        return fn()
    except Exception as exc:  # noqa: BLE001
        return f"raised {type(exc).__name__}: {exc}"


def run(ctx):
    quick = ctx.tier == "quick"
    Perm = D.P()
    rng = D.subrng(ctx, "c15")
    ctx.run("C15.db_names", _C20.dfa_name_pairs(D.subrng(ctx, "c15-names"), quick), chunk=10,
            rule="database entries of distinct permutations do not interfere (pairs of equal length <= 3, seeded 4-12, and pairs of "
                 "length 11-13 differing only in reading the digits 1,0 / 10)")
    ctx.run("C15.m_dfa", range(0, 8 if quick else 10), chunk=1,
            rule="all words over {U,L,D,R} of each length 0..7 (9 thorough) against 'vertical and horizontal letters alternate' "
                 "(4-state automata: agreement up to length 7 is exact)")
    small = D.perms_upto(4)
    singles = [(p,) for p in small]
    pairs = [tuple(c) for c in itertools.combinations(small, 2)]
    L = 8 if quick else 10
    if quick:
        bases = [()] + singles + rng.sample(pairs, 150)
    else:
        fives = D.perms(5)
        bases = [()] + singles + pairs + [(p,) for p in fives] + [tuple(rng.sample(small[4:], 3)) for _ in range(150)] \
            + [(rng.choice(fives), rng.choice(small[4:])) for _ in range(60)]
        bases.sort(key=lambda b: -sum(len(p) for p in b))
    ctx.run("C15.accept", [(b, L) for b in bases], chunk=2, timeout_s=900,
            rule=f"bases: empty, all {len(singles)} singletons of length <= 4, "
                 + ("150 seeded pairs" if quick else f"all {len(pairs)} pairs, all 120 singletons of length 5, 150 seeded triples, 60 seeded (length 5, length <= 4) pairs")
                 + f"; every word of M of length 2..{L} ({sum(4 * 2 ** (n - 1) for n in range(2, L + 1))} words per basis); "
                   "non-trivial = some word accepted and some rejected")
    ctx.add_sample("C15.accept", ((Perm((0, 2, 1)), Perm((1, 0, 2))), L))
    # bases with an element of length 6 - the first length at which a permutation can fail to be a pin permutation
    # (56 of 720): such an element has no pin word at all, its automaton accepts nothing
    from specs import pins as _pins
    p6 = D.perms(6)
    nonpin6 = [Perm(t) for t in _pins.nonpin_perms(6)]  # by the spec's own enumerator / decoder, not by the library
    six = []
    for j in range(8 if quick else 48):
        big = rng.choice(nonpin6) if j % 4 else rng.choice(p6)
        six.append(tuple([rng.choice(small[4:]) for _ in range(j % 3)] + [big]))
    bases = bases + six
    # bases listed in an order in which elements of the same length are NOT adjacent (nothing says a basis is given
    # sorted: a grouping by length must not depend on it)
    mixed = []
    for _ in range(24 if quick else 150):
        a, b = rng.sample([p for p in small if len(p) == 4], 2)
        c = rng.choice([p for p in small if len(p) == 3])
        mixed.append((a, c, b))
        mixed.append((c, a, rng.choice([p for p in small if len(p) == 3 and p != c]), b))
    mixed += [(Perm((1, 3, 0, 2)), Perm((0, 1, 2)), Perm((2, 0, 3, 1))), (Perm((0, 1, 2, 3)), Perm((2, 1, 0)), Perm((3, 2, 1, 0)))]
    bases = bases + mixed
    ctx.run("C15.accept", [(b, L) for b in mixed], chunk=2, timeout_s=900,
            rule=f"{len(mixed)} seeded bases of 3-4 elements in which elements of equal length are separated by one of another length")
    ctx.run("C15.accept", [(b, L) for b in six], chunk=4, timeout_s=900,
            rule=f"{len(six)} seeded bases of 1-3 elements with one of length 6 (three quarters of them one of the "
                 f"{len(nonpin6)} permutations of length 6 without a pin word), same words")
    ctx.run("C15.finite", [(b, L + 1) for b in bases], chunk=2, timeout_s=900,
            rule="same bases; exact decision on the product of the real transition table with M "
                 "(trim, cycle detection); longest rejected word and pumped rejected words (k = 0..3 and one of length >= 16) decoded and tested "
                 f"for avoidance, words one/two letters longer than the longest (up to length {L + 1}) for containment")
    dbl = 6 if quick else 8
    if quick:
        dbs = [()] + singles + rng.sample(pairs, 16)
    else:
        dbs = [()] + singles + rng.sample(pairs, 80) + [(p,) for p in rng.sample(D.perms(5), 16)]
        dbs.sort(key=lambda b: -sum(len(p) for p in b))
    dbs = dbs + [(nonpin6[0],), (nonpin6[-1], Perm((0, 2, 1)))] + mixed[:4]
    ctx.run("C15.db", [(b, dbl) for b in dbs], chunk=1, timeout_s=900,
            rule=f"empty basis, all singletons <= 4, seeded pairs ({'16' if quick else '80 + 16 singletons of length 5'}): "
                 f"store/load/use_db in a fresh temporary directory; exact equivalence + all direction words up to length {dbl}")
    ctx.exhaustive = False
    ctx.notes["C15.short_words"] = {
        "observed": _guarded(_short_word_behaviour),
        "comment": "words of M of length 0 and 1 place no pin; the automaton accepts them exactly when the empty "
                   "permutation is in the basis (consistent with reading them as the empty permutation). The statement "
                   "does not fix this, so nothing is asserted.",
    }
    ctx.assumptions += [
        "B layer: bounded on word length for acceptance (exact for finiteness / equivalence questions, given the transition table)",
        "oracle = specs/pins.py (M, word of M -> strict pin word -> order-list decoder) + standardised subsequences (specs/core.std)",
        "automata-lib DFA objects are read through .transitions/.initial_state/.final_states and .accepts_input only",
        "pairs of basis elements are seeded samples in the quick tier",
    ]
    from props import dlayer

    dlayer.run(ctx, "C15")
