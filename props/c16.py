"""C16 - the 'finitely many simples' verdict matches the class's actual simples.

B layer (bounded stand-in).  PinWords.has_finite_simples, its three table-driven
helpers, Av.has_finitely_many_simples, FinitelyManySimplesStrategy and the CLI command
are compared with
  * explicit long members of the families of Brignall-Huczynska-Vatter generated
    geometrically in specs/simples.py (never the ten-pattern tables of the code),
  * the pin-sequence automaton verdict `has_finite_pinperms` (property C15),
  * the real simple permutations of Av(B) (Schmerl-Trotter consequence),
  * each other, under reordering / repetition / the eight symmetries.
"""
import argparse
import contextlib
import io
import itertools

from specs import core as S
from specs import growth as G
from specs import simples as X
from vlib import domains as D
from vlib.core import bad, check, ok

LEVEL = "exploration"

HELPERS = {
    "has_finite_alternations": "parallel",
    "has_finite_wedges_type_1": "wedge_centre",
    "has_finite_wedges_type_2": "wedge_side",
}


_LOCK_PID = None


def _own_av_lock():
    """Av._CACHE_LOCK is a multiprocessing.Lock created at import time; forked pool
    workers inherit the *same* OS semaphore, which serialises every Av query across
    all workers of the pool.  Each process gets its own lock (what a freshly started
    interpreter has); behaviour inside one process is unchanged."""
    global _LOCK_PID
    import multiprocessing
    import os

    if _LOCK_PID != os.getpid():
        from permuta import Av

        Av._CACHE_LOCK = multiprocessing.Lock()
        _LOCK_PID = os.getpid()


def _pw():
    from permuta.permutils.pin_words import PinWords

    return PinWords


def _fresh(perms):
    Perm = D.P()
    return [Perm(tuple(p)) for p in perms]


def _tuples(perms):
    return sorted({S.to_spec(p) for p in perms}, key=lambda t: (len(t), t))


def spec_special(b):
    return X.finitely_many_special(b)


def _want(perms, dfa=None):
    """Expected verdict: the three geometric families by the spec, pin sequences by
    the automaton test that property C15 checks against real containment."""
    b = _tuples(perms)
    sp = spec_special(b)
    if not sp:
        return False, sp
    return bool(_pw().has_finite_pinperms(list(_fresh(perms)), dfa=dfa)), sp


# ------------------------------------------------------------- spec self-check
@check("C16.spec.families")
def spec_families(item):
    kind, m = item
    if kind == "extensions":
        ext = X.simple_extensions(m)
        got = sorted((q, typ) for q, typ, *_ in ext)
        want = sorted(
            [(X.wedge_centre(m), "centre"), (S.sym_perm("reverse", X.wedge_centre(m)), "centre"),
             (X.wedge_side(m), "side"), (S.sym_perm("reverse", X.wedge_side(m)), "side")]
        )
        if got != want:
            return bad(want, got, "simple one-point extensions of the ^ wedge alternations are not exactly the two "
                                  "types (centre-bottom, side-between-apex) and their mirror images")
        for low in (True, False):
            w = X.wedge_alternation(m, low)
            if not X.is_alternation_vertical(w, m) or X.is_simple(w):
                return bad("a non-simple vertical alternation", w, "wedge alternation")
        return ok(True)
    if kind == "parallel":
        for odd in (True, False):
            p = X.parallel_alternation(m, odd)
            if not X.is_alternation_vertical(p, m):
                return bad("alternation", p, "parallel alternation is not an alternation")
            if not (G.is_increasing(p[:m]) and G.is_increasing(p[m:])):
                return bad("two increasing halves", p, "parallel alternation")
        if not X.is_simple(X.parallel_alternation(m, True)):
            return bad("simple", X.parallel_alternation(m, True), "parallel alternation (odd first) is simple for m >= 2")
        if not S.contains(X.parallel_alternation(m + 1, True), X.parallel_alternation(m, False)):
            return bad(True, False, "the two variants of parallel alternations are not interleaved in one chain")
        return ok(True)
    if kind == "chain":
        for fam in X.FAMILIES:
            a, b2 = X.FAMILIES[fam](m), X.FAMILIES[fam](m + 1)
            if not S.contains(b2, a):
                return bad(True, False, f"{fam}: member {m} is not contained in member {m + 1}")
            if fam != "parallel" and not X.is_simple(a):
                return bad("simple", a, f"{fam} member {m}")
            if fam == "wedge_centre":
                # the mirror image of a member sits between two members of the same chain
                # (not so for wedge_side: its mirror image is a different family copy)
                mirror = S.sym_perm("reverse", a)
                if not S.contains(X.FAMILIES[fam](m + 2), mirror):
                    return bad(True, False, f"{fam}: mirror image of member {m} not inside member {m + 2}")
        return ok(True)
    if kind == "bound":
        # every pattern with k points of a long member occurs in the member with parameter k + 1
        k = m
        for fam in X.FAMILIES:
            for s in X.orientations(fam):
                longm = X.member(fam, s, k + 4)
                shortm = X.member(fam, s, k + 1)
                for p in S.all_perms(k):
                    if S.contains(longm, p) != S.contains(shortm, p):
                        return bad(S.contains(longm, p), S.contains(shortm, p),
                                   f"chain bound |b|+1 too small: {fam}/{s}, pattern {p}")
        return ok(True)
    raise KeyError(kind)


# ------------------------------------------------------ the three table helpers
def _make_helper(fname, family):
    @check(f"C16.{fname}")
    def helper(basis):
        b = _tuples(basis)
        want = X.finitely_many(b, family)
        got = getattr(_pw(), fname)(list(_fresh(basis)))
        got_t = getattr(_pw(), fname)(tuple(reversed(_fresh(basis))))
        if got is not want:
            return bad(want, got, f"PinWords.{fname} vs 'some basis element embeds in the long {family} member of every "
                                  f"orientation' (geometric members, parameter |b|+1)")
        if got_t is not want:
            return bad(want, got_t, f"PinWords.{fname} on the reversed tuple")
        return ok(len(b) >= 1)

    return helper


for _f, _fam in HELPERS.items():
    _make_helper(_f, _fam)


@check("C16.has_finite_special_simples")
def special(basis):
    b = _tuples(basis)
    want = spec_special(b)
    got = _pw().has_finite_special_simples(list(_fresh(basis)))
    if got is not want:
        return bad(want, got, "PinWords.has_finite_special_simples vs the three geometric families")
    return ok(len(b) >= 1)


# ------------------------------------------------------------ the main verdict
@check("C16.has_finite_simples")
def finite_simples(item):
    basis, full = item
    PW = _pw()
    fresh = _fresh(basis)
    dfa = PW.make_dfa_for_basis(list(fresh)) if spec_special(_tuples(basis)) else None
    want, sp = _want(basis, dfa)
    got = PW.has_finite_simples(list(fresh))
    if got is not want:
        return bad(want, got, "PinWords.has_finite_simples vs (geometric families) and (pin sequences, C15)")
    if dfa is None:
        if not full or not fresh:
            return ok(sp)
        dfa = PW.make_dfa_for_basis(list(fresh))
    got_all = PW.has_finite_simples(list(fresh), check_all=True, dfa=dfa)
    if got_all is not want:
        return bad(want, got_all, "PinWords.has_finite_simples(check_all=True)")
    got_dfa = PW.has_finite_simples(list(fresh), dfa=dfa)
    if got_dfa is not want:
        return bad(want, got_dfa, "PinWords.has_finite_simples(dfa=make_dfa_for_basis(B))")
    return ok(sp)


@check("C16.shortcircuit")
def shortcircuit(basis):
    """Av.has_finitely_many_simples answers True without looking at pin words when
    the class is finite or polynomial (C13); the direct answer must agree."""
    _own_av_lock()
    b = _tuples(basis)
    fin, poly = G.spec_is_finite(b), G.spec_is_polynomial(b)
    if not (fin or poly):
        return ok(False)
    got = _pw().has_finite_simples(list(_fresh(basis)))
    if got is not True:
        return bad(True, got, f"class is {'finite' if fin else 'polynomial'} by the structure theorem, "
                              f"but PinWords.has_finite_simples says infinitely many simples")
    return ok(True)


# ------------------------------------------------------- the four interfaces
def _cli_simple(string):
    from permuta import cli

    out = io.StringIO()
    with contextlib.redirect_stdout(out):
        args = cli.get_parser().parse_args(["simple", string])
        if args.func is not cli.has_finitely_many_simples or not isinstance(args, argparse.Namespace):
            return "parser does not dispatch 'simple' to has_finitely_many_simples"
        args.func(args)
    return out.getvalue()


@check("C16.interfaces")
def interfaces(item):
    """Utility function, class method, strategy, CLI; the basis in the given
    arrangement (order / repetitions) and in several container types."""
    _own_av_lock()
    arr = item
    from permuta import Av, Basis
    from permuta.enumeration_strategies import FinitelyManySimplesStrategy

    want, sp = _want(arr)
    PW = _pw()
    fresh = _fresh(arr)
    Av.clear_cache()
    answers = {
        "PinWords.has_finite_simples(list)": PW.has_finite_simples(list(fresh)),
        "PinWords.has_finite_simples(Basis)": PW.has_finite_simples(Basis(*fresh)),
        "Av(Basis).has_finitely_many_simples()": Av(Basis(*fresh)).has_finitely_many_simples(),
        "Av(list).has_finitely_many_simples()": Av(list(fresh)).has_finitely_many_simples(),
        "FinitelyManySimplesStrategy(list).applies()": FinitelyManySimplesStrategy(list(fresh)).applies(),
        "FinitelyManySimplesStrategy(generator).applies()": FinitelyManySimplesStrategy(p for p in fresh).applies(),
    }
    for name, got in answers.items():
        if got is not want:
            return bad(want, got, f"{name} disagrees with the expected verdict")
    string = "_".join("".join(str(v) for v in p) for p in fresh)
    direct = _cli_simple(string)
    lines = direct.splitlines()
    fin_line = len(lines) == 1 and "has finitely many simples" in lines[0]
    inf_line = len(lines) == 1 and "has infinitely many simples" in lines[0]
    if (fin_line, inf_line) != (want, not want):
        return bad("one line saying " + ("finitely" if want else "infinitely") + " many simples", direct, "permtools simple")
    return ok(sp)


# -------------------------------------------------------------- symmetries
@check("C16.symmetry")
def symmetry(basis):
    Perm = D.P()
    PW = _pw()
    b = _tuples(basis)
    base = PW.has_finite_simples(list(_fresh(basis)))
    helpers = {f: getattr(PW, f)(list(_fresh(basis))) for f in HELPERS}
    moved = False
    for s in S.SYMS:
        img = [Perm(S.sym_perm(s, t)) for t in b]
        got = PW.has_finite_simples(list(reversed(img)))
        if got is not base:
            return bad(base, got, f"has_finite_simples on the image of the basis under {s}")
        for f in HELPERS:
            g = getattr(PW, f)(img)
            if g is not helpers[f]:
                return bad(helpers[f], g, f"{f} on the image under {s}")
        moved = moved or sorted(img) != sorted(Perm(t) for t in b)
    return ok(moved)


# ------------------------------------------------------------ Schmerl-Trotter
@check("C16.schmerl_trotter")
def schmerl_trotter(item):
    """Schmerl-Trotter: a simple permutation of length n >= 4 contains a simple one of
    length n-1 or n-2 (and every simple of length >= 4 contains 2413 or 3142).  So a
    class with infinitely many simples has simples of length 4 and in one of every two
    consecutive lengths; conversely two consecutive lengths >= 4 without simples
    prove that there are only finitely many."""
    _own_av_lock()
    basis, nmax = item
    from permuta import Av, Basis

    fresh = _fresh(basis)
    verdict = _pw().has_finite_simples(list(fresh))
    Av.clear_cache()
    av = Av(Basis(*fresh))
    counts = {}
    for n in range(4, nmax + 1):
        c = 0
        for p in av.of_length(n):
            if X.is_simple(S.to_spec(p)):
                c += 1
                if not verdict:
                    break  # existence is enough
        counts[n] = c
        if verdict and n > 4 and counts[n] == 0 and counts[n - 1] == 0:
            return ok(True)  # finiteness witnessed by enumeration
    if not verdict:
        if counts[4] == 0:
            return bad("a simple permutation of length 4 in the class", counts,
                       "verdict 'infinitely many simples' but neither 2413 nor 3142 is in the class")
        for n in range(4, nmax):
            if counts[n] == 0 and counts[n + 1] == 0:
                return bad(f"a simple permutation of length {n} or {n + 1}", counts,
                           "verdict 'infinitely many simples' but two consecutive lengths have none")
        return ok(True)
    return ok(False)  # finite verdict, not witnessed up to nmax: inconclusive


# ------------------------------------------------------------------- domains
def run(ctx):
    quick = ctx.tier == "quick"
    Perm = D.P()
    rng = D.subrng(ctx, "c16")
    pool0 = D.perms_upto(4)
    pool1 = D.perms_upto(4, 1)
    p5 = D.perms(5)

    ctx.run("C16.spec.families",
            [("extensions", m) for m in range(2, 7)] + [("parallel", m) for m in range(2, 8)]
            + [("chain", m) for m in range(2, 8)] + [("bound", k) for k in range(1, 5 if quick else 6)],
            chunk=1, rule="brute-force re-derivation of the two wedge simple types (2m = 4..12 points), chain and "
                          "bound properties of the three families")

    small0 = [c for r in (0, 1, 2) for c in itertools.combinations(pool0, r)]
    small1 = [c for r in (1, 2) for c in itertools.combinations(pool1, r)]
    triples1 = list(itertools.combinations(pool1, 3))
    classics = [
        (Perm((0, 1, 2)),), (Perm((1, 3, 0, 2)),), (Perm((2, 0, 3, 1)),), (Perm((0, 2, 1, 3)),), (Perm((0, 2, 1)),),
        (Perm((1, 3, 0, 2)), Perm((2, 0, 3, 1))),
        (Perm((0, 2, 1, 3)), Perm((3, 0, 2, 1))),
        (Perm((1, 3, 0, 2)), Perm((2, 0, 3, 1)), Perm((0, 1, 2, 3, 4))),
        (Perm((2, 1, 0, 3)), Perm((0, 3, 2, 1)), Perm((1, 3, 0, 2))),
        (Perm((3, 1, 0, 2)), Perm((0, 2, 1, 3)), Perm((2, 0, 3, 1, 4))),
        (Perm((0, 1, 2, 3)), Perm((3, 2, 1, 0))),
        (Perm((1, 0, 3, 2)), Perm((2, 3, 0, 1))),
    ]
    longer = []
    for _ in range(400 if quick else 4000):
        r = rng.choice((1, 2, 2, 3, 3, 4))
        longer.append(tuple(rng.choice(p5) if rng.random() < 0.5 else rng.choice(pool1) for _ in range(r)))
    cheap = small0 + (rng.sample(triples1, 1200) if quick else triples1) + classics + longer
    if quick:
        ctx.exhaustive = False
    for f in HELPERS:
        ctx.run(f"C16.{f}", cheap, chunk=100,
                rule="all bases of <= 2 perms of length <= 4 (incl. empty basis / empty perm), 3-element bases (1200 "
                     "seeded quick / all 5456 thorough), classics from the test-suite, seeded 1-4 element bases with "
                     "perms of length 5")
    ctx.run("C16.has_finite_special_simples", cheap, chunk=100, rule="same bases")
    ctx.add_sample("C16.has_finite_wedges_type_1", classics[6])

    # bases that reach the automaton: special simples finite
    def reaches_pins(b):
        return spec_special(_tuples(b))

    heavy_all = small1 + classics
    heavy_pin = [b for b in heavy_all if reaches_pins(b)]
    heavy_nopin = [b for b in heavy_all if not reaches_pins(b)]
    tri_pin = [b for b in rng.sample(triples1, 400 if quick else 900) if reaches_pins(b)]
    if quick:
        main = [(b, True) for b in rng.sample(heavy_pin, 80) + classics + tri_pin[:15]]
        main += [(b, j % 8 == 0) for j, b in enumerate(heavy_nopin)]
    else:
        main = [(b, True) for b in heavy_pin + heavy_nopin + tri_pin]
    ctx.run("C16.has_finite_simples", main, chunk=6,
            rule="bases of <= 2 perms (length 1-4; quick: all that fail the special-simples test + 80 seeded that pass it; "
                 "thorough: all 561) + classics + seeded 3-element bases that pass the special-simples test; the flag says whether the check_all / dfa= routes are also exercised when the special-simples test "
                 "already fails (quick: every 8th); non-trivial = the pin-sequence automaton is consulted")
    ctx.add_sample("C16.has_finite_simples", (classics[5], True))
    # bases with an element of length 6, in particular one that is NOT a pin permutation (every permutation of
    # length <= 5 is one; 56 of the 720 of length 6 are not): no pin word exists for that element
    from specs import pins as _pins
    p6 = D.perms(6)
    nonpin6 = [Perm(t) for t in _pins.nonpin_perms(6)]  # by the spec's own enumerator / decoder, not by the library
    six = []
    for j in range(18 if quick else 120):
        big = rng.choice(nonpin6) if j % 3 else rng.choice(p6)
        rest = [rng.choice(pool1[1:]) for _ in range(rng.choice((0, 1, 1, 2)))]
        six.append((tuple(rest + [big]), True))
    six += [((Perm((0, 2, 1)), Perm((3, 4, 5, 0, 1, 2))), True), ((Perm((0, 1, 2, 3)), Perm((2, 1, 0, 5, 4, 3))), True)]
    ctx.run("C16.has_finite_simples", six, chunk=10,
            rule=f"{len(six)} seeded bases of 1-3 perms with one element of length 6, two thirds of them with one of the "
                 f"{len(nonpin6)} permutations of length 6 that are not pin permutations")

    sc = [b for b in small1 + (rng.sample(triples1, 300) if quick else rng.sample(triples1, 2000))
          if G.spec_is_polynomial(_tuples(b)) or G.spec_is_finite(_tuples(b))]
    ctx.run("C16.shortcircuit", sc if not quick else rng.sample(sc, min(len(sc), 100)), chunk=6,
            rule="bases that are finite or polynomial by the C13 spec: the direct verdict must be 'finitely many'")

    inter = []
    src = (rng.sample(heavy_pin, 24) + rng.sample(heavy_nopin, 30) + classics) if quick else (rng.sample(heavy_pin, 150) + rng.sample(heavy_nopin, 150) + tri_pin[:50])
    for b in src:
        arr = list(b)
        if rng.random() < 0.5:
            arr += [rng.choice(arr)]
        rng.shuffle(arr)
        inter.append(tuple(arr))
    ctx.run("C16.interfaces", inter, chunk=3,
            rule="bases in a seeded order with repetitions x {function on list/Basis, Av method via Basis/list, "
                 "strategy via list/generator, CLI through its parser}")

    symm = (rng.sample(heavy_pin, 24) + rng.sample(heavy_nopin, 60) + classics[:8]) if quick else (heavy_pin + rng.sample(heavy_nopin, 200) + tri_pin[:40])
    ctx.run("C16.symmetry", symm, chunk=2,
            rule="bases x 8 symmetric images (geometric spec map), each image in reversed order; the three helpers too")

    nmax = 8 if quick else 9
    st = [(b, nmax) for b in (small1 + classics[:7] if not quick else
                              rng.sample(heavy_pin, 100) + rng.sample(heavy_nopin, 120) + classics[:7])]
    ctx.run("C16.schmerl_trotter", st, chunk=4,
            rule=f"bases of <= 2 perms: verdict 'infinite' => a simple of length 4 and in one of every two consecutive "
                 f"lengths 4..{nmax} of Av(B) (permuta Av, spec is_simple); verdict 'finite' is counted as non-trivial "
                 f"when two consecutive lengths without simples are seen")
    ctx.assumptions += [
        "B layer: bounded.  Brignall-Ruskuc-Vatter: finitely many simples <=> finitely many parallel alternations, wedge "
        "simples of types 1 and 2 and proper pin sequences (theorem used as stated)",
        "type 1 = extra point between the apex points below the wedge, type 2 = extra point beside the wedge separating "
        "the apex values; that these are the only two kinds is re-derived by brute force for 4..12 wedge points; which "
        "of them the library calls '1' and '2' was matched once against the library (a 1-bit choice)",
        "the pin-sequence part of the expected verdict is permuta's has_finite_pinperms (property C15)",
        "Schmerl-Trotter theorem; Av enumeration (C02); polynomial classes contain finitely many simples",
    ]
    from props import dlayer

    dlayer.run(ctx, "C16")
