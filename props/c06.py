"""C06 - pattern-inside-pattern containment implies containment in every permutation.

B layer: sub_mesh_pattern against the geometric region definition (and as the
*strongest* implied pattern), soundness of mesh-in-mesh occurrences against
containment sets over all permutations up to a length, region tests.
"""
import itertools

from specs import core as S
from vlib import domains as D
from props import containers  # noqa: F401  (registers its checks before the worker pool is forked)
from vlib.core import bad, check, ok

LEVEL = "exploration"


def spec_sub_mesh(mesh, indices):
    """(std of chosen points, {(x, y): the open rectangle between consecutive chosen
    columns/rows contains only shaded original cells and no original point})."""
    patt, shading = mesh
    n = len(patt)
    idx = sorted(indices)
    k = len(idx)
    new = S.std([patt[i] for i in idx])
    # doubled coordinates: point i at (2i, 2 patt[i]); original cell (a, b) has centre (2a-1, 2b-1)
    xs = [-2] + [2 * i for i in idx] + [2 * n]
    ys = [-2] + sorted(2 * patt[i] for i in idx) + [2 * n]
    cells = set()
    for x in range(k + 1):
        for y in range(k + 1):
            x0, x1, y0, y1 = xs[x], xs[x + 1], ys[y], ys[y + 1]
            full = all(
                (a, b) in shading
                for a in range(n + 1)
                for b in range(n + 1)
                if x0 < 2 * a - 1 < x1 and y0 < 2 * b - 1 < y1
            )
            free = not any(x0 < 2 * i < x1 and y0 < 2 * patt[i] < y1 for i in range(n))
            if full and free:
                cells.add((x, y))
    return (new, frozenset(cells))


def _witness_perms(patt):
    """The pattern itself and all its one-point extensions (enough to refute any
    cell that the sub-pattern must not shade)."""
    n = len(patt)
    out = [tuple(patt)]
    for i in range(n + 1):
        for v in range(n + 1):
            out.append(tuple([w + 1 if w >= v else w for w in patt[:i]] + [v] + [w + 1 if w >= v else w for w in patt[i:]]))
    return out


@check("C06.sub_mesh_pattern")
def sub_mesh_pattern(item):
    mesh, indices = item
    sm = S.to_spec(mesh)
    want = spec_sub_mesh(sm, indices)
    got = S.to_spec(mesh.sub_mesh_pattern(indices))
    nt = 0 < len(indices) < len(mesh) and len(want[1]) > 0
    if got != want:
        return bad(want, got, f"sub_mesh_pattern({tuple(indices)}) vs region definition", nt)
    # also accepts the indices in any order / as a generator
    got2 = S.to_spec(mesh.sub_mesh_pattern(i for i in reversed(list(indices))))
    if got2 != want:
        return bad(want, got2, "sub_mesh_pattern with indices in reverse order / generator", nt)
    return ok(nt)


_PERMS_CACHE = {}


def _perms_for(bound):
    """inputs carry the LENGTH BOUND of the target permutations, not the permutations themselves
    (shipping 873 permutations with each of a million inputs made the parent the bottleneck)"""
    if not isinstance(bound, int):
        return bound
    if bound not in _PERMS_CACHE:
        _PERMS_CACHE[bound] = tuple(D.perms_upto(bound))
    return _PERMS_CACHE[bound]


@check("C06.sub_is_strongest")
def sub_is_strongest(item):
    """Soundness: every occurrence of M restricted to the chosen points is an occurrence
    of the sub-pattern.  Strongest: every further cell is refuted by some permutation."""
    mesh, indices, perms = item
    perms = _perms_for(perms)
    sm = S.to_spec(mesh)
    idx = sorted(indices)
    sub = S.to_spec(mesh.sub_mesh_pattern(idx))
    k = len(idx)
    for q in perms:
        q = tuple(q)
        for occ in S.mesh_occurrences(sm, q):
            r = tuple(occ[i] for i in idx)
            if not S.order_iso([q[i] for i in r], sub[0]) or not S.mesh_occurrence_ok(r, sub[1], q):
                return bad("restricted occurrence is an occurrence of the sub-pattern", (q, occ, r), "sub_mesh_pattern is unsound")
    for cell in itertools.product(range(k + 1), repeat=2):
        if cell in sub[1]:
            continue
        refuted = False
        for q in _witness_perms(sm[0]):
            for occ in S.mesh_occurrences(sm, q):
                r = tuple(occ[i] for i in idx)
                if not S.mesh_occurrence_ok(r, sub[1] | {cell}, q):
                    refuted = True
                    break
            if refuted:
                break
        if not refuted:
            return bad(f"cell {cell} shaded (implied by the original)", sorted(sub[1]), "sub_mesh_pattern is not the strongest implied pattern")
    return ok(0 < k < len(mesh))


@check("C06.mesh_in_mesh")
def mesh_in_mesh(item):
    """m reported inside M at I  =>  for every perm, every occurrence f of M gives the
    occurrence f.I of m (witnessed by the corresponding points)."""
    small, big, perms = item
    perms = _perms_for(perms)
    ss, sb = S.to_spec(small), S.to_spec(big)
    occs = list(small.occurrences_in(big))
    flags = {
        "big.contains(small)": (big.contains(small), bool(occs)),
        "big.avoids(small)": (big.avoids(small), not occs),
        "small in big": (small in big, bool(occs)),
        "small.count_occurrences_in(big)": (small.count_occurrences_in(big), len(occs)),
        "small.contained_in(big)": (small.contained_in(big), bool(occs)),
        "small.avoided_by(big)": (small.avoided_by(big), not occs),
    }
    for name, (g, w) in flags.items():
        if g != w:
            return bad(w, g, f"{name} disagrees with the occurrence listing")
    for I in occs:
        if list(I) != sorted(set(I)) or not all(0 <= i < len(sb[0]) for i in I) or not S.order_iso([sb[0][i] for i in I], ss[0]):
            return bad("a classical occurrence of the underlying pattern", I, "reported occurrence is not even classical")
        for q in perms:
            q = tuple(q)
            for f in S.mesh_occurrences(sb, q):
                r = tuple(f[i] for i in I)
                if not S.mesh_occurrence_ok(r, ss[1], q):
                    return bad(f"{r} is an occurrence of the smaller pattern in {q}", "a shaded cell is hit",
                               f"unsound: reported occurrence {I}; {q} contains the larger pattern at {f}")
    return ok(bool(occs) and len(ss[1]) > 0)


@check("C06.lazy")
def lazy(item):
    """The witnesses of small.occurrences_in(big) consumed ONE AT A TIME, while between two of them the same objects
    are used for other searches (the same smaller pattern in another target, its underlying permutation in a
    permutation): the lazily consumed listing must equal the one computed in one go."""
    small, big, other = item
    want = list(small.occurrences_in(big))
    got = []
    gen = small.occurrences_in(big)
    twin = small.occurrences_in(other)
    for occ in gen:
        got.append(occ)
        next(twin, None)                                   # a second, suspended search with the same pattern object
        list(small.pattern.occurrences_in(other.pattern))  # the underlying classical pattern, fully
        big.contains(small)
    if got != want:
        return bad(want, got, "occurrences_in consumed lazily with other searches in between vs consumed at once")
    return ok(len(want) >= 2)


@check("C06.multi")
def multi(item):
    """big.contains(p1, ..., pk) reports that EVERY pi occurs in big, big.avoids(...) that none does: each must agree
    with the occurrence listings of the single patterns (whose soundness C06.mesh_in_mesh checks), for k = 0, 1, 2, 3
    and for plain mesh patterns as well as Bivincular / Vincular / Covincular instances."""
    big, smalls = item
    each = [bool(list(s.occurrences_in(big))) for s in smalls]
    got = (big.contains(*smalls), big.avoids(*smalls))
    want = (all(each), not any(each))
    if got != want:
        return bad(want, got, f"(contains(*patts), avoids(*patts)) vs the single listings {each}")
    return ok(len(set(each)) == 2)


@check("C06.perm_in_mesh")
def perm_in_mesh(item):
    """A classical pattern inside a mesh pattern / a mesh pattern inside a classical one."""
    perm, big, perms = item
    perms = _perms_for(perms)
    sb = S.to_spec(big)
    occs = list(perm.occurrences_in(big))
    want = S.occurrences(tuple(perm), sb[0])
    if occs != want:
        return bad(want, occs, "Perm.occurrences_in(MeshPatt) must be the occurrences in the underlying pattern")
    if occs:
        for q in perms:
            if S.contains(tuple(q), sb) and not S.contains(tuple(q), tuple(perm)):
                return bad("contained", "not contained", f"{tuple(q)} contains the mesh pattern but not the classical one")
    return ok(bool(occs))


@check("C06.region_tests")
def region_tests(mesh):
    patt, shading = S.to_spec(mesh)
    n = len(patt)
    nt = False
    for left, lower in itertools.product(range(n + 1), repeat=2):
        if mesh.is_shaded((left, lower)) is not ((left, lower) in shading):
            return bad((left, lower) in shading, mesh.is_shaded((left, lower)), f"is_shaded(({left},{lower}))")
        for right in range(left, n + 1):
            for upper in range(lower, n + 1):
                want = all((x, y) in shading for x in range(left, right + 1) for y in range(lower, upper + 1))
                got = mesh.is_shaded((left, lower), (right, upper))
                if got is not want:
                    return bad(want, got, f"is_shaded(({left},{lower}),({right},{upper}))")
                # points strictly inside the region spanned by cells left..right x lower..upper
                wantp = not any(left <= i < right and lower <= patt[i] < upper for i in range(n))
                gotp = mesh.is_pointfree((left, lower), (right, upper))
                if gotp is not wantp:
                    return bad(wantp, gotp, f"is_pointfree(({left},{lower}),({right},{upper}))")
                nt = nt or want
    return ok(nt)


def run(ctx):
    quick = ctx.tier == "quick"
    rng = D.subrng(ctx, "c06")
    Perm = D.P()
    m01 = list(D.all_mesh(0)) + list(D.all_mesh(1))
    m2 = list(D.all_mesh(2))
    m3 = list(D.sampled_mesh(rng, 3, 100 if quick else 600, boundary=False))
    m4 = list(D.sampled_mesh(rng, 4, 4 if quick else 20, boundary=False))
    dense3 = [D.mesh(t, D.random_shading(rng, 3, 0.85)) for t in itertools.permutations(range(3)) for _ in range(40 if quick else 200)]

    def subsets(m):
        n = len(m)
        return [c for r in range(n + 1) for c in itertools.combinations(range(n), r)]

    pool2 = m2
    subs = [(m, I) for m in m01 + pool2 + m3 + dense3 + m4 for I in subsets(m)]
    ctx.run("C06.sub_mesh_pattern", subs, chunk=200,
            rule="every point subset of mesh patterns of length <=2 (all / 300 seeded in quick), seeded length 3 (incl. dense shadings) and 4; "
                 "non-trivial = proper non-empty subset with a non-empty induced shading")
    ctx.add_sample("C06.sub_mesh_pattern", (D.mesh((3, 2, 1, 0), [(3, 2), (1, 3), (4, 2), (0, 3), (1, 2), (4, 3)]), (0, 1, 3)))
    t5 = 5 if quick else 6
    strong = [(m, I, t5) for m in (rng.sample(m2, 300 if quick else 1024) + dense3[:: (3 if quick else 1)] + m3[::3]) for I in subsets(m)]
    ctx.run("C06.sub_is_strongest", strong, chunk=8,
            rule=f"soundness over all perms <= {5 if quick else 6} and 'each extra cell is refuted by the pattern or a one-point extension'")
    # mesh in mesh: pairs
    tq = 5 if quick else 6
    smalls = m01 + rng.sample(m2, 150 if quick else 600)
    bigs = rng.sample(m2, 100 if quick else 400) + dense3[:: (4 if quick else 1)] + [D.mesh(t, D.random_shading(rng, 3, 0.6)) for t in itertools.permutations(range(3)) for _ in range(3 if quick else 20)]
    pairs = [(s, b, tq) for s in smalls for b in bigs if len(s) <= len(b)]
    pairs = rng.sample(pairs, min(len(pairs), 12000 if quick else 60000))
    ctx.run("C06.mesh_in_mesh", pairs, chunk=20,
            rule="(small, big) pairs of mesh patterns (small <=2 points, big 2-3 points, dense shadings included); soundness of every reported occurrence "
                 "against all occurrences of big in all perms up to length 5/6; non-trivial = some occurrence reported and small is shaded")
    # the smaller pattern as an instance of the bivincular subclasses (they override occurrences_in)
    from permuta import BivincularPatt, CovincularPatt, VincularPatt
    subcl = []
    for t in [(), (0,), (0, 1), (1, 0), (0, 1, 2), (1, 0, 2)]:
        k = len(t)
        adj = [(), (0,), (k,), (1,)] + ([(0, k)] if k else []) + ([(1, 2)] if k >= 2 else [])
        for I in dict.fromkeys(tuple(sorted(set(a for a in I_ if a <= k))) for I_ in adj):
            subcl.append(VincularPatt(Perm(t), I))
            subcl.append(CovincularPatt(Perm(t), I))
            subcl.append(BivincularPatt(Perm(t), I, (0,) if k else ()))
    sub_bigs = rng.sample(m2, 40 if quick else 200) + dense3[:: (12 if quick else 3)] + m3[:: (5 if quick else 2)] + [D.mesh(t, ()) for t in itertools.permutations(range(3))]
    sub_pairs = [(s, b, tq) for s in subcl for b in sub_bigs if len(s) <= len(b)]
    ctx.run("C06.mesh_in_mesh", sub_pairs, chunk=20,
            rule=f"{len(subcl)} Vincular / Covincular / Bivincular instances (length <= 3) as the smaller pattern x {len(sub_bigs)} mesh patterns "
                 "(incl. unshaded ones): same soundness check")
    mpool = m01 + rng.sample(m2, 60) + subcl[::3]
    multis = []
    for b in rng.sample(m2, 30 if quick else 120) + dense3[:: (15 if quick else 4)] + [D.mesh(t, ()) for t in itertools.permutations(range(3))]:
        multis.append((b, ()))
        for _ in range(12 if quick else 40):
            k = rng.choice((1, 2, 2, 3))
            multis.append((b, tuple(rng.choice(mpool) for _ in range(k))))
    ctx.run("C06.multi", multis, chunk=20,
            rule="mesh patterns x seeded lists of 0-3 patterns (mesh and bivincular-type): contains(*patts) / avoids(*patts) vs the single "
                 "occurrence listings; non-trivial = some listed pattern occurs and some does not")
    lz = []
    for _ in range(300 if quick else 2000):
        sm = rng.choice(m01 + m2[::7])
        lz.append((sm, rng.choice(m3 + dense3), rng.choice(m3 + m2)))
    for t in itertools.permutations(range(4)):  # many witnesses sharing prefixes: lightly shaded small patterns in unshaded targets
        for sm_t in ((0, 1), (1, 0), (0, 1, 2), (1, 0, 2)):
            lz.append((D.mesh(sm_t, ()), D.mesh(t, ()), D.mesh(t[::-1], ())))
            lz.append((D.mesh(sm_t, [(0, 0)]), D.mesh(t, [(0, 0)]), D.mesh(t, ())))
    lz += [(D.mesh((0,), ()), D.mesh((0, 1, 2, 3), ()), D.mesh((1, 0, 2), ())), (D.mesh((0, 1), ()), D.mesh((0, 1, 2, 3), ()), D.mesh((0, 1, 2), ()))]
    ctx.run("C06.lazy", lz, chunk=50,
            rule="seeded (small, big, other) triples: the listing of small in big consumed one witness at a time with a suspended second "
                 "search and other searches on the same objects in between vs the listing in one go; non-trivial = at least two witnesses")
    ctx.exhaustive = False
    pm = [(p, b, tq) for p in D.perms_upto(3) for b in rng.sample(m2 + dense3, 150 if quick else 800)]
    ctx.run("C06.perm_in_mesh", pm, chunk=20, rule="classical pattern inside mesh pattern")
    ctx.run("C06.region_tests", m01 + pool2 + m3 + dense3 + m4, chunk=50,
            rule="is_shaded / is_pointfree for every rectangle of every listed mesh pattern")
    ctx.assumptions += ["B layer: bounded; witnesses for 'strongest' are searched among the pattern itself and its one-point extensions (sufficient by construction)"]
    from props import dlayer
    containers.run_for(ctx, "C06")
    dlayer.run(ctx, "C06")
