"""C03 - mesh / bivincular / vincular / covincular occurrences in permutations are exact.

B layer: MeshPatt.occurrences_in(Perm) and every derived query against the region
definition (specs.core.mesh_occurrence_ok), bivincular-type patterns against an
independent *adjacency* definition (no shading involved), mixed pattern lists.
"""
import itertools

from specs import core as S
from vlib import domains as D
from vlib.core import bad, check, ok

LEVEL = "exploration"


def _classes():
    from permuta import BivincularPatt, CovincularPatt, MeshPatt, Perm, VincularPatt

    return Perm, MeshPatt, BivincularPatt, VincularPatt, CovincularPatt


def _fresh_mesh(m):
    Perm, MeshPatt = _classes()[:2]
    return MeshPatt(Perm(tuple(m.pattern)), frozenset(m.shading))


@check("C03.mesh_occurrences")
def mesh_occurrences(item):
    mesh, perm = item
    sm, sq = S.to_spec(mesh), tuple(perm)
    classical = S.occurrences(sm[0], sq)
    want = [idx for idx in classical if S.mesh_occurrence_ok(idx, sm[1], sq)]
    got = list(mesh.occurrences_in(perm))
    nt = 0 < len(want) < len(classical)
    if got != want:
        return bad(want, got, "MeshPatt.occurrences_in(Perm) vs 'no other point in a shaded cell'", nt)
    f = _fresh_mesh(mesh)
    derived = {
        "perm.contains(mesh)": (perm.contains(f), bool(want)),
        "perm.avoids(mesh)": (perm.avoids(f), not want),
        "mesh in perm": (f in perm, bool(want)),
        "perm.avoids_set([mesh])": (perm.avoids_set([f]), not want),
        "perm.count_occurrences_of(mesh)": (perm.count_occurrences_of(f), len(want)),
        "mesh.count_occurrences_in(perm)": (f.count_occurrences_in(perm), len(want)),
        "list(perm.occurrences_of(mesh))": (list(perm.occurrences_of(f)), want),
        "mesh.contained_in(perm)": (f.contained_in(perm), bool(want)),
        "mesh.avoided_by(perm)": (f.avoided_by(perm), not want),
    }
    for name, (g, w) in derived.items():
        if g != w or type(g) is not type(w):
            return bad(w, g, f"{name} disagrees with the mesh occurrence listing", nt)
    return ok(nt)


def _adjacency_occurrences(patt, adj_idx, adj_val, perm):
    """Independent definition of bivincular occurrences: classical occurrences f with
    f(i-1), f(i) adjacent positions for i in adj_idx (i = 0: f(0) is the first
    position, i = k: f(k-1) is the last) and likewise adjacent values for adj_val."""
    k, n = len(patt), len(perm)
    out = []
    for idx in S.occurrences(patt, perm):
        pos = [-1] + list(idx) + [n]
        vals = [-1] + sorted(perm[i] for i in idx) + [n]
        if all(pos[i + 1] - pos[i] == 1 for i in adj_idx) and all(
            vals[j + 1] - vals[j] == 1 for j in adj_val
        ):
            out.append(idx)
    return out


_CONTAINERS = (
    ("a list", list),
    ("a set", set),
    ("a generator", lambda xs: (x for x in xs)),
    ("an iterator", lambda xs: iter(list(xs))),
    ("a map object", lambda xs: map(int, list(xs))),
    ("a reversed object", lambda xs: reversed(list(xs))),
)


@check("C03.bivincular")
def bivincular(item):
    kind, patt, adj_idx, adj_val, perms = item
    Perm, MeshPatt, Biv, Vin, Cov = _classes()
    k = len(patt)
    if kind == "bi":
        obj = Biv(patt, adj_idx, adj_val)
    elif kind == "vin":
        obj = Vin(patt, adj_idx)
    else:
        obj = Cov(patt, adj_val)
    want_sh = frozenset((i, v) for i in adj_idx for v in range(k + 1)) | frozenset(
        (i, v) for v in adj_val for i in range(k + 1)
    )
    if frozenset(obj.shading) != want_sh:
        return bad(sorted(want_sh), sorted(obj.shading), f"shading of {kind} pattern vs full columns/rows")
    # the adjacency requirements are declared Iterable[int]: every container kind, one-shot ones included,
    # denotes the same pattern (added after seeded change C03_d - an eager validation pass that exhausts
    # iterators - was missed)
    for cname, conv in _CONTAINERS:
        if kind == "bi":
            other = Biv(patt, conv(adj_idx), conv(adj_val))
        elif kind == "vin":
            other = Vin(patt, conv(adj_idx))
        else:
            other = Cov(patt, conv(adj_val))
        if frozenset(other.shading) != want_sh:
            return bad(sorted(want_sh), sorted(other.shading), f"{kind} pattern built from {cname} adjacency requirements vs full columns/rows")
    as_mesh = MeshPatt(patt, want_sh)
    ri, rv = obj.get_adjacent_requirements()
    if ri != sorted(ri) or rv != sorted(rv) or not set(adj_idx) <= set(ri) or not set(adj_val) <= set(rv):
        return bad((sorted(adj_idx), sorted(adj_val)), (ri, rv), "get_adjacent_requirements loses a requirement / unsorted")
    back = frozenset((i, v) for i in ri for v in range(k + 1)) | frozenset((i, v) for v in rv for i in range(k + 1))
    if back != want_sh:
        return bad(sorted(want_sh), sorted(back), "get_adjacent_requirements does not describe the same shading")
    nt = False
    for perm in perms:
        want = _adjacency_occurrences(tuple(patt), adj_idx, adj_val, tuple(perm))
        got = list(obj.occurrences_in(perm))
        if got != want:
            return bad(want, got, f"{type(obj).__name__}.occurrences_in({tuple(perm)}) vs adjacency definition")
        if list(as_mesh.occurrences_in(perm)) != want:
            return bad(want, list(as_mesh.occurrences_in(perm)), "equivalent mesh pattern differs from adjacency definition")
        if perm.contains(obj) is not bool(want) or perm.avoids(obj) is bool(want) or (obj in perm) is not bool(want):
            return bad(bool(want), perm.contains(obj), f"contains/avoids/in of {type(obj).__name__} in {tuple(perm)}")
        if obj.count_occurrences_in(perm) != len(want):
            return bad(len(want), obj.count_occurrences_in(perm), "count_occurrences_in")
        if 0 < len(want) < len(S.occurrences(tuple(patt), tuple(perm))):
            nt = True
    return ok(nt)


@check("C03.mixed")
def mixed(item):
    patts, perm = item
    sq = tuple(perm)
    each = [S.contains(sq, S.to_spec(p)) for p in patts]
    res = {
        "contains(*mixed)": (perm.contains(*patts), all(each)),
        "avoids(*mixed)": (perm.avoids(*patts), not any(each)),
        "avoids_set(mixed)": (perm.avoids_set(list(patts)), not any(each)),
    }
    nt = len(set(each)) > 1
    for name, (g, w) in res.items():
        if g is not w:
            return bad(w, g, f"Perm.{name} on a mixed classical/mesh list", nt)
    return ok(nt)


@check("C03.dispatch")
def dispatch(item):
    """occurrences_in dispatches on the target type; anything else than Perm/MeshPatt
    is rejected (assert), never silently searched."""
    mesh, perm = item
    Perm, MeshPatt = _classes()[:2]
    try:
        list(mesh.occurrences_in(tuple(perm)))
    except (AssertionError, TypeError, AttributeError):
        pass
    else:
        return bad("AssertionError/TypeError", "a result", "occurrences_in(plain tuple) was accepted")
    return ok(True)


def run(ctx):
    quick = ctx.tier == "quick"
    Perm, MeshPatt, Biv, Vin, Cov = _classes()
    rng = D.subrng(ctx, "c03")
    qmax = 5 if quick else 6
    targets = D.perms_upto(qmax)
    # all mesh patterns of length <= 2
    small = list(D.all_mesh(0)) + list(D.all_mesh(1)) + list(D.all_mesh(2))
    if quick:
        # all of length 0,1; length 2: all shadings with <=2 or >=7 cells + seeded 160 of the rest per pattern
        keep = [m for m in small if len(m) < 2 or len(m.shading) <= 2 or len(m.shading) >= 7]
        rest = [m for m in small if len(m) == 2 and 2 < len(m.shading) < 7]
        keep += rng.sample(rest, 320)
        small_used = keep
    else:
        small_used = small
    ctx.run("C03.mesh_occurrences", ((m, q) for m in small_used for q in targets), chunk=400,
            rule=f"mesh patterns of length <=2 ({'boundary shadings + 320 seeded' if quick else 'all 1042'}) x all perms <= {qmax}; "
                 "non-trivial = shading removes some but not all classical occurrences")
    ctx.add_sample("C03.mesh_occurrences", (D.mesh((1, 0), [(1, 1), (2, 0)]), Perm((2, 0, 3, 1))))
    n3 = 120 if quick else 1500
    m3 = list(D.sampled_mesh(rng, 3, n3 // 6, boundary=not quick))
    t3 = D.perms_upto(5 if quick else 6, 3)
    ctx.run("C03.mesh_occurrences", ((m, q) for m in m3 for q in t3), chunk=300,
            rule=f"length-3 mesh patterns: {len(m3)} (seeded shadings{'' if quick else ' + all with <=1 or >=15 cells'}) x perms of length 3..{5 if quick else 6}")
    m4 = list(D.sampled_mesh(rng, 4, 1 if quick else 6, boundary=False))
    t4 = [D.random_perm(rng, n) for n in (5, 6, 7) for _ in range(10 if quick else 60)]
    ctx.run("C03.mesh_occurrences", ((m, q) for m in m4 for q in t4), chunk=100,
            rule="length-4 mesh patterns with seeded shadings x seeded perms of length 5-7")
    ctx.exhaustive = False
    # bivincular-type patterns
    items = []
    pt = D.perms_upto(3)
    bt = tuple(D.perms_upto(5 if quick else 6))
    for p in pt:
        k = len(p)
        subsets = [c for r in range(k + 2) for c in itertools.combinations(range(k + 1), r)]
        for I in subsets:
            items.append(("vin", p, I, (), bt))
            items.append(("cov", p, (), I, bt))
            for V in subsets:
                items.append(("bi", p, I, V, bt))
    ctx.run("C03.bivincular", items, chunk=4,
            rule=f"all adjacency requirement sets for every underlying pattern <=3, as Bivincular/Vincular/Covincular, "
                 f"x all perms <= {5 if quick else 6}")
    ctx.add_sample("C03.bivincular", ("bi", Perm((0, 2, 1)), (1,), (0, 3), (Perm((0, 3, 2, 1)),)))
    # mixed lists
    pool = [Perm((0, 1)), Perm((1, 0)), Perm((0, 2, 1)), Perm((1, 2, 0)),
            D.mesh((0, 1), [(1, 1)]), D.mesh((1, 0), [(0, 0), (2, 2)]), D.mesh((0,), [(0, 0), (1, 1)]),
            Vin(Perm((0, 1)), (1,)), Cov(Perm((1, 0)), (1,)), Biv(Perm((0, 1, 2)), (1,), (2,)),
            D.mesh((0, 2, 1), [(1, 3), (2, 0)])]
    mixes = [(ps, q) for r in (1, 2, 3) for ps in itertools.combinations(pool, r) for q in D.perms_upto(4 if quick else 5)]
    ctx.run("C03.mixed", mixes, chunk=300, rule="all 1-3 element lists from an 11-pattern pool of classical/mesh/bivincular-type patterns x perms")
    ctx.run("C03.dispatch", [(m, q) for m in small_used[::37] for q in D.perms_upto(4)], chunk=200,
            rule="target-type dispatch: plain tuples are rejected, never silently searched")
    ctx.assumptions += [
        "B layer: bounded; spec = region formulation of 'no other point in a shaded cell' and adjacency formulation for bivincular patterns",
    ]
    from props import dlayer
    dlayer.run(ctx, "C03")
