"""C01 - classical pattern occurrences, containment and counts are exact.

B layer (bounded stand-in): run-time contracts of Perm.occurrences_in and of every
derived query, evaluated on the real code over all (pattern, permutation) pairs of a
size range and over reuse histories of one pattern object.
D layer: see props/c01 `deductive()` (wrapper consistency, memo discipline).
"""
import itertools
from math import comb

from specs import core as S
from vlib import domains as D
from props import containers  # noqa: F401  (registers its checks before the worker pool is forked)
from vlib.core import bad, check, ok

LEVEL = "proof"  # every function on the path is under a verified contract; downgraded by the evidence writer unless every obligation is discharged on the run


def _fresh(p):
    """A new object with the same value: no memoised search table."""
    return type(p)(tuple(p))


@check("C01.occurrences")
def occurrences(item):
    patt, perm = item
    sp, sq = tuple(patt), tuple(perm)
    want = S.occurrences(sp, sq)
    got = list(_fresh(patt).occurrences_in(perm))
    nt = 0 < len(want) < comb(len(sq), len(sp))
    if got != want:
        return bad(want, got, "Perm.occurrences_in: listing differs from the definition (order matters)", nt)
    f = _fresh(patt)
    derived = {
        "perm.contains(patt)": (perm.contains(f), bool(want)),
        "perm.avoids(patt)": (perm.avoids(f), not want),
        "patt in perm": (f in perm, bool(want)),
        "perm.avoids_set([patt])": (perm.avoids_set([f]), not want),
        "perm.avoids_set(iter)": (perm.avoids_set(iter((f,))), not want),
        "perm.count_occurrences_of(patt)": (perm.count_occurrences_of(f), len(want)),
        "patt.count_occurrences_in(perm)": (f.count_occurrences_in(perm), len(want)),
        "list(perm.occurrences_of(patt))": (list(perm.occurrences_of(f)), want),
        "patt.contained_in(perm)": (f.contained_in(perm), bool(want)),
        "patt.avoided_by(perm)": (f.avoided_by(perm), not want),
        "perm.occurrences(patt)": (perm.occurrences(f), len(want)),
    }
    for name, (g, w) in derived.items():
        if g != w or type(g) is not type(w):
            return bad(w, g, f"{name} disagrees with the occurrence listing", nt)
    return ok(nt)


@check("C01.multi")
def multi(item):
    patts, perm = item
    sq = tuple(perm)
    each = [S.contains(sq, tuple(p)) for p in patts]
    fresh = [_fresh(p) for p in patts]
    res = {
        "contains(*ps)": (perm.contains(*fresh), all(each)),
        "avoids(*ps)": (perm.avoids(*fresh), not any(each)),
        "avoids_set(list)": (perm.avoids_set(list(fresh)), not any(each)),
        "avoids_set(set)": (perm.avoids_set(set(fresh)), not any(each)),
        "avoids_set(generator)": (perm.avoids_set(p for p in fresh), not any(each)),
    }
    nt = len(set(each)) > 1
    for name, (g, w) in res.items():
        if g is not w:
            return bad(w, g, f"Perm.{name} on several patterns", nt)
    return ok(nt)


@check("C01.colours")
def colours(item):
    patt, perm, pc, qc = item
    want = S.occurrences(tuple(patt), tuple(perm), pc, qc)
    got = list(_fresh(patt).occurrences_in(perm, pc, qc))
    nt = 0 < len(want) < len(S.occurrences(tuple(patt), tuple(perm)))
    if got != want:
        return bad(want, got, "occurrences_in with colourings (self_colours, patt_colours)", nt)
    return ok(nt)


@check("C01.history")
def history(item):
    """One pattern object reused for a sequence of searches (its bound table is
    memoised on first use), with partially consumed generators left open."""
    patt, perms = item
    obj = _fresh(patt)
    sp = tuple(patt)
    open_gens = []
    snap = None
    for j, perm in enumerate(perms):
        want = S.occurrences(sp, tuple(perm))
        if j % 3 == 1:
            g = obj.occurrences_in(perm)
            first = next(g, None)
            open_gens.append((g, first, want, tuple(perm)))
        got = list(obj.occurrences_in(perm))
        if got != want:
            return bad(want, got, f"search #{j} with a reused pattern object, target {tuple(perm)}")
        if perm.contains(obj) is not bool(want):
            return bad(bool(want), perm.contains(obj), f"contains #{j} with a reused pattern object")
        table = getattr(obj, "_cached_pattern_details", None)
        if table is not None:
            cur = [tuple(t) for t in table]
            if snap is None:
                snap = cur
            elif cur != snap:
                return bad(snap, cur, "memoised search table changed between searches")
    # searches that were suspended while other searches ran with the same pattern object
    for g, first, want, tgt in open_gens:
        rest = list(g)
        got = ([] if first is None else [first]) + rest
        if got != want:
            return bad(want, got, f"a search suspended after its first result and resumed after other searches with the same pattern object, target {tgt}")
    # two searches of the same pattern object advanced in lock step
    for a, b in zip(perms, perms[1:]):
        ga, gb = obj.occurrences_in(a), obj.occurrences_in(b)
        la, lb = [], []
        for xa, xb in itertools.zip_longest(ga, gb):
            if xa is not None:
                la.append(xa)
            if xb is not None:
                lb.append(xb)
        if la != S.occurrences(sp, tuple(a)) or lb != S.occurrences(sp, tuple(b)):
            return bad((S.occurrences(sp, tuple(a)), S.occurrences(sp, tuple(b))), (la, lb),
                       f"two searches of one pattern object interleaved step by step, targets {tuple(a)}, {tuple(b)}")
    return ok(len(perms) > 1 and len(sp) > 1)


@check("C01.floor_ceiling")
def floor_ceiling(perm):
    t = tuple(perm)
    want = []
    for k, v in enumerate(t):
        below = [(t[i], i) for i in range(k) if t[i] < v]
        above = [(t[i], i) for i in range(k) if t[i] > v]
        want.append((max(below)[1] if below else -1, min(above)[1] if above else -1))
    got = list(_fresh(perm).left_floor_and_ceiling())
    if got != want:
        return bad(want, got, "left_floor_and_ceiling vs definition")
    det = _fresh(perm)._pattern_details()
    n = len(t)
    wantd = [
        (f, c, t[k] if f == -1 else t[k] - t[f], n - t[k] if c == -1 else t[c] - t[k])
        for k, (f, c) in enumerate(want)
    ]
    if [tuple(x) for x in det] != wantd:
        return bad(wantd, det, "_pattern_details vs (floor, ceiling, value gaps)")
    return ok(n >= 3)


def run(ctx):
    quick = ctx.tier == "quick"
    Perm = D.P()
    rng = D.subrng(ctx, "c01")
    # --- occurrences + derived queries: exhaustive pairs
    pmax, qmax = (5, 7) if quick else (5, 8)
    patts = D.perms_upto(pmax)
    targets = D.perms_upto(qmax)
    pairs = ((p, q) for p in patts for q in targets)
    ctx.run("C01.occurrences", pairs, chunk=400,
            rule=f"all (pattern, permutation) with |pattern|<={pmax}, |permutation|<={qmax} (incl. pattern longer than "
                 f"permutation and the empty pattern); non-trivial = 0 < #occurrences < C(n,k)")
    ctx.add_sample("C01.occurrences", (Perm((1, 0, 2)), Perm((3, 1, 0, 2, 4))))
    # larger patterns against longer permutations, seeded
    extra = []
    for _ in range(600 if quick else 6000):
        k = rng.choice((5, 6) if quick else (5, 6, 7))
        n = rng.choice((6, 7, 8) if quick else (7, 8, 9))
        if rng.random() < 0.6:
            q = D.random_perm(rng, n)
            idx = sorted(rng.sample(range(n), min(k, n)))
            p = Perm(S.std([q[i] for i in idx]))
        else:
            p, q = D.random_perm(rng, min(k, n)), D.random_perm(rng, n)
        extra.append((p, q))
    ctx.run("C01.occurrences", extra, chunk=40,
            rule="seeded pairs with |pattern| 5-7, |permutation| 6-9, 60% with a planted occurrence")
    ctx.exhaustive = False  # seeded part is sampled; the first block is exhaustive to its bound
    # --- several patterns at once
    pool = D.perms_upto(3)
    multis = []
    qs = D.perms_upto(5 if quick else 6)
    for r in (0, 1, 2, 3):
        for ps in itertools.combinations(pool, r):
            if r == 3 and rng.random() > (0.15 if quick else 1.0):
                continue
            for q in (qs if r < 3 else rng.sample(qs, 20 if quick else 60)):
                multis.append((ps, q))
    ctx.run("C01.multi", multis, chunk=300,
            rule="all 0-2 element pattern lists (all 3-element ones in thorough) from perms <=3 x perms; "
                 "non-trivial = patterns disagree")
    # --- colourings
    cols = []
    for p in D.perms_upto(3, 1):
        for q in D.perms_upto(4 if quick else 5, 1):
            for pc in itertools.product((0, 1), repeat=len(p)):
                for qc in itertools.product((0, 1), repeat=len(q)):
                    cols.append((p, q, pc, qc))
    if quick:
        cols = rng.sample(cols, min(len(cols), 12000))
    ctx.run("C01.colours", cols, chunk=500,
            rule="all 2-colourings of pattern (<=3) and permutation (<=4 quick sample / <=5 thorough all)")
    # --- histories with one reused pattern object
    hist = []
    tgt = D.perms_upto(6, 2)
    for p in D.perms_upto(4, 1):
        for _ in range(2 if quick else 12):
            hist.append((p, tuple(rng.sample(tgt, 12))))
    ctx.run("C01.history", hist, chunk=8,
            rule="each pattern object (<=4) reused over 12 seeded targets (<=6), generators left partially consumed")
    # --- floor/ceiling table
    ctx.run("C01.floor_ceiling", D.perms_upto(7 if quick else 8), chunk=500,
            rule="all permutations up to length 7 (8 thorough)")
    ctx.assumptions += [
        "B layer: bounded, exhaustive only up to the stated sizes; spec = brute force over itertools.combinations",
        "CPython tuple/list equality and itertools.combinations order (lexicographic)",
    ]
    from props import dlayer
    containers.run_for(ctx, "C01")
    dlayer.run(ctx, "C01")
