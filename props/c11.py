"""C11 - every permutation statistic returns the value its definition and name promise.

B layer (bounded stand-in).  Table driven: one @check per statistic / listing
("C11.stat.<method>"), one per entry of PermutationStatistic._STATISTICS
("C11.table.<slug of the name>": the entry *named* N must compute N), plus the
distribution and preservation tools evaluated against the defining identities on
bijections and classes given as data.  Oracles: specs/statistics.py, specs/devices.py.
"""
import itertools
import re
from collections import Counter

from specs import core as S
from specs import devices as DV
from specs import statistics as ST
from vlib import codec
from vlib import domains as D
from vlib.core import bad, check, ok

LEVEL = "exploration"


def _t(perm):
    return tuple(tuple.__iter__(perm))


def _P(t):
    return D.P()(t)


def _PS():
    from permuta.permutils.statistics import PermutationStatistic

    return PermutationStatistic


def _is_int(x):
    return isinstance(x, int) and not isinstance(x, bool)


class _Wrong:
    """Marker for a result of the wrong type (so that it can never equal a spec value)."""

    def __init__(self, what):
        self.what = what

    def __repr__(self):
        return f"<{self.what}>"


def _lst(x):
    """The function is documented to return a list."""
    return x if type(x) is list else _Wrong(f"not a list: {type(x).__name__} {x!r}")


def _int(x):
    return x if _is_int(x) else _Wrong(f"not an int: {type(x).__name__} {x!r}")


def _bool(x):
    return x if isinstance(x, bool) else _Wrong(f"not a bool: {type(x).__name__} {x!r}")


def _unordered(x):
    """A list whose order is not specified (list(set & set)): sorted, duplicates kept."""
    return sorted(x) if type(x) is list else _Wrong(f"not a list: {type(x).__name__} {x!r}")


def _patt_counts(res):
    """threepats / fourpats: a mapping Perm -> count in which absent patterns read 0."""
    Perm = D.P()
    if not all(isinstance(k, Perm) for k in res):
        return _Wrong("keys are not Perm")
    probe = Perm((1, 2, 0, 3, 4, 5, 6, 7, 8))  # never a key
    if res[probe] != 0:
        return _Wrong("absent pattern does not read 0")
    return {_t(k): v for k, v in res.items() if v != 0}


# --------------------------------------------------------------------------
# name -> (real: Perm -> comparable value, spec: tuple -> value, listing method or None)
# `listing`: for a counting form, the listing whose length it must equal.
# --------------------------------------------------------------------------
def _gen(m):
    return lambda p: list(getattr(p, m)())


def _retlist(m):
    return lambda p: _lst(getattr(p, m)())


def _cnt(m):
    return lambda p: _int(getattr(p, m)())


def _len_of(spec):
    return lambda t: len(spec(t))


STATS = {}


def _add(name, real, spec, listing=None):
    assert name not in STATS
    STATS[name] = (real, spec, listing)


for _m, _spec in (
    ("fixed_points", ST.fixed_points),
    ("strong_fixed_points", ST.strong_fixed_points),
    ("descents", ST.descents),
    ("ascents", ST.ascents),
    ("peaks", ST.peaks),
    ("valleys", ST.valleys),
    ("bends", ST.bends),
    ("pinnacles", ST.pinnacles),
    ("ltrmin", ST.ltrmin),
    ("ltrmax", ST.ltrmax),
    ("rtlmin", ST.rtlmin),
    ("rtlmax", ST.rtlmax),
    ("inversions", ST.inversions),
    ("non_inversions", ST.non_inversions),
    ("all_bonds", ST.all_bonds),
    ("inc_bonds", ST.inc_bonds),
    ("dec_bonds", ST.dec_bonds),
    ("cyclic_peaks", ST.cyclic_peaks),
    ("cyclic_valleys", ST.cyclic_valleys),
    ("double_excedance", ST.double_excedance),
    ("double_drops", ST.double_drops),
):
    _add(_m, _gen(_m), _spec)

for _m, _spec in (
    ("descent_set", ST.descents),
    ("ascent_set", ST.ascents),
    ("peak_list", ST.peaks),
    ("valley_list", ST.valleys),
    ("bend_list", ST.bends),
    ("pinnacle_set", ST.pinnacles),
    ("cyclic_peaks_list", ST.cyclic_peaks),
    ("cyclic_valleys_list", ST.cyclic_valleys),
    ("double_excedance_list", ST.double_excedance),
    ("double_drops_list", ST.double_drops),
    ("rank_encoding", ST.rank_encoding),
):
    _add(_m, _retlist(_m), _spec)

for _m, _spec in (
    ("foremaxima", ST.foremaxima),
    ("afterminima", ST.afterminima),
    ("aftermaxima", ST.aftermaxima),
    ("foreminima", ST.foreminima),
):
    _add(_m, (lambda m: lambda p: _unordered(getattr(p, m)()))(_m), _spec)

_add("cycle_decomp", lambda p: [_lst(c) for c in p.cycle_decomp()], ST.cycles)
_add("longestruns_ascending", lambda p: p.longestruns_ascending(), lambda t: ST.longestruns(t, True))
_add("longestruns_descending", lambda p: p.longestruns_descending(), lambda t: ST.longestruns(t, False))
_add("rtlmax_ltrmin_decomposition", lambda p: [_lst(x) for x in p.rtlmax_ltrmin_decomposition()], ST.layers)
_add("threepats", lambda p: _patt_counts(p.threepats()), lambda t: ST.pattern_counts(t, 3))
_add("fourpats", lambda p: _patt_counts(p.fourpats()), lambda t: ST.pattern_counts(t, 4))

for _m, _spec, _listing in (
    ("count_fixed_points", ST.fixed_points, "fixed_points"),
    ("count_descents", ST.descents, "descents"),
    ("count_ascents", ST.ascents, "ascents"),
    ("count_peaks", ST.peaks, "peaks"),
    ("count_pinnacles", ST.pinnacles, "pinnacles"),
    ("count_valleys", ST.valleys, "valleys"),
    ("count_ltrmin", ST.ltrmin, "ltrmin"),
    ("count_ltrmax", ST.ltrmax, "ltrmax"),
    ("count_rtlmin", ST.rtlmin, "rtlmin"),
    ("count_rtlmax", ST.rtlmax, "rtlmax"),
    ("count_inversions", ST.inversions, "inversions"),
    ("count_non_inversions", ST.non_inversions, "non_inversions"),
    ("count_bonds", ST.all_bonds, "all_bonds"),
    ("count_inc_bonds", ST.inc_bonds, "inc_bonds"),
    ("count_dec_bonds", ST.dec_bonds, "dec_bonds"),
    ("count_cyclic_peaks", ST.cyclic_peaks, "cyclic_peaks"),
    ("count_cyclic_valleys", ST.cyclic_valleys, "cyclic_valleys"),
    ("count_double_excedance", ST.double_excedance, "double_excedance"),
    ("count_double_drops", ST.double_drops, "double_drops"),
    ("count_foremaxima", ST.foremaxima, "foremaxima"),
    ("count_afterminima", ST.afterminima, "afterminima"),
    ("count_aftermaxima", ST.aftermaxima, "aftermaxima"),
    ("count_foreminima", ST.foreminima, "foreminima"),
    ("count_cycles", ST.cycles, "cycle_decomp"),
    ("count_rtlmax_ltrmin_layers", ST.layers, "rtlmax_ltrmin_decomposition"),
):
    _add(_m, _cnt(_m), _len_of(_spec), _listing)

for _m, _spec in (
    ("count_column_sum_primes", ST.count_column_sum_primes),
    ("count_bounces", ST.count_bounces),
    ("order", ST.order),
    ("major_index", ST.major_index),
    ("depth", ST.depth),
    ("maximal_decreasing_run", ST.maximal_decreasing_run),
    ("length_of_longestrun_ascending", lambda t: ST.longestruns(t, True)[0]),
    ("length_of_longestrun_descending", lambda t: ST.longestruns(t, False)[0]),
    ("max_drop_size", ST.max_drop_size),
    ("holeyness", ST.holeyness),
):
    _add(_m, _cnt(_m), _spec)

for _m, _spec in (
    ("is_involution", ST.is_involution),
    ("is_increasing", lambda t: t == tuple(range(len(t)))),
    ("is_decreasing", lambda t: t == tuple(range(len(t) - 1, -1, -1))),
):
    _add(_m, (lambda m: lambda p: _bool(getattr(p, m)()))(_m), _spec)


def _real_min_gapsize(p):
    if len(p) < 2:
        # the minimum over no pairs is undefined; any outcome (the library raises
        # ValueError) is accepted, it only must not be some other crash
        try:
            p.min_gapsize()
        except ValueError:
            pass
        return None
    return _int(p.min_gapsize())


_add("min_gapsize", _real_min_gapsize, ST.min_gapsize)

ALIASES = {
    "num_descents": "count_descents",
    "num_ascents": "count_ascents",
    "num_peaks": "count_peaks",
    "num_pinnacles": "count_pinnacles",
    "num_column_sum_primes": "count_column_sum_primes",
    "num_valleys": "count_valleys",
    "num_ltrmin": "count_ltrmin",
    "num_bonds": "count_bonds",
    "bonds": "count_bonds",
    "num_inc_bonds": "count_inc_bonds",
    "num_dec_bonds": "count_dec_bonds",
    "num_cycles": "count_cycles",
    "is_identity": "is_increasing",
    "num_rtlmax_ltrmin_layers": "count_rtlmax_ltrmin_layers",
}

_IDENT_CACHE = {}


def _nontrivial(name, spec, t, want):
    """Measured: the definition's value differs from its value on the identity of the
    same length (and the length is at least 2)."""
    n = len(t)
    if n < 2:
        return False
    key = (name, n)
    if key not in _IDENT_CACHE:
        _IDENT_CACHE[key] = spec(tuple(range(n)))
    return want != _IDENT_CACHE[key]


def _make_stat_check(name, real, spec, listing):
    def fn(perm):
        t = _t(perm)
        want = spec(t)
        got = real(perm)
        nt = _nontrivial(name, spec, t, want)
        if isinstance(got, _Wrong) or got != want:
            return bad(want, repr(got) if isinstance(got, _Wrong) else got,
                       f"Perm.{name} vs the independent definition", nt)
        if listing is not None:
            size = len(list(getattr(perm, listing)()))
            if got != size:
                return bad(size, got, f"Perm.{name}() != len(list(Perm.{listing}()))", nt)
        return ok(nt)

    fn.__name__ = f"stat_{name}"
    return check(f"C11.stat.{name}")(fn)


for _name, (_real, _spec, _listing) in STATS.items():
    _make_stat_check(_name, _real, _spec, _listing)


def _make_alias_check(alias, canon):
    _real, spec, _l = STATS[canon]

    def fn(perm):
        t = _t(perm)
        want = spec(t)
        got = getattr(perm, alias)()
        nt = _nontrivial(canon, spec, t, want)
        if got != want or type(got) is not type(want):
            return bad(want, got, f"Perm.{alias} (alias of {canon}) vs the definition of {canon}", nt)
        return ok(nt)

    fn.__name__ = f"alias_{alias}"
    return check(f"C11.stat.alias.{alias}")(fn)


for _alias, _canon in ALIASES.items():
    _make_alias_check(_alias, _canon)


STEP_FUNCS = (
    ("descents", ST.descents, list, None),
    ("descent_set", ST.descents, _lst, None),
    ("count_descents", ST.descents, _int, len),
    ("num_descents", ST.descents, _int, len),
    ("ascents", ST.ascents, list, None),
    ("ascent_set", ST.ascents, _lst, None),
    ("count_ascents", ST.ascents, _int, len),
    ("num_ascents", ST.ascents, _int, len),
)


@check("C11.stat.step_size")
def step_size(item):
    """descents/ascents (+ _set, count_, num_) with an explicit step size, passed
    positionally and by keyword; ValueError for step_size < 1."""
    perm, step = item
    t = _t(perm)
    nt = False
    for name, spec, norm, post in STEP_FUNCS:
        for how in ("positional", "keyword"):
            call = (lambda: getattr(perm, name)(step)) if how == "positional" else (
                lambda: getattr(perm, name)(step_size=step))
            if step < 1:
                try:
                    res = norm(call())
                except ValueError:
                    continue
                return bad("ValueError (step_size < 1)", res, f"Perm.{name}({how} step_size={step})")
            want = spec(t, step)
            if post:
                want = post(want)
            got = norm(call())
            if isinstance(got, _Wrong) or got != want:
                return bad(want, repr(got) if isinstance(got, _Wrong) else got,
                           f"Perm.{name}({how} step_size={step}) vs definition")
            nt = nt or bool(want) and want != spec(t)
    return ok(nt)


def _scramble(obj, depth=0):
    """mutate a returned container in place, as a caller may: nested containers first, then the outer
    one is emptied (lists also get a marker appended, so that an empty answer changes too)"""
    import collections
    if depth > 4:
        return False
    if isinstance(obj, (list, collections.deque)):
        for x in list(obj):
            _scramble(x, depth + 1)
        obj.clear()
        obj.append(-7)
        return True
    if isinstance(obj, (set, dict)):
        for x in (list(obj.values()) if isinstance(obj, dict) else ()):
            _scramble(x, depth + 1)
        obj.clear()
        return True
    return False


@check("C11.fresh_result")
def fresh_result(perm):
    """Every statistic computes the quantity its name says on EVERY call: what a caller does to a returned
    list / deque / set / dict (clearing it, appending to it) must not change any later answer for the same
    (or an equal) permutation object. Phase 0 records every answer on an untouched equal object, phase 1 calls
    every method once and mutates what it returned, phase 2 asks again."""
    import copy
    t = _t(perm)
    skip = {"holeyness"} if len(t) > 7 else set()
    # phase 0: the answers of an untouched, equal permutation object (their agreement with the definitions is
    # what C11.stat.<m> decides; here only "the same answer every time" is at stake)
    fresh = type(perm)(t)
    base = {}
    for name, (real, _spec, _listing) in STATS.items():
        if name not in skip:
            base[name] = copy.deepcopy(real(fresh))
    mutated = 0
    for name in STATS:
        meth = getattr(perm, name, None)
        if meth is None or name in skip:
            continue
        try:
            res = meth()
        except ValueError:
            continue
        if _scramble(res):
            mutated += 1
    for name, (real, _spec, _listing) in STATS.items():
        if name in skip:
            continue
        for who, obj in (("the same", perm), ("an equal", fresh)):
            got = real(obj)
            if repr(got) != repr(base[name]) if isinstance(got, _Wrong) else got != base[name]:
                return bad(base[name], repr(got) if isinstance(got, _Wrong) else got,
                           f"Perm.{name} on {who} permutation object after a caller mutated the containers returned "
                           "by earlier calls, vs its answer before", True)
    return ok(mutated > 0)


@check("C11.stat.holeyness.long")
def holeyness_long(perm):
    t = _t(perm)
    want = ST.holeyness(t)
    got = perm.holeyness()
    if not _is_int(got) or got != want:
        return bad(want, got, "Perm.holeyness vs the maximum over all 2^n position sets")
    return ok(want != 0)


def _perm_with_cycles(lengths, rng):
    """a permutation with exactly these cycle lengths, on seeded positions"""
    n = sum(lengths)
    pos = list(range(n))
    rng.shuffle(pos)
    img = [0] * n
    k = 0
    for c in lengths:
        cyc = pos[k:k + c]
        for a, b in zip(cyc, cyc[1:] + cyc[:1]):
            img[a] = b
        k += c
    return D.P()(img)


@check("C11.stat.order.long")
def order_long(item):
    """order = least k > 0 with p^k = identity = lcm of the cycle lengths, also when that number does not fit a
    double (many distinct prime cycle lengths)"""
    import math

    import random as _r

    lengths, seed = item
    perm = _perm_with_cycles(list(lengths), _r.Random(seed))
    t = _t(perm)
    seen, cyc = set(), []
    for i in range(len(t)):
        if i not in seen:
            c, j = 0, i
            while j not in seen:
                seen.add(j)
                j = t[j]
                c += 1
            cyc.append(c)
    want = 1
    for c in cyc:
        want = want * c // math.gcd(want, c)
    got = perm.order()
    if not _is_int(got) or got != want:
        return bad(want, got, f"Perm.order vs the lcm of the cycle lengths {sorted(cyc)}")
    if sorted(cyc) != sorted(lengths):
        return bad(sorted(lengths), sorted(cyc), "harness: cycle type")
    cnt = perm.count_cycles()
    if cnt != len(cyc):
        return bad(len(cyc), cnt, "Perm.count_cycles on a long permutation")
    return ok(want > 2 ** 53)


@check("C11.stat.count_inversions.long")
def count_inversions_long(perm):
    t = _t(perm)
    n = len(t)
    want = sum(1 for i in range(n) for j in range(i + 1, n) if t[i] > t[j])
    got = perm.count_inversions()
    if not _is_int(got) or got != want:
        return bad(want, got, "Perm.count_inversions (Fenwick tree) vs the O(n^2) definition")
    non = perm.count_non_inversions()
    if non != n * (n - 1) // 2 - want:
        return bad(n * (n - 1) // 2 - want, non, "Perm.count_non_inversions vs the O(n^2) definition")
    if n <= 24:
        lst = list(perm.inversions())
        if lst != ST.inversions(t):
            return bad(ST.inversions(t), lst, "Perm.inversions listing")
    return ok(0 < want < n * (n - 1) // 2)


_FRESH_PRIME = r"""
import json, sys
sys.path.insert(0, sys.argv[1])
from permuta.misc.math import is_prime
order = json.loads(sys.argv[2])
print(json.dumps([bool(is_prime(n)) for n in order]))
"""


@check("C11.is_prime.fresh")
def is_prime_fresh(item):
    """is_prime in a FRESH interpreter, asked in an order chosen by the caller (large numbers first, jumps): the
    answer must not depend on which numbers were asked before (helpers that grow a table on demand)"""
    import json
    import subprocess
    import sys

    from vlib import repo as _repo

    label, order = item
    order = list(order)
    out = subprocess.run([sys.executable, "-c", _FRESH_PRIME, _repo.REPO, json.dumps(order)], capture_output=True, text=True, timeout=120)
    if out.returncode != 0:
        return bad("a list of booleans", f"exit {out.returncode}: {out.stderr[-300:]}", f"is_prime over {label} in a fresh interpreter")
    got = json.loads(out.stdout.strip().splitlines()[-1])
    want = [n >= 2 and all(n % d for d in range(2, int(n ** 0.5) + 1)) for n in order]
    if got != want:
        k = next(i for i in range(len(order)) if got[i] != want[i])
        return bad(want[k], got[k], f"is_prime({order[k]}) as query number {k} of the order '{label}' in a fresh interpreter")
    return ok(True)


@check("C11.is_prime")
def is_prime_block(item):
    """permuta.misc.math.is_prime on the integers lo..hi-1 against a sieve (hi <= 10^6+1)
    or trial division by every d (beyond)."""
    from permuta.misc.math import is_prime

    lo, hi = item
    if hi <= 1_000_001:
        flags = ST.sieve(100_001 if hi <= 100_001 else 1_000_001)
        oracle = lambda k: k >= 0 and flags[k]  # noqa: E731
    else:
        oracle = ST.is_prime_trial
    primes = 0
    for k in range(lo, hi):
        want = bool(oracle(k))
        got = is_prime(k)
        if got is not want:
            return bad(want, got, f"is_prime({k})")
        primes += want
    return ok(primes > 0)


# --------------------------------------------------------------------------
# the name -> function table
# --------------------------------------------------------------------------
TABLE_SPEC = {
    "Number of inversions": _len_of(ST.inversions),
    "Number of non-inversions": _len_of(ST.non_inversions),
    "Major index": ST.major_index,
    "Number of descents": _len_of(ST.descents),
    "Number of ascents": _len_of(ST.ascents),
    "Number of peaks": _len_of(ST.peaks),
    "Number of valleys": _len_of(ST.valleys),
    "Number of cycles": _len_of(ST.cycles),
    "Number of left-to-right minimas": _len_of(ST.ltrmin),
    "Number of left-to-right maximas": _len_of(ST.ltrmax),
    "Number of right-to-left minimas": _len_of(ST.rtlmin),
    "Number of right-to-left maximas": _len_of(ST.rtlmax),
    "Number of fixed points": _len_of(ST.fixed_points),
    "Order": ST.order,
    "Longest increasing subsequence": ST.longest_increasing_subsequence,
    "Longest decreasing subsequence": ST.longest_decreasing_subsequence,
    "Depth": ST.depth,
    "Number of bounces": ST.count_bounces,
    "Maximum drop size": ST.max_drop_size,
    "Number of primes in the column sums": ST.count_column_sum_primes,
    "Holeyness of a permutation": ST.holeyness,
    "Number of stack-sorts needed": lambda t: DV.passes_needed(t, DV.stack_pass),
    "Number of pop-stack-sorts needed": lambda t: DV.passes_needed(t, DV.pop_stack_pass),
    "Number of pinnacles": _len_of(ST.pinnacles),
    "Number of cyclic peaks": _len_of(ST.cyclic_peaks),
    "Number of cyclic valleys": _len_of(ST.cyclic_valleys),
    "Number of double excedance": _len_of(ST.double_excedance),
    "Number of double drops": _len_of(ST.double_drops),
    "Number of foremaxima": _len_of(ST.foremaxima),
    "Number of afterminima": _len_of(ST.afterminima),
    "Number of aftermaxima": _len_of(ST.aftermaxima),
    "Number of foreminima": _len_of(ST.foreminima),
}
NAMES = tuple(TABLE_SPEC)
LIS, LDS = "Longest increasing subsequence", "Longest decreasing subsequence"

# NOT a definition: the table with the two entries of the known defect (DESIGN
# section 8 item 8) replaced by what the library computes for them (longest *run*).
# Only used by known-finding predicates.
TABLE_KNOWN_DEFECT = dict(TABLE_SPEC)
TABLE_KNOWN_DEFECT[LIS] = lambda t: ST.longestruns(t, True)[0]
TABLE_KNOWN_DEFECT[LDS] = lambda t: ST.longestruns(t, False)[0]


def slug(name):
    return re.sub(r"[^a-z0-9]+", "_", name.lower()).strip("_")


def _table_func(name):
    hits = [f for n, f in _PS()._STATISTICS if n == name]
    if len(hits) != 1:
        raise LookupError(f"{len(hits)} entries named {name!r} in PermutationStatistic._STATISTICS")
    return hits[0]


def _make_table_check(name):
    spec = TABLE_SPEC[name]

    def fn(perm):
        t = _t(perm)
        want = spec(t)
        got = _table_func(name)(perm)
        nt = _nontrivial("table:" + name, spec, t, want)
        if not _is_int(got) or got != want:
            return bad(want, got, f"the table entry named {name!r} does not compute {name!r}", nt)
        return ok(nt)

    fn.__name__ = "table_" + slug(name)
    return check("C11.table." + slug(name))(fn)


for _name in NAMES:
    _make_table_check(_name)


@check("C11.table.registry")
def registry(_item):
    """get_by_index / _get_all / _predefined_statistics / __str__ / inv, maj, des, asc
    are consistent with _STATISTICS; the 32 names are present exactly once."""
    PS = _PS()
    table = PS._STATISTICS
    names = [n for n, _ in table]
    missing = [n for n in NAMES if names.count(n) != 1]
    if missing:
        return bad("each of the 32 names exactly once", names, f"missing or repeated: {missing}")
    for i, (name, func) in enumerate(table):
        st = PS.get_by_index(i)
        if st.name != name or st.func is not func or str(st) != name:
            return bad((name, func.__name__), (st.name, getattr(st.func, "__name__", "?")), f"get_by_index({i})")
    allst = list(PS._get_all())
    if [(s.name, s.func) for s in allst] != list(table):
        return bad(names, [s.name for s in allst], "_get_all() vs the table")
    text = PS._predefined_statistics()
    want = "\n".join(f"[{i}] {n}" for i, n in enumerate(names))
    if text != want:
        return bad(want, text, "_predefined_statistics()")
    probe = [_P(t) for t in S.perms_upto(5)]
    for meth, name in (("inv", "Number of inversions"), ("maj", "Major index"),
                       ("des", "Number of descents"), ("asc", "Number of ascents")):
        st = getattr(PS, meth)()
        if st.name != name:
            return bad(name, st.name, f"PermutationStatistic.{meth}().name")
        for p in probe:
            if st.func(p) != TABLE_SPEC[name](_t(p)):
                return bad(TABLE_SPEC[name](_t(p)), st.func(p), f"PermutationStatistic.{meth}().func on {_t(p)}")
    return ok(True)


# --------------------------------------------------------------------------
# distributions
# --------------------------------------------------------------------------
CUSTOM = {
    # user-made statistics (name, func) with gaps / constant / large values
    "custom:twice the length": lambda p: 2 * len(p),
    "custom:first value squared": lambda p: (p[0] ** 2 if len(p) else 0),
    "custom:zero": lambda p: 0,
}


def _stat_object(sid):
    PS = _PS()
    if isinstance(sid, int):
        return PS.get_by_index(sid)
    if sid in ("inv", "maj", "des", "asc"):
        return getattr(PS, sid)()
    if sid in CUSTOM:
        return PS(sid, CUSTOM[sid])
    return PS(sid, _table_func(sid))


def _class(basis):
    """basis: tuple of Perm, or None for 'all permutations'."""
    if basis is None:
        return None
    from permuta import Av, Basis

    return Av(Basis(*basis))


def _members(basis, n):
    if basis is None:
        return list(S.all_perms(n))
    return list(S.avoiders_cached(n, tuple(_t(b) for b in basis)))


def _row_ok(row, values):
    """row[k] = number of members with value k, for every k; nothing is lost."""
    cnt = Counter(values)
    if type(row) is not list or not all(_is_int(x) for x in row):
        return "not a list of ints"
    if sum(row) != len(values):
        return f"sums to {sum(row)}, the class has {len(values)} members of this length"
    for k, x in enumerate(row):
        if x != cnt.get(k, 0):
            return f"entry {k} is {x}, but {cnt.get(k, 0)} members have value {k}"
    if any(k >= len(row) for k in cnt):
        return "a value that occurs has no entry"
    return None


@check("C11.distribution.for_length")
def distribution_for_length(item):
    """(statistic id, basis or None, n).  The members of the class come from the
    definition of avoidance (specs.core); the statistic's own function is evaluated on
    them (its correctness is the business of C11.table.* / C11.stat.*)."""
    sid, basis, n = item
    st = _stat_object(sid)
    members = _members(basis, n)
    values = [st.func(_P(m)) for m in members]
    got = st.distribution_for_length(n, _class(basis)) if basis is not None else st.distribution_for_length(n)
    why = _row_ok(got, values)
    if why:
        want = [Counter(values).get(k, 0) for k in range(max(values, default=0) + 1)]
        return bad(want, got, f"distribution_for_length: {why}", len(set(values)) > 1)
    return ok(len(set(values)) > 1)


@check("C11.distribution.up_to")
def distribution_up_to(item):
    sid, basis, n = item
    st = _stat_object(sid)
    got = st.distribution_up_to(n, _class(basis)) if basis is not None else st.distribution_up_to(n)
    if type(got) is not list or len(got) != n + 1:
        return bad(f"a list of {n + 1} rows", got, "distribution_up_to: one row per length 0..n")
    nt = False
    for i, row in enumerate(got):
        values = [st.func(_P(m)) for m in _members(basis, i)]
        nt = nt or len(set(values)) > 1
        why = _row_ok(row, values)
        if why:
            want = [Counter(values).get(k, 0) for k in range(max(values, default=0) + 1)]
            return bad(want, row, f"distribution_up_to row {i}: {why}", nt)
    return ok(nt)


def _strip(row):
    row = list(row)
    while row and row[-1] == 0:
        row.pop()
    return row


CLASSICAL = {
    # statistic id -> row of a classical number triangle on S_n
    "inv": ST.mahonian_row,
    "maj": ST.mahonian_row,
    "Number of inversions": ST.mahonian_row,
    "Major index": ST.mahonian_row,
    "des": ST.eulerian_row,
    "asc": ST.eulerian_row,
    "Number of descents": ST.eulerian_row,
    "Number of ascents": ST.eulerian_row,
    "Number of cycles": ST.stirling_cycle_row,
    "Number of left-to-right maximas": ST.stirling_cycle_row,
    "Number of left-to-right minimas": ST.stirling_cycle_row,
    "Number of right-to-left maximas": ST.stirling_cycle_row,
    "Number of right-to-left minimas": ST.stirling_cycle_row,
}


@check("C11.distribution.classical")
def distribution_classical(item):
    """Mahonian (inv, maj), Eulerian (des, asc) and Stirling cycle numbers (cycles,
    records) as the distribution over all of S_n - no enumeration on the spec side."""
    sid, n = item
    st = _stat_object(sid)
    want = _strip(CLASSICAL[sid](n))
    got = st.distribution_for_length(n)
    if _strip(got) != want:
        return bad(want, got, f"distribution of {sid!r} on S_{n} vs the classical numbers")
    return ok(n >= 3)


# --------------------------------------------------------------------------
# preservation / equidistribution tools on bijections and classes given as data
# --------------------------------------------------------------------------
BIJECTION_KINDS = ("identity", "reverse", "complement", "inverse", "r1", "random", "shift",
                   "sum1", "empty", "partial_inverse", "single")


def make_bijection(kind, n, seed):
    """A dict Perm -> Perm built from data (spec-side symmetries, a seeded shuffle)."""
    import random

    rng = random.Random(f"{seed}:{kind}:{n}")
    out = {}
    if kind == "empty":
        return out
    for k in range(n + 1):
        level = list(S.all_perms(k))
        if kind in ("identity", "reverse", "complement", "inverse", "r1"):
            sym = "id" if kind == "identity" else kind
            img = [S.sym_perm(sym, t) for t in level]
        elif kind == "random":
            img = list(level)
            rng.shuffle(img)
        elif kind == "shift":  # deliberately non-preserving: next permutation in lexicographic order, cyclically
            img = level[1:] + level[:1]
        elif kind == "sum1":  # length changing injection t -> t (+) 1
            img = [t + (k,) for t in level]
        elif kind == "partial_inverse":
            keep = [t for t in level if rng.random() < 0.4]
            level, img = keep, [S.sym_perm("inverse", t) for t in keep]
        elif kind == "single":
            if k != n:
                continue
            t = level[rng.randrange(len(level))]
            level, img = [t], [S.sym_perm("reverse", t)]
        else:
            raise KeyError(kind)
        for a, b in zip(level, img):
            out[_P(a)] = _P(b)
    return out


def _vectors(bij, table):
    keys = [_t(k) for k in bij]
    vals = [_t(v) for v in bij.values()]
    cache = {}

    def val(name, t):
        if (name, t) not in cache:
            cache[(name, t)] = table[name](t)
        return cache[(name, t)]

    kv = {name: [val(name, t) for t in keys] for name in NAMES}
    vv = {name: [val(name, t) for t in vals] for name in NAMES}
    return kv, vv


def _diff(want, got):
    want, got = list(want), list(got)
    return [x for x in want if x not in got], [x for x in got if x not in want]


def _eval_preserved_in(item, table):
    kind, n, seed = item
    bij = make_bijection(kind, n, seed)
    kv, vv = _vectors(bij, table)
    PS = _PS()
    wrong = []
    some = False
    for i, (name, func) in enumerate(PS._STATISTICS):
        if name not in table:
            continue
        want = kv[name] == vv[name]
        some = some or want
        got = PS.get_by_index(i).preserved_in(bij)
        got2 = PS(name, func).preserved_in(dict(bij))
        if got is not want or got2 is not want:
            wrong.append((name, want, got))
    if wrong:
        return bad([(n_, w) for n_, w, _ in wrong], [(n_, g) for n_, _, g in wrong],
                   "preserved_in disagrees with 'stat(k) == stat(v) for every pair' for these statistics")
    return ok(some and bool(bij))


def _eval_check_all_preservations(item, table):
    kind, n, seed = item
    bij = make_bijection(kind, n, seed)
    kv, vv = _vectors(bij, table)
    want = sorted(name for name in NAMES if kv[name] == vv[name])
    got = sorted(_PS().check_all_preservations(bij))
    if got != want:
        miss, extra = _diff(want, got)
        return bad({"not reported although preserved": miss}, {"reported although not preserved": extra},
                   "check_all_preservations: a statistic is reported iff stat(k) == stat(v) for every pair")
    return ok(0 < len(want) < len(NAMES))


def _eval_check_all_transformed(item, table):
    kind, n, seed = item
    bij = make_bijection(kind, n, seed)
    kv, vv = _vectors(bij, table)
    want = {}
    for a in NAMES:
        lst = sorted(b for b in NAMES if kv[a] == vv[b])
        if lst:
            want[a] = lst
    got = _PS().check_all_transformed(bij)
    pairs_want = sorted((a, b) for a, bs in want.items() for b in bs)
    nt = 0 < len(pairs_want) < len(NAMES) ** 2
    if type(got) is dict and not got and pairs_want:
        return bad(f"{len(pairs_want)} (stat1, stat2) pairs with stat1(k) == stat2(v) for every pair, e.g. "
                   f"{pairs_want[:3]}", {}, "check_all_transformed returned the empty dict", nt)
    norm = {a: sorted(bs) for a, bs in got.items()}
    if norm != want:
        pairs_got = sorted((a, b) for a, bs in norm.items() for b in bs)
        miss, extra = _diff(pairs_want, pairs_got)
        return bad({"missing": miss[:40]}, {"extra": extra[:40], "empty lists": [a for a, b in norm.items() if not b]},
                   "check_all_transformed: stat1 -> stat2 listed iff stat1(k) == stat2(v) for every pair", nt)
    return ok(nt)


@check("C11.tools.preserved_in")
def preserved_in(item):
    return _eval_preserved_in(item, TABLE_SPEC)


@check("C11.tools.check_all_preservations")
def check_all_preservations(item):
    return _eval_check_all_preservations(item, TABLE_SPEC)


@check("C11.tools.check_all_transformed")
def check_all_transformed(item):
    return _eval_check_all_transformed(item, TABLE_SPEC)


@check("C11.tools.symmetry_duplication")
def symmetry_duplication(item):
    """All symmetric versions of a bijection: for each of the eight symmetries s of the
    square, {s(k): s(v)}."""
    kind, n, seed = item
    bij = make_bijection(kind, n, seed)
    got = list(_PS().symmetry_duplication(bij))
    if not all(type(b) is dict for b in got):
        return bad("dicts", got, "symmetry_duplication yields dicts")
    pairs = [(_t(k), _t(v)) for k, v in bij.items()]
    want = sorted(sorted((S.sym_perm(s, k), S.sym_perm(s, v)) for k, v in pairs) for s in S.SYMS)
    norm = sorted(sorted((_t(k), _t(v)) for k, v in b.items()) for b in got)
    if norm != want:
        return bad(want, norm, "symmetry_duplication vs the eight symmetries applied to keys and values")
    return ok(len(pairs) > 1)


_REAL_MEMO = {}


def _real_once(tag, item, thunk):
    """The real tool is deterministic in its (immutable) input: within one process its
    output for an input is computed once (the known-finding predicates re-evaluate the
    expectation with another table, not the code under test)."""
    key = (tag, codec.enc(item))
    if key not in _REAL_MEMO:
        _REAL_MEMO[key] = thunk()
    return _REAL_MEMO[key]


def _class_vectors(basis, n, table):
    """name -> list over lengths 0..n of the sorted value multiset of the spec class."""
    out = {name: [] for name in NAMES}
    for i in range(n + 1):
        members = _members(basis, i)
        for name in NAMES:
            out[name].append([table[name](m) for m in members])
    return out


def _eval_equally_distributed(item, table):
    b1, b2, n = item
    v1, v2 = _class_vectors(b1, n, table), _class_vectors(b2, n, table)
    want = sorted(name for name in NAMES
                  if all(sorted(v1[name][i]) == sorted(v2[name][i]) for i in range(n + 1)))
    got = _real_once("ed", item, lambda: sorted(_PS().equally_distributed(_class(b1), _class(b2), n)))
    if got != want:
        miss, extra = _diff(want, got)
        return bad({"not reported although equidistributed": miss}, {"reported although not equidistributed": extra},
                   "equally_distributed: reported iff the value multisets agree for every length <= n")
    return ok(0 < len(want) < len(NAMES))


def _joint(vecs, names, i):
    cols = [vecs[name][i] for name in names]
    return Counter(zip(*cols)) if cols and cols[0] else Counter()


def _eval_jointly(item, table):
    b1, b2, n, dim = item
    v1, v2 = _class_vectors(b1, n, table), _class_vectors(b2, n, table)
    want = sorted(c for c in itertools.combinations(NAMES, dim)
                  if all(_joint(v1, c, i) == _joint(v2, c, i) for i in range(n + 1)))
    got = _real_once("jed", item, lambda: sorted(
        tuple(x) for x in _PS().jointly_equally_distributed(_class(b1), _class(b2), n, dim)))
    if got != want:
        miss, extra = _diff(want, got)
        return bad({"missing": miss[:40]}, {"extra": extra[:40]},
                   "jointly_equally_distributed: a combination is reported iff the joint value multisets agree")
    return ok(0 < len(want))


def _eval_jointly_transformed(item, table, both_directions=True):
    """(stats1, stats2), stats1 != stats2 ordered dim-tuples of statistics, is expected
    iff stats1 on class1 and stats2 on class2 are jointly equidistributed ("a combination
    of statistics in one class is equally distributed to *any* combination of statistics
    in the other class").  both_directions=False models the library's enumeration, which
    only visits stats1 before stats2 in the order of itertools.permutations of the table
    (used by the known-finding predicate only)."""
    b1, b2, n, dim = item
    v1, v2 = _class_vectors(b1, n, table), _class_vectors(b2, n, table)
    tuples = list(itertools.permutations(NAMES, dim))
    sig1 = {s: tuple(frozenset(_joint(v1, s, i).items()) for i in range(n + 1)) for s in tuples}
    sig2 = {s: tuple(frozenset(_joint(v2, s, i).items()) for i in range(n + 1)) for s in tuples}
    by_sig = {}
    for s in tuples:
        by_sig.setdefault(sig2[s], []).append(s)
    pos = {s: k for k, s in enumerate(tuples)}
    want = set()
    for s1 in tuples:
        for s2 in by_sig.get(sig1[s1], ()):
            if s1 != s2 and (both_directions or pos[s1] < pos[s2]):
                want.add((s1, s2))
    got = _real_once("jted", item, lambda: [
        (tuple(a), tuple(b)) for a, b in _PS().jointly_transformed_equally_distributed(_class(b1), _class(b2), n, dim)])
    gots = set(got)
    nt = 0 < len(want)
    if len(gots) != len(got):
        return bad("no repetition", "repeated pairs", "jointly_transformed_equally_distributed", nt)
    if gots != want:
        miss = sorted(want - gots)
        extra = sorted(gots - want)
        return bad({"missing": len(miss), "first": miss[:6]}, {"extra": len(extra), "first": extra[:6]},
                   "jointly_transformed_equally_distributed: (stats1, stats2) reported iff stats1 on class1 is "
                   "jointly equidistributed with stats2 on class2", nt)
    return ok(nt)


@check("C11.tools.equally_distributed")
def equally_distributed(item):
    return _eval_equally_distributed(item, TABLE_SPEC)


@check("C11.tools.jointly_equally_distributed")
def jointly_equally_distributed(item):
    return _eval_jointly(item, TABLE_SPEC)


@check("C11.tools.jointly_transformed_equally_distributed")
def jointly_transformed_equally_distributed(item):
    return _eval_jointly_transformed(item, TABLE_SPEC)


# --------------------------------------------------------------------------
# known-finding predicates (decide from the failing input; see HACKING.md rule 2)
# --------------------------------------------------------------------------
def _input(failure):
    return codec.dec(failure["input"])


def _kf_table_run(failure, up):
    """The failing input is one where longest monotone *subsequence* and longest *run*
    differ, and the recorded actual value is the longest run."""
    t = _t(_input(failure))
    run = ST.longestruns(t, up)[0]
    sub = ST.longest_increasing_subsequence(t) if up else ST.longest_decreasing_subsequence(t)
    return run != sub and failure["actual"] == codec.enc(run) and failure["expected"] == codec.enc(sub)


def kf_table_lis(failure):
    return _kf_table_run(failure, True)


def kf_table_lds(failure):
    return _kf_table_run(failure, False)


def kf_layers(failure):
    """The recorded actual layers are exactly what peeling the un-standardised remainder
    with the threshold len(remainder) produces, and that differs from the definition."""
    t = _t(_input(failure))
    model = ST.layers_buggy_unstandardised(t)
    return model != ST.layers(t) and failure["actual"] == codec.enc(model)


def kf_layers_count(failure):
    t = _t(_input(failure))
    model = ST.layers_buggy_unstandardised(t)
    return len(model) != len(ST.layers(t)) and failure["actual"] == codec.enc(len(model))


def _passes(res):
    return res is None or res[0] is None


def _kf_by_lis_patch(evaluate):
    """The failure disappears when the two entries of the known table defect are given
    the library's meaning (longest run) - and only then."""

    def pred(failure):
        item = _input(failure)
        return not _passes(evaluate(item, TABLE_SPEC)) and _passes(evaluate(item, TABLE_KNOWN_DEFECT))

    return pred


kf_preserved_in_lis = _kf_by_lis_patch(_eval_preserved_in)
kf_check_all_preservations_lis = _kf_by_lis_patch(_eval_check_all_preservations)
kf_check_all_transformed_lis = _kf_by_lis_patch(_eval_check_all_transformed)
kf_equally_distributed_lis = _kf_by_lis_patch(_eval_equally_distributed)
kf_jointly_lis = _kf_by_lis_patch(_eval_jointly)
kf_jointly_transformed_lis = _kf_by_lis_patch(_eval_jointly_transformed)


def kf_check_all_transformed_empty(failure):
    """check_all_transformed hands one generator to itertools.product twice and therefore
    always returns {}: the recorded actual is the empty dict."""
    return failure["actual"] == codec.enc({}) and "returned the empty dict" in failure["note"]


def kf_jointly_transformed_half(failure):
    """Only pairs with stats1 before stats2 (itertools.combinations of the tuple list) are
    visited: the failure disappears when exactly that half is expected."""
    item = _input(failure)
    if _passes(_eval_jointly_transformed(item, TABLE_SPEC)):
        return False
    return _passes(_eval_jointly_transformed(item, TABLE_SPEC, both_directions=False)) or _passes(
        _eval_jointly_transformed(item, TABLE_KNOWN_DEFECT, both_directions=False))


# --------------------------------------------------------------------------
def _structured_long_perms():
    Perm = D.P()
    out = []
    for n in (9, 15, 16, 17, 31, 32, 33, 40, 63, 64, 65, 127, 128, 129):
        ident = list(range(n))
        out.append(Perm(ident))
        out.append(Perm(ident[::-1]))
        out.append(Perm(ident[n // 2:] + ident[: n // 2]))
        out.append(Perm(ident[1:] + ident[:1]))
        out.append(Perm(ident[-1:] + ident[:-1]))
        out.append(Perm([x for pair in zip(ident[::2], ident[1::2]) for x in pair[::-1]] + ident[n - n % 2:]))
    return out


B = lambda *ts: tuple(_P(t) for t in ts)  # noqa: E731


def run(ctx):
    quick = ctx.tier == "quick"
    rng = D.subrng(ctx, "c11")
    Perm = D.P()
    nmax = 7 if quick else 8
    perms = D.perms_upto(nmax)
    heavy_max = {"holeyness": 6 if quick else 7}

    # ---- every statistic / listing vs its definition, one check per method
    for name in STATS:
        lim = heavy_max.get(name, nmax)
        dom = perms if lim == nmax else [p for p in perms if len(p) <= lim]
        ctx.run(f"C11.stat.{name}", dom, chunk=250,
                rule=None)
    ctx.rules.append(f"C11.stat.<m> (m in {len(STATS)} methods): all permutations of length 0..{nmax} "
                     f"(holeyness 0..{heavy_max['holeyness']}); non-trivial = the definition's value differs from its "
                     "value on the identity of the same length")
    ctx.add_sample("C11.stat.rtlmax_ltrmin_decomposition", Perm((0, 2, 3, 4, 1)))
    ctx.add_sample("C11.stat.count_inversions", Perm((3, 0, 2, 1)))
    amax = 5 if quick else 6
    for alias in ALIASES:
        ctx.run(f"C11.stat.alias.{alias}", D.perms_upto(amax), chunk=100)
    ctx.rules.append(f"C11.stat.alias.<a> for the {len(ALIASES)} aliases (num_*, bonds, is_identity): all permutations "
                     f"<= {amax}")
    smax = 6 if quick else 7
    steps = ((p, s) for p in D.perms_upto(smax) for s in range(-2, len(p) + 2))
    ctx.run("C11.stat.step_size", steps, chunk=500,
            rule=f"all permutations <= {smax} x step_size in -2..n+1, positional and keyword; ValueError for < 1")
    ctx.add_sample("C11.stat.step_size", (Perm((3, 1, 0, 2)), 2))

    # ---- holeyness beyond the exhaustive range (both sides are 2^n: sampled)
    hol = []
    for n, cnt in ((8, 300), (9, 1500), (10, 400), (11, 120), (12, 30)) if quick else (
            (9, 6000), (10, 2000), (11, 600), (12, 200), (13, 40)):
        hol.extend(D.random_perm(rng, n) for _ in range(cnt))
    hol.extend(p for p in D.block_perms(rng, 60 if quick else 300, lo=8, hi=12))
    ctx.run("C11.stat.holeyness.long", hol, chunk=25,
            rule="seeded permutations of length 8-12 (thorough 9-13) incl. block-structured ones vs the maximum over "
                 "all 2^n position sets; non-trivial = holeyness != 0")

    # ---- block-structured long permutations (direct / skew sums of short blocks): many fixed points, strong
    # fixed points, records, bonds and short cycles at positions >= 8; order of the listings matters
    blocky = D.block_perms(rng, 240 if quick else 1500, lo=9, hi=24)
    for name in STATS:
        if name in ("holeyness", "fourpats"):
            continue
        ctx.run(f"C11.stat.{name}", blocky, chunk=60, rule=None)
    ctx.rules.append(f"C11.stat.<m> additionally on {len(blocky)} seeded block-structured permutations of length 9-24 "
                     "(direct/skew sums of blocks of length <= 6; not holeyness, fourpats)")

    # ---- answers do not depend on what callers did to earlier results
    fr = D.perms_upto(5 if quick else 6) + D.block_perms(rng, 40 if quick else 200, lo=7, hi=14)
    ctx.run("C11.fresh_result", fr, chunk=40,
            rule="all permutations <= 5 (thorough 6) + seeded block-structured ones of length 7-14: call every method, "
                 "mutate every returned list/deque/set/dict, then every method must answer as before")

    # ---- orders that do not fit a double
    primes = [2, 3, 5, 7, 11, 13, 17, 19, 23, 29, 31, 37, 41, 43, 47, 53]
    ords = [(tuple(primes[1:15]), 1), (tuple(primes[:16]), 2), (tuple(primes[1:14]) + (4, 9, 25), 3), ((64, 81, 125, 49, 121, 13, 17), 4)]
    for sd in range(5, 12 if quick else 40):
        ords.append((tuple(rng.sample(primes, rng.randint(6, 14))) + tuple(rng.choice((1, 2, 4, 8, 9, 27)) for _ in range(3)), sd))
    ctx.run("C11.stat.order.long", ords, chunk=2,
            rule="seeded permutations of length 60-400 with prescribed cycle lengths (many distinct primes and prime powers): order = lcm of "
                 "the cycle lengths as an exact integer; non-trivial = the order exceeds 2^53")

    # ---- Fenwick-tree inversion count beyond small n
    longp = _structured_long_perms()
    for _ in range(600 if quick else 3000):
        longp.append(D.random_perm(rng, rng.randint(9, 40)))
    for _ in range(40 if quick else 300):
        longp.append(D.random_perm(rng, rng.choice((63, 64, 65, 100, 127, 128, 129, 200))))
    ctx.run("C11.stat.count_inversions.long", longp, chunk=40,
            rule="seeded permutations of length 9-40 (+ lengths around powers of two up to 200, and structured ones) "
                 "vs the O(n^2) definition")

    # ---- primality helper
    top = 100_000 if quick else 1_000_000
    blocks = [(-2000, 0)] + [(lo, min(lo + 2000, top + 1)) for lo in range(0, top + 1, 2000)]
    if not quick:
        # squares and products of primes near 2^10..2^12 (the 6k+-1 loop boundary)
        for base in (1_000_000, 4_000_000, 16_769_025, 25_000_000):
            blocks.append((base - 300, base + 300))
    ctx.run("C11.is_prime", blocks, chunk=4,
            rule=f"is_prime on every integer in -2000..{top} vs a sieve; non-trivial = block contains a prime")

    squares = [p * p for p in (5, 7, 11, 13, 17, 19, 23, 29, 31, 37, 41, 97, 101)] + [5 * 7, 7 * 11, 11 * 13, 13 * 17, 25 * 7, 49 * 11]
    orders = [("descending squares", sorted(squares, reverse=True) + list(range(60, -3, -1))),
              ("one big jump", [10007, 10403, 9409, 25, 35, 49, 121, 4, 9, 2, 3]),
              ("doubling then back", [3, 7, 15, 31, 63, 127, 255, 511, 1023, 2047, 529, 361, 289, 169, 121, 77, 49, 25]),
              ("seeded", [rng.randrange(-5, 20000) for _ in range(200)])]
    ctx.run("C11.is_prime.fresh", orders, chunk=1,
            rule="is_prime in a fresh interpreter over four query orders (squares of primes in descending order, one big jump, doubling "
                 "then back, seeded) vs trial division")

    # ---- the table: the entry named N computes N
    ctx.run("C11.table.registry", [None], chunk=1,
            rule="get_by_index/_get_all/_predefined_statistics/inv,maj,des,asc vs _STATISTICS (one scenario)")
    for name in NAMES:
        lim = heavy_max["holeyness"] if name == "Holeyness of a permutation" else nmax
        dom = perms if lim == nmax else [p for p in perms if len(p) <= lim]
        ctx.run("C11.table." + slug(name), dom, chunk=250)
    ctx.rules.append(f"C11.table.<name> for the 32 names: all permutations of length 0..{nmax} (holeyness as above), "
                     "the function is looked up by its name in PermutationStatistic._STATISTICS")
    ctx.add_sample("C11.table." + slug(LIS), Perm((0, 2, 1, 3)))

    # ---- distributions
    classes = [
        None,
        B((0, 1, 2)), B((0, 2, 1)), B((1, 2, 0)), B((2, 1, 0)),
        B((0, 1, 2), (0, 2, 1)), B((0, 2, 1, 3)), B((2, 0, 3, 1)),
        B((1, 0, 3, 2), (3, 0, 4, 1, 5, 2)),
        B((0, 1)), B((0, 1, 2), (2, 1, 0)), B((0, 1), (1, 0)),
    ]
    dmax = 6 if quick else 7
    sids = list(range(32)) + ["inv", "maj", "des", "asc"] + list(CUSTOM)
    items = [(sid, b, n) for sid in sids for b in classes for n in range(dmax + 1)
             if not (sid == 20 and n > heavy_max["holeyness"])]
    ctx.run("C11.distribution.for_length", items, chunk=12,
            rule=f"36 statistics + 3 user-made x {len(classes)} classes (all perms, 11 Av(...), incl. finite and "
                 f"empty levels) x lengths 0..{dmax}: sum = class size, entry k = #members with value k")
    upto = [(sid, b, dmax - 1) for sid in sids for b in classes]
    if quick:
        upto = rng.sample(upto, 120)
    ctx.run("C11.distribution.up_to", upto, chunk=4,
            rule=f"distribution_up_to({dmax - 1}) row by row (quick: 120 seeded (statistic, class) pairs)")
    cmax = 7 if quick else 8
    ctx.run("C11.distribution.classical", [(sid, n) for sid in CLASSICAL for n in range(cmax + 1)], chunk=2,
            rule=f"inv/maj = Mahonian, des/asc = Eulerian, cycles/records = Stirling cycle numbers on S_n, n <= {cmax}")
    ctx.add_sample("C11.distribution.for_length", (16, B((0, 1, 2)), 4))

    # ---- preservation tools on bijections given as data
    bmax = 4 if quick else 5
    bij_items = []
    for kind in BIJECTION_KINDS:
        for n in range(0, bmax + 1):
            if kind == "empty" and n:
                continue
            for seed in ((ctx.seed,) if kind not in ("random", "partial_inverse", "single") else
                         (ctx.seed, ctx.seed + 1, ctx.seed + 2)):
                bij_items.append((kind, n, seed))
    for nm in ("preserved_in", "check_all_preservations", "check_all_transformed", "symmetry_duplication"):
        ctx.run(f"C11.tools.{nm}", bij_items, chunk=2,
                rule=None)
    ctx.rules.append(f"C11.tools.(preserved_in|check_all_preservations|check_all_transformed|symmetry_duplication): "
                     f"{len(bij_items)} bijections as data = {BIJECTION_KINDS} on all permutations of length <= n, "
                     f"n <= {bmax}; expected = direct evaluation of stat(k) == stat(v) with the independent definitions")
    ctx.add_sample("C11.tools.check_all_preservations", ("inverse", 4, ctx.seed))

    pairs = [
        (B((0, 1, 2)), B((0, 2, 1))), (B((0, 2, 1)), B((1, 2, 0))), (B((0, 1, 2)), B((2, 1, 0))),
        (B((0, 2, 1)), B((0, 2, 1))), (B((1, 0, 3, 2), (3, 0, 4, 1, 5, 2)), B((2, 0, 3, 1))),
        (B((0, 2, 1)), B((1, 0, 2))), (B((0, 1)), B((1, 0))), (B((0, 2, 1, 3)), B((0, 1, 3, 2))),
        (B((1, 2, 0)), B((2, 0, 1))),
    ]
    emax = 5 if quick else 6
    ctx.run("C11.tools.equally_distributed", [(a, b, n) for a, b in pairs for n in (0, 2, emax)], chunk=1,
            rule=f"{len(pairs)} pairs of classes x n in (0, 2, {emax}) (incl. the README pair Av(2143,415263)/Av(3142))")
    jitems = [(a, b, n, dim) for a, b in pairs[:6] for n, dim in ((3, 1), (4, 2))]
    if not quick:
        jitems += [(a, b, 3, 3) for a, b in pairs[:3]] + [(a, b, 5, 2) for a, b in pairs[:6]]
    ctx.run("C11.tools.jointly_equally_distributed", jitems, chunk=1,
            rule="6 pairs of classes x (n, dim) in ((3,1),(4,2)) (+ (3,3), (5,2) thorough)")
    titems = [(a, b, n, 1) for a, b in pairs[:6] + pairs[8:] for n in (2, 4)]
    if not quick:
        titems += [(a, b, 5, 1) for a, b in pairs] + [(pairs[0][0], pairs[0][1], 3, 2), (pairs[8][0], pairs[8][1], 2, 2)]
    ctx.run("C11.tools.jointly_transformed_equally_distributed", titems, chunk=1, timeout_s=900,
            rule="pairs of classes x n in (2, 4), dim 1 (+ n = 5, and two dim-2 runs thorough); both directions "
                 "(stats1, stats2) and (stats2, stats1) are expected")
    ctx.add_sample("C11.tools.equally_distributed", (pairs[4][0], pairs[4][1], emax))

    ctx.exhaustive = False  # the long-permutation and bijection parts are sampled
    ctx.notes["definition_sources"] = ST.SOURCES
    ctx.notes["observations"] = [
        "foremaxima/afterminima/aftermaxima/foreminima: the library reads 'double ascent/descent' as a value step of 2 "
        "(pinned by doctests); arXiv:1908.01084 most likely means sigma(i-1) < sigma(i) < sigma(i+1). Library reading "
        "taken as the contract.",
        "max_drop_size: library reading max(sigma(i) - i) taken as the contract.",
        "min_gapsize raises ValueError for n < 2 (minimum over no pairs): accepted as 'undefined'.",
        "foremaxima & co. return list(set & set): order unspecified, compared as sorted lists.",
    ]
    ctx.assumptions += [
        "B layer: bounded; exhaustive over S_n only up to the stated n; statistics with a from-docstring definition "
        "(count_bounces, holeyness, max_drop_size, count_column_sum_primes, maximal_decreasing_run) are checked against "
        "a re-derivation of the docstring wording, FindStat is not reachable offline",
        "classes on the spec side are enumerated by brute-force avoidance (specs.core.avoiders)",
        "CPython dict/Counter/list equality",
    ]
    from props import dlayer

    dlayer.run(ctx, "C11")
