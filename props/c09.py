"""C09 - generation, ranking, standardisation, notations (bounded layer).

Every @check takes one input and compares the real code in /repo with the
definition-level oracles of specs/core.py and specs/structure.py:

* the (length, lexicographic) enumeration is produced by an own recursive
  generator (no itertools), ranks by counting smaller permutations;
* standardisation = S.std (sort positions by (value, position));
* notations are checked as round trips plus the documented reading of the text;
* a mesh rank is sum 2^(x*(k+1)+y) over the shaded cells (x, y).
"""
import itertools
import re
from fractions import Fraction

from specs import core as S
from specs import structure as T
from vlib import codec
from vlib import domains as D
from vlib.core import bad, check, ok

LEVEL = "exploration"


def _P():
    return D.P()


def _is_perm_obj(x, n=None):
    return type(x) is _P() and T.valid(tuple.__iter__(x), n)


def _tup(x):
    return tuple(tuple.__iter__(x))


def _raises(fn, *exc):
    """(True, None) iff fn() raises one of exc; (False, description) otherwise."""
    try:
        res = fn()
    except exc as e:  # noqa: F841
        return True, e
    except BaseException as e:  # another exception type
        return False, f"raised {type(e).__name__}: {e}"
    return False, f"returned {codec.enc(res) if not hasattr(res, '__next__') else res!r}"


# ===================================================================== generators
@check("C09.gen.of_length")
def gen_of_length(n):
    Perm = _P()
    want = list(T.lex_perms_cached(n))
    gen = Perm.of_length(n)
    if not hasattr(gen, "__next__"):
        return bad("an iterator", type(gen).__name__, "Perm.of_length must be a generator/iterator")
    got = list(gen)
    if any(type(p) is not Perm for p in got):
        return bad("Perm objects", sorted({type(p).__name__ for p in got}), "element type of Perm.of_length")
    gt = [_tup(p) for p in got]
    if len(gt) != T.factorial(n) or len(set(gt)) != len(gt) or not all(T.valid(t, n) for t in gt):
        return bad(f"{T.factorial(n)} distinct bijections of range({n})", f"{len(gt)} items, {len(set(gt))} distinct",
                   "Perm.of_length: each permutation exactly once")
    if gt != want:
        k = next(i for i, (a, b) in enumerate(zip(gt, want)) if a != b)
        return bad(want[k], gt[k], f"Perm.of_length({n}): position {k} differs from the lexicographic order")
    return ok(n >= 2)


@check("C09.gen.up_to_length")
def gen_up_to_length(n):
    Perm = _P()
    want = list(T.enumeration_upto(n))
    got = list(Perm.up_to_length(n))
    if any(type(p) is not Perm for p in got):
        return bad("Perm objects", "other types", "element type of Perm.up_to_length")
    gt = [_tup(p) for p in got]
    if gt != want:
        k = next((i for i, (a, b) in enumerate(zip(gt, want)) if a != b), min(len(gt), len(want)))
        return bad(want[k:k + 1], gt[k:k + 1], f"Perm.up_to_length({n}): differs at position {k} "
                                                 f"(lengths {len(gt)} vs {len(want)})")
    return ok(n >= 2)


@check("C09.gen.first")
def gen_first(k):
    Perm = _P()
    N = 0
    while T.offset(N + 1) < k:
        N += 1
    want = list(T.enumeration_upto(N)[:k])
    got = list(Perm.first(k))
    if any(type(p) is not Perm for p in got):
        return bad("Perm objects", "other types", "element type of Perm.first")
    gt = [_tup(p) for p in got]
    if gt != want:
        return bad(want[-3:], gt[-3:], f"Perm.first({k}): {len(gt)} items, expected the first {k} of the enumeration")
    # _all is the unbounded generator behind first
    got2 = [_tup(p) for p in itertools.islice(Perm._all(), k)]
    if got2 != want:
        return bad(want[-3:], got2[-3:], f"islice(Perm._all(), {k})")
    return ok(k >= 3)


@check("C09.gen.order")
def gen_order(item):
    """The list order of the generators is the order of `<` on Perm objects (sorted()
    of any rearrangement gives the list back) and the (length, lex) order."""
    n, seed = item
    import random

    Perm = _P()
    lst = list(Perm.up_to_length(n))
    for a, b in zip(lst, lst[1:]):
        if not (a < b) or (b < a) or not S.lt_perm(_tup(a), _tup(b)):
            return bad(f"{_tup(a)} < {_tup(b)}", f"a<b: {a < b}, b<a: {b < a}, (len,lex): {S.lt_perm(_tup(a), _tup(b))}",
                       "consecutive elements of up_to_length must be strictly increasing")
    shuffled = list(lst)
    random.Random(seed).shuffle(shuffled)
    if [_tup(p) for p in sorted(shuffled)] != [_tup(p) for p in lst]:
        return bad("sorted(shuffle(list)) == list", "different order", f"sorted() under Perm.__lt__, n={n}")
    if [_tup(p) for p in sorted(reversed(lst))] != [_tup(p) for p in lst]:
        return bad("sorted(reversed(list)) == list", "different order", f"sorted() under Perm.__lt__, n={n}")
    return ok(n >= 2)


# ===================================================================== rank / unrank
def _level(r):
    n = 0
    while T.offset(n + 1) <= r:
        n += 1
    return n


@check("C09.unrank")
def unrank(r):
    Perm = _P()
    n = _level(r)
    want = T.lex_perms_cached(n)[r - T.offset(n)]
    if T.rank_by_counting(want) != r:  # the two oracles must agree with each other
        raise RuntimeError("spec inconsistency: table vs counting")
    got = Perm.unrank(r)
    if type(got) is not Perm or _tup(got) != want:
        return bad(want, got, f"Perm.unrank({r}) is not the {r}-th permutation of the (length, lex) enumeration")
    if Perm.ind2perm(r) != got:
        return bad(want, Perm.ind2perm(r), "alias ind2perm")
    back = got.rank()
    if back != r or type(back) is not int:
        return bad(r, back, f"Perm.unrank({r}).rank()")
    return ok(r >= 4)


@check("C09.unrank_length")
def unrank_length(item):
    r, n = item
    Perm = _P()
    want = T.lex_perms_cached(n)[r]
    got = Perm.unrank(r, n)
    if type(got) is not Perm or _tup(got) != want:
        return bad(want, got, f"Perm.unrank({r}, {n}) is not the {r}-th permutation of length {n}")
    if Perm.unrank(number=r, length=n) != got or Perm.ind2perm(r, n) != got:
        return bad(want, Perm.ind2perm(r, n), "keyword form / alias ind2perm")
    back = got.rank()
    if back != r + T.offset(n):
        return bad(r + T.offset(n), back, f"rank of unrank({r}, {n}) must be r + #shorter permutations")
    if Perm.unrank(back) != got:
        return bad(want, Perm.unrank(back), "unrank(rank) with the global rank")
    return ok(n >= 2)


@check("C09.rank")
def rank(p):
    Perm = _P()
    t = _tup(p)
    want = T.rank_by_counting(t)
    got = p.rank()
    if got != want or type(got) is not int:
        return bad(want, got, "Perm.rank: position in the (length, lex) enumeration")
    if p.perm2ind() != want:
        return bad(want, p.perm2ind(), "alias perm2ind")
    if _tup(Perm.unrank(got)) != t:
        return bad(t, Perm.unrank(got), "unrank(rank(p))")
    loc = got - T.offset(len(t))
    if _tup(Perm.unrank(loc, len(t))) != t:
        return bad(t, Perm.unrank(loc, len(t)), "unrank(rank(p) - #shorter, len(p))")
    return ok(len(t) >= 2)


@check("C09.rank.monotone")
def rank_monotone(item):
    p, q = item
    want = S.lt_perm(_tup(p), _tup(q))
    res = {"p < q": p < q, "rank(p) < rank(q)": p.rank() < q.rank(), "not (q <= p)": not (q <= p), "q > p": q > p}
    for name, g in res.items():
        if g is not want:
            return bad(want, g, f"{name} disagrees with the (length, lex) order")
    if (p.rank() == q.rank()) != (_tup(p) == _tup(q)):
        return bad(_tup(p) == _tup(q), p.rank() == q.rank(), "rank is injective")
    return ok(_tup(p) != _tup(q))


# ===================================================================== standardisation
_LETTERS = "abc"


def _materialise(kind, base):
    """Build the actual argument of to_standard from an encodable description.
    Returns (argument, list of its elements)."""
    base = tuple(base)
    if kind == "tuple":
        vals = list(base)
        return tuple(vals), vals
    if kind == "list":
        vals = list(base)
        return list(vals), vals
    if kind == "float":
        vals = [v + 0.5 for v in base]
        return tuple(vals), vals
    if kind == "floatint":  # 1 and 1.0 are equal and hash-equal
        vals = [float(v) if i % 2 else v for i, v in enumerate(base)]
        return tuple(vals), vals
    if kind == "allfloat":
        vals = [float(v) for v in base]
        return tuple(vals), vals
    if kind == "bool":
        vals = [bool(v % 2) for v in base]
        return tuple(vals), vals
    if kind == "fraction":
        vals = [Fraction(v, 1) if i % 2 else Fraction(2 * v, 2) for i, v in enumerate(base)]
        return tuple(vals), vals
    if kind == "str":
        vals = [_LETTERS[v % 3] if v < 3 else chr(ord("a") + v) for v in base]
        return "".join(vals), vals
    if kind == "strs":
        vals = [_LETTERS[v % 3] * (1 + v % 2) for v in base]
        return tuple(vals), vals
    if kind == "tuples":
        vals = [(v // 2, -v) for v in base]
        return tuple(vals), vals
    if kind == "big":
        vals = [v * 10 ** 20 - 5 for v in base]
        return tuple(vals), vals
    if kind == "gen":
        vals = list(base)
        return (v for v in vals), vals
    if kind == "iter":
        vals = list(base)
        return iter(list(vals)), vals
    if kind == "range":
        rg = range(*base)
        return rg, list(rg)
    if kind in ("ptuples", "perms"):
        # values that are EQUAL and hash-equal across the two kinds (a Perm is a tuple) but ORDERED differently:
        # plain tuples lexicographically, permutations by (length, entries) - a memo keyed by == must not confuse them
        pool = ((1, 0), (0, 1, 2), (0,), (0, 1), (2, 1, 0), (1, 0, 2))
        raw = [pool[v % 6] for v in base]
        if kind == "ptuples":
            return tuple(raw), raw
        return tuple(_P()(t) for t in raw), [(len(t), t) for t in raw]
    if kind == "lists":  # unhashable elements
        vals = [[v] for v in base]
        return list(vals), vals
    if kind == "listpairs":
        vals = [[v // 2, -v] for v in base]
        return tuple(vals), vals
    # one-shot iterables of UNHASHABLE elements (the element type and the container type are independent)
    if kind == "lists_gen":
        vals = [[v] for v in base]
        return (x for x in vals), vals
    if kind == "lists_iter":
        vals = [[v] for v in base]
        return iter(list(vals)), vals
    if kind == "lists_map":
        vals = [[v] for v in base]
        return map(list, [(v,) for v in base]), vals
    if kind == "lists_reversed":
        vals = [[v] for v in base]
        return reversed(list(reversed(vals))), vals
    raise KeyError(kind)


_STD_ENTRY = ("to_standard", "standardize", "from_iterable")


def _std_once(kind, base, entry="to_standard"):
    Perm = _P()
    arg, vals = _materialise(kind, base)
    want = S.std(vals)
    snapshot = list(vals)
    got = getattr(Perm, entry)(arg)
    if type(got) is not Perm or _tup(got) != want:
        return bad(want, got, f"Perm.{entry}({kind} {vals!r}): not the standardisation (ties left to right)")
    if not T.valid(_tup(got), len(vals)):
        return bad("a bijection", got, "result of standardisation is not a permutation")
    if isinstance(arg, list) and arg != snapshot:
        return bad(snapshot, arg, "to_standard mutated its argument")
    return None


@check("C09.standardise")
def standardise(item):
    kind, base = item
    for entry in _STD_ENTRY:
        for _ in (0, 1):  # second call is served from the memo
            res = _std_once(kind, base, entry)
            if res is not None:
                return res
    _arg, vals = _materialise(kind, base)
    nt = len(set(vals)) < len(vals) if kind != "range" else len(vals) > 1  # measured: the input has a tie
    return ok(nt)


@check("C09.standardise.unhashable")
def standardise_unhashable(item):
    """'any comparable values': lists compare lexicographically but are unhashable."""
    kind, base = item
    res = _std_once(kind, base)
    if res is not None:
        return res
    return ok(len(base) >= 2)


def _memo_clear():
    Perm = _P()
    raw = Perm.__dict__.get("_to_standard")
    fn = getattr(raw, "__func__", raw)
    if hasattr(fn, "cache_clear"):
        fn.cache_clear()
    return fn


@check("C09.standardise.history")
def standardise_history(item):
    """A sequence of standardisations against one memo: cold, then the same inputs
    again (warm) in reverse and interleaved order; equal-but-differently-typed keys
    ((1, 2) vs (1.0, 2.0) vs (True, 2)) share memo entries.  Results handed out
    earlier must still read the same at the end."""
    Perm = _P()
    mode, steps = item
    _memo_clear()
    if mode == "evict":
        n_keys, recheck = steps
        keys = [(i // 100, i % 100, (i * 7) % 13, (i * 3) % 5) for i in range(n_keys)]
        first = {}
        for k in keys[:recheck]:
            first[k] = Perm.to_standard(k)
        for k in keys:
            got = Perm.to_standard(k)
            if _tup(got) != S.std(k):
                return bad(S.std(k), got, f"to_standard({k}) while filling the memo")
        for k in keys[:recheck]:
            got = Perm.to_standard(k)
            if _tup(got) != S.std(k) or _tup(first[k]) != S.std(k):
                return bad(S.std(k), got, f"to_standard({k}) after its memo entry was evicted")
        return ok(n_keys > 10000)
    handed = []
    order = list(range(len(steps)))
    plan = order + order[::-1] + [i for pair in zip(order[::2], order[1::2][::-1]) for i in pair]
    for j in plan:
        kind, base = steps[j]
        arg, vals = _materialise(kind, base)
        want = S.std(vals)
        got = Perm.to_standard(arg)
        if type(got) is not Perm or _tup(got) != want:
            return bad(want, got, f"history step {j}: to_standard({kind} {vals!r}) with a warm memo")
        # use the (possibly shared) result the way callers do
        if len(got) and Perm((0,)).contained_in(got) is not True:
            return bad(True, False, "result object unusable as a permutation")
        got.inverse()
        handed.append((got, want))
    for got, want in handed:
        if _tup(got) != want:
            return bad(want, got, "a result handed out earlier changed afterwards")
    return ok(len(steps) > 1)


# ===================================================================== notations
@check("C09.notation.str")
def notation_str(p):
    Perm = _P()
    t = _tup(p)
    s = str(p)
    if type(s) is not str:
        return bad("a str", type(s).__name__, "str(Perm)")
    back = Perm.from_string(s)
    if type(back) is not Perm or _tup(back) != t:
        return bad(t, back, f"Perm.from_string(str(p)) with str(p) = {s!r}")
    if 0 < len(t) <= 10:
        digits = "".join(str(v) for v in t)
        r2 = Perm.from_string(digits)
        if _tup(r2) != t:
            return bad(t, r2, f"Perm.from_string({digits!r}): documented digit-string reading")
    return ok(len(t) >= 2)


@check("C09.notation.epsilon")
def notation_epsilon(text):
    Perm = _P()
    got = Perm.from_string(text)
    if type(got) is not Perm or _tup(got) != ():
        return bad((), got, f"Perm.from_string({text!r}) must be the empty permutation")
    if str(got) != "ε" or str(Perm()) != "ε":
        return bad("ε", str(got), "str of the empty permutation")
    return ok(True)


@check("C09.notation.one_based")
def notation_one_based(p):
    Perm = _P()
    t = _tup(p)
    one = tuple(v + 1 for v in t)
    forms = {"tuple": one, "list": list(one), "generator": (v for v in one), "Perm-like tuple subclass": Perm(one)}
    for name, arg in forms.items():
        got = Perm.one_based(arg)
        if type(got) is not Perm or _tup(got) != t:
            return bad(t, got, f"Perm.one_based({name} {one})")
    for alias in ("one", "proper", "scientific"):
        got = getattr(Perm, alias)(one)
        if type(got) is not Perm or _tup(got) != t:
            return bad(t, got, f"Perm.{alias}({one})")
    return ok(len(t) >= 2)


@check("C09.notation.from_integer")
def notation_from_integer(number):
    """The decimal digits of `number` spell a permutation 0-based or 1-based (never
    both); the result is that permutation, 0-based."""
    Perm = _P()
    digits = [int(c) for c in str(number)]
    if S.is_perm(digits):
        want = tuple(digits)
    elif S.is_perm([d - 1 for d in digits]):
        want = tuple(d - 1 for d in digits)
    else:
        raise RuntimeError(f"domain error: {number} does not spell a permutation")
    got = Perm.from_integer(number)
    if type(got) is not Perm or _tup(got) != want:
        return bad(want, got, f"Perm.from_integer({number})")
    return ok(len(want) >= 2)


@check("C09.notation.repr")
def notation_repr(p):
    Perm = _P()
    t = _tup(p)
    text = repr(p)
    back = eval(text, {"Perm": Perm})  # noqa: S307
    if type(back) is not Perm or _tup(back) != t:
        return bad(t, back, f"eval(repr(p)) with repr(p) = {text!r}")
    if "{!r}".format(p) != text or f"{[p]}" != f"[{text}]":
        return bad(text, f"{[p]}", "repr used inside containers")
    return ok(len(t) >= 2)


_MSG_RANGE = re.compile(r"^Element out of range: (-?\d+)$")
_MSG_DUP = re.compile(r"^Duplicate element: (-?\d+)$")
_NONINT = {"None": None, "half": 0.5, "str": "1", "tuple": (0,), "complex": 1j}


@check("C09.validated")
def validated(item):
    """from_iterable_validated accepts exactly the bijections of range(n)."""
    Perm = _P()
    kind, seq = item
    seq = tuple(seq)
    n = len(seq)
    if kind == "tuple":
        arg = seq
    elif kind == "list":
        arg = list(seq)
    elif kind == "iter":
        arg = iter(seq)
    elif kind == "perm":
        arg = Perm(seq)
    elif kind == "str":
        arg = "".join(str(v) for v in seq)
    elif kind.startswith("nonint:"):
        _, what, pos = kind.split(":")
        lst = list(seq)
        lst[int(pos)] = _NONINT[what]
        arg = tuple(lst)
    else:
        raise KeyError(kind)
    try:
        got = Perm.from_iterable_validated(arg)
        outcome = ("returned", got)
    except (TypeError, ValueError) as exc:
        outcome = (type(exc).__name__, str(exc))
    if kind.startswith("nonint:"):
        rest_ok = all(0 <= v < n for i, v in enumerate(seq) if i != int(pos)) and len(set(seq)) == n
        allowed = ("TypeError",) if rest_ok else ("TypeError", "ValueError")
        if outcome[0] not in allowed:
            return bad(" or ".join(allowed), outcome, f"from_iterable_validated({arg!r}) with a non-integer entry")
        return ok(rest_ok)
    if S.is_perm(seq):
        if outcome[0] != "returned" or type(outcome[1]) is not Perm or _tup(outcome[1]) != seq:
            return bad(seq, outcome, f"from_iterable_validated({kind} {arg!r}) must accept a bijection")
        return ok(n >= 2)
    if outcome[0] != "ValueError":
        return bad("ValueError", outcome, f"from_iterable_validated({kind} {arg!r}) must reject a non-bijection")
    msg = outcome[1]
    m = _MSG_RANGE.match(msg)
    if m:
        v = int(m.group(1))
        if v not in seq or 0 <= v < n:
            return bad("an element that is out of range", msg, "documented message names a wrong element")
        return ok(True)
    m = _MSG_DUP.match(msg)
    if m:
        v = int(m.group(1))
        if seq.count(v) < 2:
            return bad("an element that occurs twice", msg, "documented message names a wrong element")
        return ok(True)
    return bad("'Element out of range: v' or 'Duplicate element: v'", msg, "documented message kinds")


# ===================================================================== mesh patterns
def _cells_of(number, k):
    """Docstring of MeshPatt.rank: bit x*(k+1)+y of the rank <-> cell (x, y)."""
    return frozenset((x, y) for x in range(k + 1) for y in range(k + 1) if number >> (x * (k + 1) + y) & 1)


@check("C09.mesh.unrank")
def mesh_unrank(item):
    from permuta import MeshPatt

    Perm = _P()
    patt, number = item
    k = len(patt)
    want = _cells_of(number, k)
    got = MeshPatt.unrank(patt, number)
    if type(got) is not MeshPatt:
        return bad("MeshPatt", type(got).__name__, "type of MeshPatt.unrank")
    if _tup(got.pattern) != _tup(patt) or type(got.pattern) is not Perm:
        return bad(patt, got.pattern, "underlying pattern of MeshPatt.unrank")
    sh = frozenset(tuple(c) for c in got.shading)
    if sh != want:
        return bad(sorted(want), sorted(sh), f"MeshPatt.unrank({_tup(patt)}, {number}): shaded cells")
    back = got.rank()
    if back != number or type(back) is not int:
        return bad(number, back, "MeshPatt.unrank(...).rank()")
    return ok(0 < len(want) < (k + 1) ** 2)


@check("C09.mesh.rank")
def mesh_rank(m):
    from permuta import MeshPatt

    k = len(m.pattern)
    cells = frozenset(tuple(c) for c in m.shading)
    want = sum(2 ** (x * (k + 1) + y) for (x, y) in cells)
    got = m.rank()
    if got != want or type(got) is not int:
        return bad(want, got, "MeshPatt.rank = sum of 2^(x*(k+1)+y)")
    if not 0 <= got < 2 ** ((k + 1) ** 2):
        return bad(f"0 <= rank < 2^{(k + 1) ** 2}", got, "rank range")
    back = MeshPatt.unrank(m.pattern, got)
    if back != m or _tup(back.pattern) != _tup(m.pattern) or frozenset(map(tuple, back.shading)) != cells:
        return bad(m, back, "MeshPatt.unrank(pattern, rank(m))")
    return ok(0 < len(cells) < (k + 1) ** 2)


@check("C09.mesh.of_length")
def mesh_of_length(item):
    from permuta import MeshPatt

    k, patt = item
    gen = MeshPatt.of_length(k) if patt is None else MeshPatt.of_length(k, patt)
    patterns = list(T.lex_perms_cached(k)) if patt is None else [_tup(patt)]
    total = len(patterns) * 2 ** ((k + 1) ** 2)
    seen = set()
    count = 0
    for m in gen:
        count += 1
        if type(m) is not MeshPatt:
            return bad("MeshPatt", type(m).__name__, "element type of MeshPatt.of_length")
        key = (_tup(m.pattern), frozenset(tuple(c) for c in m.shading))
        if key in seen:
            return bad("each mesh pattern once", f"{key} twice", "MeshPatt.of_length yields a duplicate")
        if key[0] not in patterns or not all(0 <= x <= k and 0 <= y <= k for x, y in key[1]):
            return bad(f"patterns of length {k} with cells in [0,{k}]^2", key, "MeshPatt.of_length yields a foreign object")
        seen.add(key)
        if count > total:
            break
    if count != total or len(seen) != total:
        return bad(total, count, f"MeshPatt.of_length({k}, {patt}): number of (pattern, shading) pairs")
    return ok(k >= 1)


# ===================================================================== documented asserts
def _calls():
    from permuta import MeshPatt

    Perm = _P()
    return {
        "Perm.unrank": lambda *a: Perm.unrank(*a),
        "Perm.from_integer": lambda *a: Perm.from_integer(*a),
        "MeshPatt.unrank": lambda *a: MeshPatt.unrank(*a),
    }


@check("C09.asserts")
def asserts(item):
    """Arguments outside the documented range must hit the assert statements of the
    code (unrank/_unrank: 0 <= number < n!; from_integer: 0 <= integer <= 9876543210;
    MeshPatt.unrank: 0 <= number < 2^((k+1)^2)); the in-range neighbour must not."""
    name, args, must_raise = item
    fn = _calls()[name]
    if must_raise:
        hit, info = _raises(lambda: fn(*args), AssertionError)
        if not hit:
            return bad("AssertionError", info, f"{name}{args}: out-of-range argument accepted")
        return ok(True)
    fn(*args)  # an exception here is a failure ("no exception" expected)
    return ok(True)


# ===================================================================== known findings
def kf_str_long(failure):
    """from_string(str(p)) for len(p) > 10: __str__ switches to '(10)(3)...'."""
    p = codec.dec(failure["input"])
    return isinstance(p, tuple) and len(p) > 10


def _has_unhashable(x):
    try:
        hash(x)
    except TypeError:
        return True
    return False


def kf_std_unhashable(failure):
    """to_standard on a sequence containing an unhashable element (lru_cache key)."""
    kind, base = codec.dec(failure["input"])
    _arg, vals = _materialise(kind, base)
    return any(_has_unhashable(v) for v in vals) and "unhashable" in failure.get("actual", "")


# ===================================================================== driver
def run(ctx):
    quick = ctx.tier == "quick"
    Perm = _P()
    rng = D.subrng(ctx, "c09")
    nmax = 7 if quick else 8

    # ---- generators
    ctx.run("C09.gen.of_length", range(0, nmax + 2), chunk=1,
            rule=f"n = 0..{nmax + 1}; own recursive lexicographic generator as oracle; non-trivial = n >= 2")
    ctx.run("C09.gen.up_to_length", range(0, nmax + 1), chunk=1, rule=f"n = 0..{nmax}")
    kmax = T.offset(7) if quick else T.offset(7) + 200
    ctx.run("C09.gen.first", range(0, kmax + 1), chunk=40,
            rule=f"every count k = 0..{kmax} (= all of lengths <= 6{'' if quick else ' and 200 of length 7'})")
    ctx.run("C09.gen.order", [(n, rng.randrange(10 ** 6)) for n in range(0, nmax + 1)], chunk=1,
            rule="sorted(seeded shuffle) and sorted(reversed) of up_to_length(n) give the list back; adjacent pairs increasing")
    ctx.add_sample("C09.gen.first", 874)

    # ---- rank / unrank
    umax = nmax if quick else nmax + 1  # thorough: one more level for the global rank
    rmax = T.offset(umax + 1)
    ctx.run("C09.unrank", range(0, rmax), chunk=1500,
            rule=f"all ranks r < sum_(n<={umax}) n! = {rmax}; oracle = r-th entry of the own enumeration, cross-checked by counting")
    lmax = 7 if quick else 8
    ctx.run("C09.unrank_length", ((r, n) for n in range(0, lmax + 1) for r in range(T.factorial(n))), chunk=1500,
            rule=f"all (r, n) with n <= {lmax}, 0 <= r < n! (n = 0: r = 0 only)")
    ctx.run("C09.rank", D.perms_upto(nmax), chunk=1500, rule=f"all permutations of length <= {nmax}; oracle counts smaller permutations")
    longer = [D.random_perm(rng, n) for n in (9, 10, 11, 12, 15, 20) for _ in range(30 if quick else 200)]
    # ranks beyond 2**53 (length >= 19) and beyond the exactness of doubles for every intermediate factorial
    # (length >= 23): identity, reverse identity and seeded permutations of every length 21..32 (added after
    # seeded change C09_d - float division in rank, visible from length 24 - was missed)
    Perm_ = _P()
    for n in range(21, 33 if quick else 41):
        longer += [Perm_(range(n)), Perm_(range(n - 1, -1, -1))] + [D.random_perm(rng, n) for _ in range(4 if quick else 20)]
    ctx.run("C09.rank", longer, chunk=40, rule="seeded permutations of length 9-20 and identity / reverse / seeded ones of every length 21-32 (40 thorough): big ranks, unrank(rank) round trip")
    small = D.perms_upto(4)
    pairs = [(p, q) for p in small for q in small]
    pool = D.perms_upto(6)
    for _ in range(3000 if quick else 30000):
        if rng.random() < 0.5:
            n = rng.choice((5, 6, 7, 8))
            pairs.append((D.random_perm(rng, n), D.random_perm(rng, n)))
        else:
            pairs.append((rng.choice(pool), rng.choice(pool)))
    ctx.run("C09.rank.monotone", pairs, chunk=400,
            rule="all pairs of permutations <= 4 plus seeded pairs (same length 5-8, or any two of length <= 6)")
    ctx.add_sample("C09.unrank", 873)
    ctx.add_sample("C09.unrank_length", (119, 5))

    # ---- standardisation
    seqs = [t for k in range(0, 6) for t in itertools.product(range(3), repeat=k)]
    kinds = ("tuple", "list", "float", "floatint", "allfloat", "bool", "fraction", "str", "strs", "tuples", "big", "gen", "iter", "ptuples", "perms")
    items = [(kind, t) for t in seqs for kind in kinds]
    rng.shuffle(items)  # seeded order: the memo is warm with equal keys of other types
    for _ in range(400 if quick else 4000):
        k = rng.randrange(6, 13)
        items.append((rng.choice(kinds), tuple(rng.randrange(0, rng.choice((2, 3, 5, 12))) for _ in range(k))))
    for a in range(-2, 4):
        for b in range(-2, 5):
            for st in (1, 2, -1):
                items.append(("range", (a, b, st)))
    ctx.run("C09.standardise", items, chunk=300,
            rule="all sequences of length <= 5 over 3 letters, as 15 kinds of input (ints, lists, floats, mixed int/float, "
                 "bools, Fractions, str, tuples of str, tuples, big ints, generators, iterators, plain tuples vs equal Perm objects), seeded order, each called twice "
                 "through the three aliases; seeded sequences of length 6-12; ranges; non-trivial = has a tie")
    ctx.add_sample("C09.standardise", ("str", (2, 0, 0, 1, 0)))
    unh = [(kind, t) for t in seqs if 1 <= len(t) <= 3 for kind in ("lists", "listpairs", "lists_gen", "lists_iter", "lists_map", "lists_reversed")]
    unh += [("tuples", t) for t in seqs if len(t) <= 2]  # hashable control cases
    ctx.run("C09.standardise.unhashable", unh, chunk=100,
            rule="sequences of length 1-3 whose elements are lists (comparable, unhashable), given as list / tuple / generator / iterator / map / reversed "
                 "(one-shot containers of unhashable values: added after seeded change C09_c was missed) + hashable controls")
    hist = []
    for _ in range(60 if quick else 600):
        steps = []
        for _ in range(rng.randrange(4, 12)):
            t = rng.choice(seqs)
            for kind in rng.sample(("tuple", "floatint", "allfloat", "bool", "fraction", "list", "gen", "big", "ptuples", "perms", "perms", "ptuples"), 3):
                steps.append((kind, t))
        rng.shuffle(steps)
        hist.append(("steps", tuple(steps)))
    hist += [("evict", (10000 + d, 150)) for d in (-1, 0, 1, 50)]
    ctx.run("C09.standardise.history", hist, chunk=2,
            rule="memo cleared, then 12-33 seeded calls with equal keys of different types, replayed in reverse and "
                 "interleaved order; plus fill-and-evict scenarios at the lru_cache bound 10000 +-1")

    # ---- notations
    allp = D.perms_upto(nmax)
    boundary = [D.random_perm(rng, n) for n in (8, 9, 10, 11, 12, 13) for _ in range(20 if quick else 200)]
    boundary += [Perm(range(n)) for n in (9, 10, 11, 12)] + [Perm(range(n - 1, -1, -1)) for n in (9, 10, 11, 12)]
    ctx.run("C09.notation.str", allp + boundary, chunk=800,
            rule=f"all permutations <= {nmax} plus seeded ones at the lengths around the constant 10 of __str__ (8-13)")
    ctx.run("C09.notation.epsilon", ["ε", str(Perm())], chunk=1, rule="the empty-permutation spelling")
    ctx.run("C09.notation.one_based", allp + boundary, chunk=800, rule="same domain; tuple, list, generator, aliases")
    ctx.run("C09.notation.repr", allp + boundary, chunk=800, rule="same domain")
    ints = {0, 9876543210, 1, 123456789, 987654321, 1234567890}
    for p in allp + [q for q in boundary if len(q) <= 10]:
        n = len(p)
        if n == 0:
            continue
        if n <= 9:
            ints.add(int("".join(str(v + 1) for v in p)))
        # 0-based spelling; with a leading 0 the integer spells the 1-based rest
        ints.add(int("".join(str(v) for v in p)))
    ctx.run("C09.notation.from_integer", sorted(ints), chunk=800,
            rule="0-based and 1-based decimal spellings of every permutation <= 7 and of seeded ones of length 8-10 "
                 "(a leading 0 is dropped by int: the rest is a 1-based spelling), 0, 9876543210")
    val = []
    for k in range(0, 5):
        for t in itertools.product(range(-1, 5), repeat=k):
            val.append(("tuple", t))
            val.append((rng.choice(("list", "iter", "perm")), t))
            if all(0 <= v <= 4 for v in t):
                val.append(("str", t))
    for k in range(1, 5):
        for t in itertools.product(range(0, 4), repeat=k):
            if S.is_perm(t) or rng.random() < 0.1:
                for what in _NONINT:
                    val.append((f"nonint:{what}:{rng.randrange(k)}", t))
    for p in allp[34:] if quick else allp[34:]:
        if rng.random() < (0.2 if quick else 1.0):
            val.append((rng.choice(("tuple", "list", "iter", "str")), tuple(p)))
            t = list(p)
            t[rng.randrange(len(t))] = rng.choice((-1, len(t), t[0], len(t) + 5))
            val.append(("tuple", tuple(t)))
    ctx.run("C09.validated", val, chunk=500,
            rule="all sequences of length <= 4 over -1..4 (tuple + one other container; digit strings over 0..4); "
                 "bijections with one entry replaced by None/0.5/'1'/(0,)/1j; longer bijections and one-entry corruptions")
    ctx.add_sample("C09.validated", ("tuple", (2, 1, 1)))

    # ---- mesh patterns
    mu = []
    for k in (0, 1, 2):
        for t in T.lex_perms_cached(k):
            mu += [(Perm(t), r) for r in range(2 ** ((k + 1) ** 2))]
    for t in T.lex_perms_cached(3):
        special = {0, 1, 2 ** 16 - 1, 2 ** 15, 2 ** 16 - 2} | {2 ** b for b in range(16)}
        rs = set(rng.randrange(2 ** 16) for _ in range(334 if quick else 3000)) | special
        mu += [(Perm(t), r) for r in sorted(rs)]
    for _ in range(100 if quick else 1000):
        p = D.random_perm(rng, 4)
        mu.append((p, rng.randrange(2 ** 25)))
    mu += [(Perm((0, 1, 2, 3)), 2 ** 25 - 1), (Perm((3, 1, 0, 2)), 0)]
    ctx.run("C09.mesh.unrank", mu, chunk=400,
            rule="all (pattern, number) for length <= 2; ~2000 seeded numbers + all single-bit/extreme numbers for length 3; "
                 "seeded for length 4; non-trivial = neither empty nor full shading")
    ms = list(D.all_mesh(0)) + list(D.all_mesh(1)) + list(D.all_mesh(2))
    ms += list(D.sampled_mesh(rng, 3, 330 if quick else 3000))
    ms += list(D.sampled_mesh(rng, 4, 2 if quick else 20, boundary=False))
    ctx.run("C09.mesh.rank", ms, chunk=400,
            rule="mesh patterns built from explicit cell sets: all of length <= 2, seeded + boundary shadings of length 3, seeded of length 4")
    ol = [(0, None), (1, None), (2, None), (0, Perm()), (1, Perm((0,))), (2, Perm((0, 1))), (2, Perm((1, 0)))]
    three = [Perm(t) for t in T.lex_perms_cached(3)]
    ol += [(3, rng.choice(three))] if quick else [(3, p) for p in three] + [(3, None)]
    ctx.run("C09.mesh.of_length", ol, chunk=1,
            rule="of_length(k) and of_length(k, patt) for k <= 2 (all), k = 3 one pattern (all six and the full call in thorough): "
                 "every (pattern, shading) exactly once")
    ctx.add_sample("C09.mesh.unrank", (Perm((0, 1, 2)), 386))

    # ---- documented asserts
    A = [("Perm.unrank", (-1,), True), ("Perm.unrank", (0,), False), ("Perm.unrank", (-5,), True)]
    for n in range(0, 7):
        f = T.factorial(n)
        A += [("Perm.unrank", (f, n), True), ("Perm.unrank", (f + 1, n), True), ("Perm.unrank", (-1, n), True),
              ("Perm.unrank", (f - 1, n), False), ("Perm.unrank", (0, n), False), ("Perm.unrank", (10 * f + 3, n), True)]
    A += [("Perm.from_integer", (-1,), True), ("Perm.from_integer", (9876543211,), True),
          ("Perm.from_integer", (9876543210,), False), ("Perm.from_integer", (0,), False),
          ("Perm.from_integer", (10 ** 11,), True)]
    for k in range(0, 4):
        for t in (T.lex_perms_cached(k)[0], T.lex_perms_cached(k)[-1]):
            top = 2 ** ((k + 1) ** 2)
            A += [("MeshPatt.unrank", (Perm(t), top), True), ("MeshPatt.unrank", (Perm(t), -1), True),
                  ("MeshPatt.unrank", (Perm(t), top - 1), False), ("MeshPatt.unrank", (Perm(t), 0), False),
                  ("MeshPatt.unrank", (Perm(t), 2 * top + 1), True)]
    ctx.run("C09.asserts", A, chunk=10,
            rule="each documented assert at bound-1 (accepted), bound and beyond (AssertionError)")

    ctx.exhaustive = False
    ctx.assumptions += [
        "B layer: bounded; exhaustive up to the stated sizes, seeded beyond (standardisation inputs > 5, lengths 8-20, mesh length 3-4)",
        "oracle for the enumeration: own recursive generator 'smallest unused value first'; for ranks: counting smaller permutations",
        "Python asserts are enabled (no -O)",
        "CPython total order on ints/floats/Fractions/str/tuples used by the standardisation oracle (sorted by (value, position))",
    ]
    from props import dlayer

    dlayer.run(ctx, "C09")
