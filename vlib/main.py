"""./check <ID> [--tier quick|thorough]  |  ./check replay <path>"""
import importlib
import json
import os
import sys
import traceback

from . import codec, core, repo


def _load(prop):
    return importlib.import_module(f"props.{prop.lower()}")


def main(argv):
    if not argv:
        print(__doc__, file=sys.stderr)
        return 3
    if argv[0] == "replay":
        return replay(argv[1])
    prop = argv[0].upper()
    tier = os.environ.get("VERIF_TIER", "quick")
    if "--tier" in argv:
        tier = argv[argv.index("--tier") + 1]
    if tier not in ("quick", "thorough"):
        tier = "quick"
    seed = int(os.environ.get("VERIF_SEED", "20260101") or 0)
    repo.import_permuta()
    ctx = core.Ctx(prop, tier, seed)
    try:
        import pyvc.policy  # noqa: F401  (registers D.runtime before any worker is forked)
        mod = _load(prop)
        ctx.level = getattr(mod, "LEVEL", "exploration")
        mod.run(ctx)
        code = ctx.finish()
    except BaseException as exc:  # checker crash: never a violation ...
        ctx.close()
        traceback.print_exc()
        lib = _raised_inside_library(exc)
        if lib is not None:
            # ... unless it is the LIBRARY that raised, on an input the check hands to it while building its
            # domains / observations (which the unchanged tree accepts, with the same seed): that call is the
            # failing input.  Recorded like a failing case of the pseudo-check <ID>.setup.
            ctx.failures.setdefault(f"{prop}.setup", []).append({
                "input": lib["call"], "expected": "the call returns (as on the unchanged tree)",
                "actual": f"raised {type(exc).__name__}: {exc}", "note": lib["trace"]})
            try:
                return ctx.finish()
            except BaseException:  # noqa: BLE001
                traceback.print_exc()
        print(f"CHECKER-CRASH property={prop}", file=sys.stderr)
        return 3
    return code


def _raised_inside_library(exc):
    """the innermost frame of an ordinary exception lies in the package under test"""
    if not isinstance(exc, Exception) or isinstance(exc, (MemoryError, ImportError, RuntimeError)):
        return None
    frames = traceback.extract_tb(exc.__traceback__)
    if not frames:
        return None
    lib_dir = os.path.join(repo.REPO, "permuta") + os.sep
    if not os.path.abspath(frames[-1].filename).startswith(lib_dir):
        return None
    first_lib = next(i for i, f in enumerate(frames) if os.path.abspath(f.filename).startswith(lib_dir))
    caller = frames[first_lib - 1] if first_lib > 0 else frames[0]
    return {"call": f"{os.path.basename(caller.filename)}:{caller.lineno}: {caller.line}",
            "trace": "".join(traceback.format_list(frames[max(0, first_lib - 1):]))[-1500:]}


def replay(path):
    """Re-run the recorded failing input against the current tree and print
    expected (spec) versus actual (real code)."""
    repo.import_permuta()
    with open(path) as fh:
        rec = json.load(fh)
    prop = rec["property"]
    _load(prop)
    if rec.get("input", "") is None or "failed_obligation" in rec:
        print(f"obligation {rec.get('failed_obligation')} has no concrete input; verifier output:")
        print(rec.get("verifier_output"))
        # re-run the deductive part so the reader sees the current status
        mod = _load(prop)
        if hasattr(mod, "replay_obligation"):
            return mod.replay_obligation(rec)
        return 1
    name = rec["check"]
    first = rec["first"]
    if name.endswith(".setup"):
        print(f"while building its inputs the check called the library at {first['input']}\n  expected: {first['expected']}\n  actual:   {first['actual']}\n{first.get('note', '')}")
        print("re-run the check itself to see whether the call still raises")
        return 1
    import pyvc.policy  # noqa: F401

    fn = core.REGISTRY["D.runtime" if name.startswith("D:") else name]
    item = first["input"]
    try:
        res = fn(codec.dec(item))
    except Exception as exc:
        print(f"check {name} on {item}: raised {type(exc).__name__}: {exc}")
        return 1
    fail = None if res is None else res[0]
    if fail is None:
        print(f"check {name} on {item}: passes on the current tree")
        return 0
    print(f"check {name} on {item}:\n  expected: {fail['expected']}\n  actual:   {fail['actual']}\n  note: {fail['note']}")
    return 1


if __name__ == "__main__":
    sys.exit(main(sys.argv[1:]))
