"""./check <ID> [--tier quick|thorough]  |  ./check replay <path>"""
import importlib
import json
import os
import sys
import traceback

from . import codec, core, repo


def _load(prop):
    return importlib.import_module(f"props.{prop.lower()}")


def main(argv):
    if not argv:
        print(__doc__, file=sys.stderr)
        return 3
    if argv[0] == "replay":
        return replay(argv[1])
    prop = argv[0].upper()
    tier = os.environ.get("VERIF_TIER", "quick")
    if "--tier" in argv:
        tier = argv[argv.index("--tier") + 1]
    if tier not in ("quick", "thorough"):
        tier = "quick"
    seed = int(os.environ.get("VERIF_SEED", "20260101") or 0)
    repo.import_permuta()
    ctx = core.Ctx(prop, tier, seed)
    try:
        import pyvc.policy  # noqa: F401  (registers D.runtime before any worker is forked)
        mod = _load(prop)
        ctx.level = getattr(mod, "LEVEL", "exploration")
        mod.run(ctx)
        code = ctx.finish()
    except BaseException:  # checker crash: never a violation
        ctx.close()
        traceback.print_exc()
        print(f"CHECKER-CRASH property={prop}", file=sys.stderr)
        return 3
    return code


def replay(path):
    """Re-run the recorded failing input against the current tree and print
    expected (spec) versus actual (real code)."""
    repo.import_permuta()
    with open(path) as fh:
        rec = json.load(fh)
    prop = rec["property"]
    _load(prop)
    if rec.get("input", "") is None or "failed_obligation" in rec:
        print(f"obligation {rec.get('failed_obligation')} has no concrete input; verifier output:")
        print(rec.get("verifier_output"))
        # re-run the deductive part so the reader sees the current status
        mod = _load(prop)
        if hasattr(mod, "replay_obligation"):
            return mod.replay_obligation(rec)
        return 1
    name = rec["check"]
    first = rec["first"]
    import pyvc.policy  # noqa: F401

    fn = core.REGISTRY["D.runtime" if name.startswith("D:") else name]
    item = first["input"]
    try:
        res = fn(codec.dec(item))
    except Exception as exc:
        print(f"check {name} on {item}: raised {type(exc).__name__}: {exc}")
        return 1
    fail = None if res is None else res[0]
    if fail is None:
        print(f"check {name} on {item}: passes on the current tree")
        return 0
    print(f"check {name} on {item}:\n  expected: {fail['expected']}\n  actual:   {fail['actual']}\n  note: {fail['note']}")
    return 1


if __name__ == "__main__":
    sys.exit(main(sys.argv[1:]))
