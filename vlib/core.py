"""Run-time framework shared by all property checks.

* check functions are registered by name (`@check("C01.occurrences")`), take one
  encoded-or-decoded input and return `ok(...)` / `bad(...)`;
* `Ctx.run` maps a check over an input stream on a process pool and aggregates
  evaluations / distinct non-trivial cases / failures;
* failures are matched against /verif/known_findings.json (never written here);
* `Ctx.finish` writes the evidence file, prints KNOWN-FINDING / VIOLATION lines and
  returns the exit code (0 held, 1 violation).  Crashes of the checker are mapped
  to exit 3 by vlib.main, never to 1.
"""
import itertools
import json
import multiprocessing as mp
import os
import random
import signal
import sys
import time
import traceback

from . import codec, repo

REGISTRY = {}
NCPU = max(1, min(int(os.environ.get("VERIF_NCPU", "16")), os.cpu_count() or 1))


def check(name):
    def deco(fn):
        REGISTRY[name] = fn
        fn.check_name = name
        return fn

    return deco


def ok(nt=True):
    return (None, bool(nt))


def bad(expected, actual, note="", nt=True):
    return ({"expected": _short(expected), "actual": _short(actual), "note": note}, bool(nt))


def _short(x, limit=2000):
    s = x if isinstance(x, str) else codec.enc(x)
    return s if len(s) <= limit else s[:limit] + "...<truncated>"


class CaseTimeout(BaseException):  # not an Exception: checks that catch Exception (to compare error behaviour) must not swallow it
    pass


class Encoded(str):
    """An input shipped to the worker as enc() text (values whose pickling is not
    safe: Basis / MeshBasis / Av re-run their constructors when unpickled)."""


def _needs_encoding(x, depth=0):
    ns = repo.namespace()
    if isinstance(x, (ns["Basis"], ns["MeshBasis"], ns["Av"])):
        return True
    if depth < 4 and type(x) in (tuple, list, set, frozenset):
        return any(_needs_encoding(v, depth + 1) for v in x)
    if depth < 4 and type(x) is dict:
        return any(_needs_encoding(v, depth + 1) for v in x.values()) or any(_needs_encoding(v, depth + 1) for v in x.keys())
    return False


def _wrap(items):
    for x in items:
        yield Encoded(codec.enc(x)) if _needs_encoding(x) else x


def _alarm(_sig, _frm):
    raise CaseTimeout()


def _work(job):
    name, items, timeout_s = job
    fn = REGISTRY[name]
    n = 0
    nt_count = 0
    fails = []
    signal.signal(signal.SIGALRM, _alarm)
    for item in items:
        n += 1
        if isinstance(item, Encoded):
            item = codec.dec(item)
        try:
            signal.setitimer(signal.ITIMER_REAL, timeout_s)
            try:
                res = fn(item)
            finally:
                signal.setitimer(signal.ITIMER_REAL, 0)
            if res is None:
                res = ok()
            fail, nt = res
        except CaseTimeout:
            fail, nt = {"expected": "the call returns", "actual": f"no result within {timeout_s}s", "note": "timeout"}, True
            # whatever blocked this case (a lock that was never released, ...) is likely to block the rest of
            # the block as well: report this case and leave the remaining ones of the block unevaluated
            try:
                fail["input"] = codec.enc(item)
            except Exception:  # pragma: no cover
                fail["input"] = repr(item)
            fails.append(fail)
            nt_count += 1
            # harness plumbing: if the blocked case left the process-wide lock of Av held (a suspended
            # generator inside a critical section), later cases in this worker would all time out as well;
            # give the worker a fresh lock so that the remaining checks still say something
            _worker_init()
            break
        except Exception as exc:  # an exception of the code under test is a failure
            fail, nt = {
                "expected": "no exception",
                "actual": f"raised {type(exc).__name__}: {exc}",
                "note": traceback.format_exc(limit=6),
            }, True
        if nt:
            nt_count += 1
        if fail is not None:
            try:
                enc = codec.enc(item)
            except Exception:  # pragma: no cover
                enc = repr(item)
            fail["input"] = enc
            fails.append(fail)
    return name, n, nt_count, fails


def _watchdog(it, limit_s, name):
    """A worker that dies (e.g. while unpickling its task) makes Pool wait for ever;
    turn that into a checker crash (exit 3) instead of a hang."""
    while True:
        try:
            yield it.next(timeout=limit_s)
        except StopIteration:
            return
        except mp.TimeoutError:
            raise RuntimeError(f"no result from the worker pool within {limit_s}s in check {name} (worker died?)")


def _worker_init():
    """Harness plumbing: Av._CACHE_LOCK is a multiprocessing.Lock created at import time, so the
    forked pool workers would all share ONE OS semaphore and serialise every Av query across the
    16 processes (independent processes in real use do not share it).  Each worker gets its own
    lock of the same kind; nothing else of the code under test is touched."""
    try:
        import multiprocessing.synchronize as ms

        from permuta.perm_sets.permset import Av

        lock = getattr(Av, "_CACHE_LOCK", None)
        if isinstance(lock, ms.Lock):
            Av._CACHE_LOCK = mp.Lock()
    except Exception:  # noqa: BLE001 - never let plumbing break a check
        pass


def _chunks(iterable, size):
    it = iter(iterable)
    while True:
        block = list(itertools.islice(it, size))
        if not block:
            return
        yield block


class Ctx:
    def __init__(self, prop, tier, seed):
        self.prop = prop
        self.tier = tier
        self.seed = seed
        self.rng = random.Random(seed)
        self.t0 = time.time()
        self.evaluations = 0
        self.nontrivial = 0
        self.per_check = {}  # name -> dict(evaluations, nontrivial, failures)
        self.samples = []
        self.failures = {}  # check name -> list of failure dicts
        self.noinput = []  # structural / deductive violations without an input
        self.obligations = []  # deductive obligation records
        self.assumptions = []
        self.rules = []
        self.notes = {}
        self.exhaustive = True
        self.level = "exploration"
        self.explanation = ""
        self.functions_under_contract = []
        self._pool = None
        self.known = _load_known(prop)

    # ------------------------------------------------------------------ pools
    def pool(self):
        if self._pool is None:
            ctx = mp.get_context("fork")
            self._pool = ctx.Pool(NCPU, initializer=_worker_init)
        return self._pool

    def close(self):
        if self._pool is not None:
            self._pool.terminate()
            self._pool.join()
            self._pool = None

    # ------------------------------------------------------------- B: running
    def run(self, name, inputs, chunk=64, timeout_s=120, parallel=True, rule=None, sample=2):
        """Evaluate registered check `name` on every element of `inputs`."""
        if name not in REGISTRY:
            raise KeyError(name)
        st = self.per_check.setdefault(name, {"evaluations": 0, "nontrivial": 0, "failures": 0})
        if rule:
            self.rules.append(f"{name}: {rule}")
        jobs = ((name, block, timeout_s) for block in _chunks(_wrap(inputs), chunk))
        if parallel and NCPU > 1:
            results = _watchdog(self.pool().imap_unordered(_work, jobs), chunk * timeout_s + 600, name)
        else:
            results = map(_work, jobs)
        first = True
        for _name, n, nt, fails in results:
            st["evaluations"] += n
            st["nontrivial"] += nt
            self.evaluations += n
            self.nontrivial += nt
            for f in fails:
                st["failures"] += 1
                self.failures.setdefault(name, []).append(f)
            first = False
        if first:
            raise RuntimeError(f"check {name} received an empty input stream (vacuous)")
        return st

    def add_sample(self, check_name, item, extra=None):
        if len(self.samples) < 24:
            s = {"check": check_name, "input": codec.enc(item)}
            if extra is not None:
                s["detail"] = extra
            self.samples.append(s)

    def direct(self, name, item, result):
        """Record the outcome of a check executed in the main process (stateful
        scenarios: operation sequences, threads, files)."""
        st = self.per_check.setdefault(name, {"evaluations": 0, "nontrivial": 0, "failures": 0})
        if result is None:
            result = ok()
        fail, nt = result
        st["evaluations"] += 1
        self.evaluations += 1
        if nt:
            st["nontrivial"] += 1
            self.nontrivial += 1
        if fail is not None:
            fail["input"] = codec.enc(item)
            st["failures"] += 1
            self.failures.setdefault(name, []).append(fail)

    # --------------------------------------------------------- D: obligations
    def add_obligations(self, records):
        self.obligations.extend(records)

    def violation_noinput(self, obligation, output):
        self.noinput.append({"obligation": obligation, "verifier_output": output})

    # ---------------------------------------------------------------- finish
    def finish(self):
        self.close()
        wall = time.time() - self.t0
        lines = []
        n_viol = 0
        known_hit = {}
        rdir = os.path.join(os.environ.get("VERIF_OUT_DIR", repo.VERIF), "replays", self.prop)
        os.makedirs(rdir, exist_ok=True)
        for name, fails in sorted(self.failures.items()):
            unmatched = []
            for f in fails:
                k = _match_known(self.known, name, f)
                if k is None:
                    unmatched.append(f)
                else:
                    known_hit.setdefault(k["id"], [k, 0, f])[1] += 1
            if unmatched:
                n_viol += 1
                path = os.path.join(rdir, _safe(name) + ".json")
                with open(path, "w") as fh:
                    json.dump(
                        {
                            "property": self.prop,
                            "check": name,
                            "failing_inputs": len(unmatched),
                            "first": unmatched[0],
                            "more": unmatched[1:10],
                            "replay": f"./check replay {path}",
                        },
                        fh,
                        indent=1,
                    )
                lines.append(
                    f"VIOLATION property={self.prop} replay={path} check={name} "
                    f"failing_inputs={len(unmatched)} first_input={_short(unmatched[0]['input'], 200)}"
                )
        for rec in self.noinput:
            k = _match_known(self.known, rec["obligation"], {"input": "", "obligation": rec["obligation"]})
            if k is not None:
                known_hit.setdefault(k["id"], [k, 0, rec])[1] += 1
                continue
            n_viol += 1
            path = os.path.join(rdir, _safe(rec["obligation"]) + ".json")
            with open(path, "w") as fh:
                json.dump({"property": self.prop, "failed_obligation": rec["obligation"],
                           "verifier_output": rec["verifier_output"], "input": None}, fh, indent=1)
            lines.append(
                f"VIOLATION property={self.prop} replay={path} obligation={rec['obligation']} no-failing-input-found"
            )
        for kid, (k, cnt, _f) in sorted(known_hit.items()):
            print(f"KNOWN-FINDING: property={self.prop} {k['what']} [{kid}; {cnt} failing case(s) matched]")
        for ln in lines:
            print(ln)
        self._write_evidence(wall, n_viol, known_hit)
        sys.stdout.flush()
        return 1 if n_viol else 0

    def _write_evidence(self, wall, n_viol, known_hit):
        obl = self.obligations
        discharged = sum(1 for o in obl if o["status"] == "discharged")
        undecided = [o["name"] for o in obl if o["status"] == "undecided"]
        refuted = [o["name"] for o in obl if o["status"] == "refuted"]
        level = self.level
        if level == "proof" and (not obl or discharged != len(obl)):
            level = "exploration"
        cov = {
            "evaluations": self.evaluations,
            "distinct_nontrivial": self.nontrivial,
            "rule": " | ".join(self.rules) or "see per_check",
            "samples": self.samples[:24] or [{"note": "no sample recorded"}],
            "exhaustive": bool(self.exhaustive),
            "per_check": self.per_check,
            "bounded_label": "every count above comes from the BOUNDED stand-in (run-time contracts over an enumerated domain); it is not proof",
            "obligations": len(obl),
            "discharged": discharged,
            "undecided": undecided,
            "refuted": refuted,
            "obligation_records": [
                {k: o[k] for k in ("name", "status", "backend", "ms") if k in o} for o in obl
            ][:400],
            "functions_under_contract": self.functions_under_contract,
            "solver_ms_total": round(sum(o.get("ms", 0) for o in obl), 1),
            "checker_cmd": f"./check {self.prop} --tier {self.tier}",
            "trusted_base": self.assumptions,
            "explanation": self.explanation or "see DESIGN.md section 7 for this property",
            "known_findings_matched": {k: v[1] for k, v in known_hit.items()},
            "notes": self.notes,
        }
        ev = {
            "property_id": self.prop,
            "tier": self.tier,
            "seed": self.seed,
            "level": level,
            "coverage": cov,
            "assumptions": self.assumptions,
            "wall_s": round(wall, 2),
            "violations": n_viol,
        }
        edir = os.path.join(os.environ.get("VERIF_OUT_DIR", repo.VERIF), "evidence")
        os.makedirs(edir, exist_ok=True)
        tmp = os.path.join(edir, f"{self.prop}.json.tmp")
        with open(tmp, "w") as fh:
            json.dump(ev, fh, indent=1, default=str)
        os.replace(tmp, os.path.join(edir, f"{self.prop}.json"))


def _safe(name):
    return "".join(c if c.isalnum() or c in "._-" else "_" for c in name)[:120]


def _load_known(prop):
    """Known findings are read from the committed file(s) only; nothing is ever
    written back at run time."""
    import glob

    paths = [os.path.join(repo.VERIF, "known_findings.json")]
    paths += sorted(glob.glob(os.path.join(repo.VERIF, "known_findings.d", "*.json")))
    out = []
    for path in paths:
        if not os.path.exists(path):
            continue
        with open(path) as fh:
            data = json.load(fh)
        out += [e for e in data.get("findings", []) if e.get("status") == "known" and e.get("property") == prop]
    return out


def _match_known(known, check_name, failure):
    """An entry matches when its `check` equals the failing check (or obligation)
    name and its predicate `module:function` accepts the failure record."""
    if not known:
        return None
    import importlib

    for k in known:
        if k.get("check") != check_name:
            continue
        modname, fn = k["match"].split(":")
        pred = getattr(importlib.import_module(modname), fn)
        try:
            if pred(failure):
                return k
        except Exception:
            continue
    return None
