"""Locate and import the code under verification.

The checks always run against the *working tree* of the repository: /repo by
default, or the directory named by VERIF_REPO (used for scratch worktrees in the
mutation self-test).  Permuta is pure Python, so "rebuilding" is re-importing;
the AST used by the deductive layer is re-read from the same directory.
"""
import os
import sys

REPO = os.path.abspath(os.environ.get("VERIF_REPO", "/repo"))
VERIF = os.path.abspath(os.path.join(os.path.dirname(__file__), ".."))

# hooks guard (no hook is currently needed; the variable is set so that a later
# guarded hook would be active inside checks)
os.environ.setdefault("PERMUTA_VERIF", "1")

if sys.path[0:1] != [REPO]:
    sys.path.insert(0, REPO)


def import_permuta():
    import permuta  # noqa

    got = os.path.dirname(os.path.dirname(os.path.abspath(permuta.__file__)))
    if got != REPO:
        raise RuntimeError(f"permuta imported from {got}, expected {REPO}")
    return permuta


def namespace():
    """Names available when decoding a replay input (repr strings)."""
    import_permuta()
    import fractions

    from permuta import (
        Av,
        Basis,
        BivincularPatt,
        CovincularPatt,
        MeshBasis,
        MeshPatt,
        Perm,
        VincularPatt,
    )

    return {
        "Perm": Perm,
        "MeshPatt": MeshPatt,
        "BivincularPatt": BivincularPatt,
        "VincularPatt": VincularPatt,
        "CovincularPatt": CovincularPatt,
        "Basis": Basis,
        "MeshBasis": MeshBasis,
        "Av": Av,
        "frozenset": frozenset,
        "Fraction": fractions.Fraction,
    }


def decode(text):
    """Inverse of repr() for the values used as check inputs."""
    return eval(text, namespace())  # noqa: S307 - our own replay files
