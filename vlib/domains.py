"""Enumerated input domains (the 'B' layer is exhaustive over these)."""
import itertools
import random

from . import repo


def P():
    repo.import_permuta()
    from permuta import Perm

    return Perm


def perms(n):
    Perm = P()
    return [Perm(t) for t in itertools.permutations(range(n))]


def perms_upto(n, lo=0):
    out = []
    for k in range(lo, n + 1):
        out.extend(perms(k))
    return out


def random_perm(rng, n):
    lst = list(range(n))
    rng.shuffle(lst)
    return P()(lst)


def random_block_perm(rng, n, max_block=4, skew=False):
    """Seeded permutation of length n that is a direct sum (skew sum if `skew`) of random blocks of
    length 1..max_block: many sum components, fixed points, strong fixed points, records and short
    cycles at every position - the shape uniformly random long permutations almost never have."""
    out = []
    while len(out) < n:
        k = min(rng.randint(1, max_block), n - len(out))
        blk = list(range(k))
        rng.shuffle(blk)
        base = len(out)
        out.extend([base + v for v in blk])
    if skew:
        out = [n - 1 - v for v in out]
    return P()(out)


def block_perms(rng, count, lo=9, hi=20, max_block=4):
    """count seeded block-structured permutations (see random_block_perm), mostly direct sums, every eighth a skew sum,
    with lengths cycling through lo..hi."""
    out = []
    for i in range(count):
        n = lo + i % (hi - lo + 1)
        out.append(random_block_perm(rng, n, max_block=(2, 3, max_block, max_block + 2)[(i // 2) % 4], skew=(i % 8 == 7)))
    return out


def cells(k):
    return [(x, y) for x in range(k + 1) for y in range(k + 1)]


def all_shadings(k):
    cs = cells(k)
    for bits in range(2 ** len(cs)):
        yield frozenset(c for i, c in enumerate(cs) if bits >> i & 1)


def small_shadings(k, maxcells):
    cs = cells(k)
    for r in range(maxcells + 1):
        for comb in itertools.combinations(cs, r):
            yield frozenset(comb)


def large_shadings(k, mincells):
    cs = cells(k)
    for r in range(mincells, len(cs) + 1):
        for comb in itertools.combinations(cs, r):
            yield frozenset(comb)


def random_shading(rng, k, density=None):
    cs = cells(k)
    if density is None:
        density = rng.choice((0.1, 0.25, 0.5, 0.75))
    return frozenset(c for c in cs if rng.random() < density)


def mesh(pattern, shading):
    repo.import_permuta()
    from permuta import MeshPatt

    return MeshPatt(P()(pattern), shading)


def all_mesh(k):
    """All mesh patterns of length k (k! * 2^((k+1)^2))."""
    for t in itertools.permutations(range(k)):
        for sh in all_shadings(k):
            yield mesh(t, sh)


def sampled_mesh(rng, k, count, boundary=True):
    """Seeded mesh patterns of length k: `count` random shadings per underlying
    pattern plus (boundary) all shadings with <= 1 or >= (k+1)^2 - 1 cells."""
    seen = set()
    for t in itertools.permutations(range(k)):
        if boundary:
            for sh in itertools.chain(small_shadings(k, 1), large_shadings(k, (k + 1) ** 2 - 1)):
                if (t, sh) not in seen:
                    seen.add((t, sh))
                    yield mesh(t, sh)
        for _ in range(count):
            sh = random_shading(rng, k)
            if (t, sh) not in seen:
                seen.add((t, sh))
                yield mesh(t, sh)


def subrng(ctx, label):
    return random.Random(f"{ctx.seed}:{label}")
