"""enc()/dec(): eval-able text for every kind of value used as a check input.

repr() is not used because it is part of the code under test (and broken for
MeshBasis); mesh-type patterns are rebuilt through `_mk` so that the concrete
subclass and the exact shading survive the round trip.
"""
from . import repo


def _mk(clsname, pattern, shading):
    ns = repo.namespace()
    cls = ns[clsname]
    obj = cls.__new__(cls)
    ns["MeshPatt"].__init__(obj, pattern, shading)
    return obj


def enc(x):
    ns = repo.namespace()
    Perm, MeshPatt = ns["Perm"], ns["MeshPatt"]
    if x is None or isinstance(x, (bool, int, float, str)):
        return repr(x)
    if isinstance(x, Perm):
        return "Perm((" + "".join(f"{v}," for v in tuple.__iter__(x)) + "))"
    if isinstance(x, MeshPatt):
        return (
            f"_mk({type(x).__name__!r}, {enc(x.pattern)}, "
            f"[{', '.join(repr(tuple(c)) for c in sorted(x.shading))}])"
        )
    if isinstance(x, ns["Basis"]):
        return "Basis(*[" + ", ".join(enc(p) for p in tuple.__iter__(x)) + "])"
    if isinstance(x, ns["MeshBasis"]):
        return "MeshBasis(*[" + ", ".join(enc(p) for p in tuple.__iter__(x)) + "])"
    if isinstance(x, ns["Av"]):
        return f"Av({enc(x.basis)})"
    if isinstance(x, tuple):
        return "(" + "".join(enc(v) + ", " for v in x) + ")"
    if isinstance(x, list):
        return "[" + ", ".join(enc(v) for v in x) + "]"
    if isinstance(x, frozenset):
        return "frozenset([" + ", ".join(sorted(enc(v) for v in x)) + "])"
    if isinstance(x, set):
        return "set([" + ", ".join(sorted(enc(v) for v in x)) + "])"
    if isinstance(x, dict):
        return "{" + ", ".join(f"{enc(k)}: {enc(v)}" for k, v in x.items()) + "}"
    return repr(x)


def dec(text):
    ns = dict(repo.namespace())
    ns["_mk"] = _mk
    return eval(text, ns)  # noqa: S307 - our own replay files
