"""Symbolic values of the VC generator.

int            -> IntV (z3 Int term); Python ints are accepted wherever an IntV is
bool           -> BoolV (z3 Bool term)
None           -> NoneV
fixed tuple    -> TupV([values])
tuple / Perm / range / enumerate / zip / islice / generator (lazy, immutable)
               -> SeqV(n, at): a *lazy indexed view*: length term + Python closure
                  mapping an index term to the element value (no array axioms)
list that is stored into
               -> ListV(n, arr): z3 Array Int->Int + length, functional updates
set / frozenset-> SetV(contains): characteristic predicate (Python closure)
collection obtained by iterating a set through a generator expression
               -> BagV: image of a set under an element expression
object         -> ObjV(cls, fields)
"""
import itertools

import z3

_fresh = itertools.count()


def fresh(prefix, sort=None):
    name = f"{prefix}!{next(_fresh)}"
    if sort is None or sort == "int":
        return z3.Int(name)
    if sort == "bool":
        return z3.Bool(name)
    raise ValueError(sort)


def fresh_fun(prefix, *sorts):
    return z3.Function(f"{prefix}!{next(_fresh)}", *sorts)


# Python floor division / remainder by a *symbolic* positive divisor: uninterpreted functions with
# the defining axiom  y > 0  =>  x = quo(x,y)*y + rem(x,y)  and  0 <= rem(x,y) < y   (explicit
# quotient encoding; z3's own mod does not reason about a symbolic modulus)
QUO = z3.Function("py_quo", z3.IntSort(), z3.IntSort(), z3.IntSort())
REM = z3.Function("py_rem", z3.IntSort(), z3.IntSort(), z3.IntSort())


def divmod_axiom():
    x, y = z3.Ints("dm_x dm_y")
    body = z3.Implies(y > 0, z3.And(x == QUO(x, y) * y + REM(x, y), REM(x, y) >= 0, REM(x, y) < y))
    return z3.ForAll([x, y], body, patterns=[REM(x, y), QUO(x, y)])


class Unsupported(Exception):
    """Construct outside the verified subset: the obligations of the function are
    reported *undecided*, never approximated."""


class V:
    pass


class NoneV(V):
    def __repr__(self):
        return "None"


NONE = NoneV()


def Z(x):
    """z3 Int term of an int-like value."""
    if isinstance(x, IntV):
        return x.t
    if isinstance(x, bool):
        return z3.IntVal(1 if x else 0)
    if isinstance(x, int):
        return z3.IntVal(x)
    if isinstance(x, BoolV):
        return z3.If(x.t, z3.IntVal(1), z3.IntVal(0))
    if z3.is_expr(x) and z3.is_int(x):
        return x
    raise Unsupported(f"not an integer value: {x!r}")


def B(x):
    """z3 Bool term of a bool-like value (no truthiness conversion here)."""
    if isinstance(x, BoolV):
        return x.t
    if isinstance(x, bool):
        return z3.BoolVal(x)
    if z3.is_expr(x) and z3.is_bool(x):
        return x
    raise Unsupported(f"not a boolean value: {x!r}")


class IntV(V):
    def __init__(self, t):
        self.t = t if z3.is_expr(t) else z3.IntVal(t)

    def __repr__(self):
        return f"IntV({self.t})"

    def concrete(self):
        s = z3.simplify(self.t)
        return s.as_long() if z3.is_int_value(s) else None

    def __add__(self, o):
        return IntV(self.t + Z(o))

    __radd__ = __add__

    def __sub__(self, o):
        return IntV(self.t - Z(o))

    def __rsub__(self, o):
        return IntV(Z(o) - self.t)

    def __mul__(self, o):
        return IntV(self.t * Z(o))

    __rmul__ = __mul__

    def __neg__(self):
        return IntV(-self.t)

    def __lt__(self, o):
        return BoolV(self.t < Z(o))

    def __le__(self, o):
        return BoolV(self.t <= Z(o))

    def __gt__(self, o):
        return BoolV(self.t > Z(o))

    def __ge__(self, o):
        return BoolV(self.t >= Z(o))

    def __eq__(self, o):  # noqa: D105
        if isinstance(o, (IntV, int)) or (z3.is_expr(o) and z3.is_int(o)):
            return BoolV(self.t == Z(o))
        return BoolV(z3.BoolVal(False))

    def __ne__(self, o):
        if isinstance(o, (IntV, int)) or (z3.is_expr(o) and z3.is_int(o)):
            return BoolV(self.t != Z(o))
        return BoolV(z3.BoolVal(True))

    __hash__ = None


class BoolV(V):
    def __init__(self, t):
        self.t = t if z3.is_expr(t) else z3.BoolVal(bool(t))

    def __repr__(self):
        return f"BoolV({self.t})"

    def concrete(self):
        s = z3.simplify(self.t)
        if z3.is_true(s):
            return True
        if z3.is_false(s):
            return False
        return None

    def __and__(self, o):
        return BoolV(z3.And(self.t, B(o)))

    __rand__ = __and__

    def __or__(self, o):
        return BoolV(z3.Or(self.t, B(o)))

    __ror__ = __or__

    def __invert__(self):
        return BoolV(z3.Not(self.t))

    def __eq__(self, o):
        return BoolV(self.t == B(o))

    def __ne__(self, o):
        return BoolV(self.t != B(o))

    __hash__ = None

    def __bool__(self):
        c = self.concrete()
        if c is None:
            raise Unsupported("symbolic boolean used where Python needs a concrete truth value (use c.and_/c.or_/c.implies in contracts)")
        return c


class TupV(V):
    def __init__(self, items):
        self.items = list(items)

    def __repr__(self):
        return f"TupV({self.items})"

    def __getitem__(self, i):
        return self.items[i]

    def __len__(self):
        return len(self.items)

    def __iter__(self):
        return iter(self.items)


class SeqV(V):
    """Immutable sequence as (length, index -> element)."""

    def __init__(self, n, at, kind="tuple", meta=None):
        self.n = Z(n)
        self._at = at
        self.kind = kind  # 'Perm' | 'tuple' | 'list' | 'gen' | 'range'
        self.meta = meta or {}

    def at(self, i):
        return self._at(Z(i))

    def __getitem__(self, i):
        return self.at(i)

    def __repr__(self):
        return f"SeqV<{self.kind}>(n={self.n})"

    def map(self, f, kind="gen"):
        return SeqV(self.n, lambda i: f(self.at(i)), kind)

    def with_kind(self, kind, **meta):
        m = dict(self.meta)
        m.update(meta)
        return SeqV(self.n, self._at, kind, m)


class ListV(V):
    """Mutable list: length term + index -> element closure; a store wraps the closure
    in an if-then-else (no array theory needed)."""

    def __init__(self, n, fn):
        self.n = Z(n)
        self.fn = fn

    def copy(self):
        out = ListV(self.n, self.fn)
        if getattr(self, "is_deque", False):
            out.is_deque = True
        return out

    def at(self, i):
        return self.fn(Z(i))

    def __getitem__(self, i):
        return self.at(i)

    def store(self, i, v):
        old, idx = self.fn, Z(i)
        self.fn = lambda j: vite(j == idx, v, old(j))

    def append(self, v):
        old, idx = self.fn, self.n
        n0 = z3.simplify(self.n)
        if z3.is_int_value(n0) and n0.as_long() == 0:
            self.fn = lambda j: v  # first element decides the element shape
        else:
            self.fn = lambda j: vite(j == idx, v, old(j))
        self.n = self.n + 1

    def extend(self, seq):
        old, base, m = self.fn, self.n, seq
        m0 = z3.simplify(seq.n)
        if z3.is_int_value(m0) and m0.as_long() == 0:
            return  # nothing to add (an empty source has no element shape)
        b0 = z3.simplify(base)
        if z3.is_int_value(b0) and b0.as_long() == 0:
            self.fn = lambda j: m.at(j)  # extending an empty list: the source decides the element shape
        else:
            self.fn = lambda j: vite(j < base, old(j), m.at(j - base))
        self.n = base + seq.n

    def snapshot(self, kind="list", meta=None):
        fn, n = self.fn, self.n
        return SeqV(n, fn, kind, meta)

    def __repr__(self):
        return f"ListV(n={self.n})"


def vite(cond, a, b):
    """Value-level if-then-else."""
    if isinstance(a, (int, bool)) and not isinstance(a, V):
        a = IntV(a) if not isinstance(a, bool) else BoolV(a)
    if isinstance(b, (int, bool)) and not isinstance(b, V):
        b = IntV(b) if not isinstance(b, bool) else BoolV(b)
    if isinstance(a, BoolV) and isinstance(b, BoolV):
        return BoolV(z3.If(cond, a.t, b.t))
    if isinstance(a, (IntV, BoolV)) and isinstance(b, (IntV, BoolV)):
        return IntV(z3.If(cond, Z(a), Z(b)))
    if isinstance(a, TupV) and isinstance(b, TupV) and len(a) == len(b):
        return TupV([vite(cond, x, y) for x, y in zip(a, b)])
    if isinstance(a, NoneV) and isinstance(b, NoneV):
        return a
    if isinstance(a, ObjV) and isinstance(b, ObjV) and a.cls == b.cls and callable(a.fields.get("__mk__")):
        return a.fields["__mk__"](z3.If(cond, Z(a.fields["__id__"]), Z(b.fields["__id__"])))
    if isinstance(a, SeqV) and isinstance(b, SeqV):
        if a.meta.get("tterm") is not None and b.meta.get("tterm") is not None:
            return from_T(z3.If(cond, a.meta["tterm"], b.meta["tterm"]))
        return SeqV(z3.If(cond, a.n, b.n), lambda i: vite(cond, a.at(i), b.at(i)), a.kind)
    raise Unsupported(f"if-then-else between {type(a).__name__} and {type(b).__name__}")


class SetV(V):
    def __init__(self, contains, arity=1, finite_witness=None):
        self._contains = contains
        self.arity = arity  # 1: ints, k>1: k-tuples of ints

    def contains(self, v):
        return self._contains(v)

    def __repr__(self):
        return f"SetV(arity={self.arity})"


class BagV(V):
    """{ elt(x) : x in dom }: the values produced by iterating a set."""

    def __init__(self, dom, nvars, elt):
        self.dom = dom  # SetV over nvars-tuples (or ints)
        self.nvars = nvars
        self.elt = elt  # list of z3 ints -> V

    def to_set(self, arity):
        dom, nvars, elt = self.dom, self.nvars, self.elt

        def contains(v):
            xs = [fresh("bx") for _ in range(nvars)]
            dv = IntV(xs[0]) if nvars == 1 else TupV([IntV(x) for x in xs])
            return z3.Exists(xs, z3.And(B(dom.contains(dv)), B(veq(elt(xs), v))))

        return SetV(contains, arity)


class ObjV(V):
    def __init__(self, cls, fields):
        self.cls = cls
        self.fields = dict(fields)

    def __getattr__(self, name):
        f = self.__dict__.get("fields", {})
        if name in f:
            return f[name]
        raise AttributeError(name)

    def __repr__(self):
        return f"ObjV<{self.cls}>"


def is_intlike(v):
    return isinstance(v, (IntV, int)) and not isinstance(v, bool) or isinstance(v, bool)


def veq(a, b):
    """Python `==` on values, as a z3 Bool."""
    if isinstance(a, list):
        a = TupV(a)
    if isinstance(b, list):
        b = TupV(b)
    if isinstance(a, tuple):
        a = TupV([x if isinstance(x, V) else IntV(x) for x in a])
    if isinstance(b, tuple):
        b = TupV([x if isinstance(x, V) else IntV(x) for x in b])
    if isinstance(a, NoneV) or isinstance(b, NoneV):
        return z3.BoolVal(isinstance(a, NoneV) and isinstance(b, NoneV))
    if isinstance(a, (BoolV, bool)) and isinstance(b, (BoolV, bool)):
        return B(a) == B(b)
    if isinstance(a, (IntV, int, BoolV)) and isinstance(b, (IntV, int, BoolV)):
        return Z(a) == Z(b)
    if isinstance(a, TupV) and isinstance(b, TupV):
        if len(a) != len(b):
            return z3.BoolVal(False)
        return z3.And([veq(x, y) for x, y in zip(a, b)]) if len(a) else z3.BoolVal(True)
    if isinstance(a, ListV):
        a = a.snapshot()
    if isinstance(b, ListV):
        b = b.snapshot()
    if isinstance(a, SeqV) and isinstance(b, SeqV):
        i = fresh("i")
        body = z3.Implies(z3.And(i >= 0, i < a.n), veq(a.at(i), b.at(i)))
        return z3.And(a.n == b.n, z3.ForAll([i], body))
    if isinstance(a, SeqV) and isinstance(b, TupV):
        return z3.And(a.n == len(b), *[veq(a.at(k), y) for k, y in enumerate(b)])
    if isinstance(a, TupV) and isinstance(b, SeqV):
        return veq(b, a)
    if isinstance(a, ObjV) and isinstance(b, ObjV) and "__id__" in a.fields and "__id__" in b.fields:
        return Z(a.fields["__id__"]) == Z(b.fields["__id__"])
    if isinstance(a, SetV) and isinstance(b, SetV) and getattr(a, "elements", None) is not None and getattr(b, "elements", None) is not None:
        # both sets are given by explicit element lists (concrete mode): mutual inclusion
        parts = [B(b.contains(e)) for e in a.elements] + [B(a.contains(e)) for e in b.elements]
        return z3.And(parts) if parts else z3.BoolVal(True)
    if isinstance(a, SetV) and isinstance(b, SetV) and (getattr(a, "is_empty", False) or getattr(b, "is_empty", False)):
        other = b if getattr(a, "is_empty", False) else a
        if getattr(other, "is_empty", False):
            return z3.BoolVal(True)
        xs = [fresh("sv") for _ in range(other.arity)]
        v = IntV(xs[0]) if other.arity == 1 else TupV([IntV(x) for x in xs])
        return z3.ForAll(xs, z3.Not(B(other.contains(v))))  # S == set()
    if isinstance(a, SetV) and isinstance(b, SetV):
        if a.arity != b.arity:
            raise Unsupported("comparison of sets of different element shapes")
        xs = [fresh("sv") for _ in range(a.arity)]
        v = IntV(xs[0]) if a.arity == 1 else TupV([IntV(x) for x in xs])
        return z3.ForAll(xs, B(a.contains(v)) == B(b.contains(v)))
    raise Unsupported(f"== between {type(a).__name__} and {type(b).__name__}")


# --------------------------------------------------------------------------- tuples as first-class terms
# A sequence of integer tuples (the output of a generator that yields index tuples) needs its
# rows to be *terms*, so that facts quantified over "every integer tuple t" can be instantiated
# at a row and a completeness claim "every such t is listed" can be stated.  TUP is an
# uninterpreted sort with TLEN / TEL (length, element); the intended model is "all finite integer
# sequences".  TID is a trigger-only function (its value is never constrained).
TUP = z3.DeclareSort("IntTuple")
TLEN = z3.Function("tlen", TUP, z3.IntSort())
TEL = z3.Function("tel", TUP, z3.IntSort(), z3.IntSort())
TID = z3.Function("tid", TUP, z3.IntSort())


def from_T(tau):
    """View of a tuple term as a sequence value."""
    return SeqV(TLEN(tau), lambda j, tau=tau: IntV(TEL(tau, j)), "tuple", {"tterm": tau})


def as_T(seq, assume):
    """Tuple term denoting the integer sequence `seq` (a fresh constant with its defining axiom:
    the intended model contains every finite integer sequence)."""
    if isinstance(seq, TupV):
        items = seq.items
        seq = SeqV(len(items), lambda j, items=items: _ite_chain(j, items), "tuple")
    if isinstance(seq, ListV):
        seq = seq.snapshot()
    tau = seq.meta.get("tterm") if isinstance(seq, SeqV) else None
    if tau is not None:
        return tau
    if not isinstance(seq, SeqV):
        raise Unsupported(f"not a tuple of integers: {seq!r}")
    tau = z3.Const(f"tup!{next(_fresh)}", TUP)
    j = fresh("tj")
    assume(TLEN(tau) == seq.n)
    assume(z3.ForAll([j], z3.Implies(z3.And(j >= 0, j < seq.n), TEL(tau, j) == Z(seq.at(j))), patterns=[TEL(tau, j)], qid="tuple-def"))
    return tau


def _ite_chain(j, items):
    if not items:
        return IntV(0)
    out = items[-1]
    for k in range(len(items) - 2, -1, -1):
        out = vite(j == k, items[k], out)
    return out


class TupListV(V):
    """Mutable list of integer tuples: length term + ROW : Int -> IntTuple (an uninterpreted function;
    every append / extend introduces a NEW function symbol with its defining axioms, stated with
    triggers in both directions so that E-matching can move between the old and the new list)."""

    def __init__(self, n, row):
        self.n = Z(n)
        self.row = row

    def copy(self):
        return TupListV(self.n, self.row)

    def at(self, m):
        return from_T(self.row(Z(m)))

    def __getitem__(self, m):
        return self.at(m)

    def snapshot(self, kind="list", meta=None):
        row, n = self.row, self.n
        m_ = dict(meta or {})
        m_["rowfun"] = row
        return SeqV(n, lambda m, row=row: from_T(row(Z(m))), kind, m_)

    def append(self, tau, assume):
        old, n = self.row, self.n
        new = fresh_fun("row", z3.IntSort(), TUP)
        m = fresh("rm")
        assume(z3.ForAll([m], z3.Implies(z3.And(m >= 0, m < n), new(m) == old(m)), patterns=[new(m), old(m)], qid="append-old"))
        assume(new(n) == tau)
        self.row, self.n = new, n + 1
        return new

    def extend(self, other_n, other_row, assume):
        old, n = self.row, self.n
        new = fresh_fun("row", z3.IntSort(), TUP)
        m = fresh("rm")
        assume(z3.ForAll([m], z3.Implies(z3.And(m >= 0, m < n), new(m) == old(m)), patterns=[new(m), old(m)], qid="extend-old"))
        assume(z3.ForAll([m], z3.Implies(z3.And(m >= 0, m < other_n), new(n + m) == other_row(m)), patterns=[other_row(m)], qid="extend-new-fwd"))
        assume(z3.ForAll([m], z3.Implies(z3.And(m >= n, m < n + other_n), new(m) == other_row(m - n)), patterns=[new(m)], qid="extend-new-bwd"))
        self.row, self.n = new, n + other_n
        return new

    def __repr__(self):
        return f"TupListV(n={self.n})"


# --------------------------------------------------------------------------- counting over tuple terms
# clt(t, v, i) = the number of positions j < i with t[j] < v  (i >= 0): a recursive definition
# (conservative: clt is a new symbol, the two axioms determine it on i >= 0)
CLT = z3.Function("clt", TUP, z3.IntSort(), z3.IntSort(), z3.IntSort())


def clt_axioms():
    t = z3.Const("clt_t", TUP)
    v, i = z3.Ints("clt_v clt_i")
    a0 = z3.ForAll([t, v], CLT(t, v, 0) == 0, patterns=[CLT(t, v, 0)], qid="clt-zero")
    a1 = z3.ForAll([t, v, i], z3.Implies(i >= 0, CLT(t, v, i + 1) == CLT(t, v, i) + z3.If(TEL(t, i) < v, 1, 0)), patterns=[CLT(t, v, i + 1)], qid="clt-step")
    a2 = z3.ForAll([t, v, i], z3.Implies(i >= 0, z3.And(CLT(t, v, i) >= 0, CLT(t, v, i) <= i)), patterns=[CLT(t, v, i)], qid="clt-range")
    return [a0, a1, a2]


# --------------------------------------------------------------------------- extensionality of tuples
# teq(a, b) is equality of tuple terms, written through a predicate so that the extensionality axiom
# (tuples with the same length and the same entries are the same tuple - true in the intended model,
# where IntTuple is the set of finite integer sequences) has a trigger exactly where a contract asks
# for "the same tuple".
TEQ = z3.Function("teq", TUP, TUP, z3.BoolSort())


def teq_axioms():
    a, b = z3.Const("teq_a", TUP), z3.Const("teq_b", TUP)
    j = z3.Int("teq_j")
    same = z3.ForAll([j], z3.Implies(z3.And(j >= 0, j < TLEN(a)), TEL(a, j) == TEL(b, j)), patterns=[z3.MultiPattern(TEL(a, j), TEL(b, j))], qid="teq-pointwise")
    return [
        z3.ForAll([a, b], TEQ(a, b) == (a == b), patterns=[TEQ(a, b)], qid="teq-def"),
        z3.ForAll([a, b], z3.Implies(z3.And(TLEN(a) == TLEN(b), same), a == b), patterns=[TEQ(a, b)], qid="teq-ext"),
    ]
