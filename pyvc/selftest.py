"""CPython differential check of the encoder (DESIGN.md section 10).

The same statement / expression encoders that generate the verification conditions are
run on *concrete* inputs (loops unrolled, callees inlined, comprehension axioms
instantiated); the resulting z3 term must simplify to exactly what CPython returns for
that input (value or exception class).  An encoder that mis-models a construct is caught
on the real function.
"""
import z3

from vlib import repo

from . import driver, dsl, engine, policy
from .values import NONE, BoolV, IntV, ListV, NoneV, ObjV, SeqV, SetV, TupV, Unsupported, V, Z


def conc_seq(values, kind="tuple"):
    vals = [int(v) for v in values]

    def at(i):
        s = z3.simplify(i)
        if z3.is_int_value(s):
            k = s.as_long()
            return IntV(vals[k]) if 0 <= k < len(vals) else IntV(z3.Int("out_of_range"))
        out = z3.IntVal(vals[-1]) if vals else z3.IntVal(0)
        for k in range(len(vals) - 2, -1, -1):
            out = z3.If(i == k, vals[k], out)
        return IntV(out)

    return SeqV(len(vals), at, kind)


def conc_set(cells):
    cells = [tuple(c) for c in cells]

    def contains(v):
        if not cells:
            return z3.BoolVal(False)
        return z3.Or([z3.And(Z(v[0]) == a, Z(v[1]) == b) for a, b in cells])

    s = SetV(contains, 2)
    s.elements = [TupV([IntV(a), IntV(b)]) for a, b in cells]
    return s


def to_sym(x, sort):
    base = sort.rstrip("?")
    if x is None:
        return NONE
    if base == "Perm":
        return conc_seq(tuple(x), "Perm")
    if base.startswith("Perm*"):
        return TupV([conc_seq(tuple(e), "Perm") for e in x])
    if base in ("int", "nat"):
        return IntV(int(x))
    if base == "bool":
        return BoolV(bool(x))
    if base in ("Mesh", "MeshPatt"):
        return ObjV(type(x).__name__ if type(x).__name__ in ("MeshPatt",) else "MeshPatt", {"pattern": conc_seq(tuple(x.pattern), "Perm"), "shading": conc_set(x.shading)})
    if base == "Str":
        return conc_seq(tuple(ord(ch) for ch in x), "str")
    if base == "Cell":
        return TupV([IntV(x[0]), IntV(x[1])])
    if base == "CellSetSeq":
        sets = [conc_set(list(R)) for R in x]
        return SeqV(len(sets), lambda i, sets=sets: _pick(i, sets), "list")
    if base == "opaque":
        return ObjV("opaque", {"__id__": IntV(0)})
    if base == "Seq":
        return conc_seq(tuple(x), "tuple")
    if base == "IntList":
        sq = conc_seq(tuple(x), "list")
        return ListV(sq.n, sq._at)
    if base == "none":
        return NONE
    raise Unsupported(f"concrete value of sort {sort}")


def oracle_call(K, args):
    """concrete mode: value of an ASSUMED callee = what the real function returns"""
    sorts = list(K.params.values())
    real_args = []
    for a, srt in zip(args, sorts):
        if srt == "Perm":
            from permuta import Perm

            real_args.append(Perm(from_sym(a)))
        elif srt in ("int", "nat", "bool"):
            real_args.append(from_sym(a))
        else:
            raise Unsupported(f"oracle call: argument sort {srt}")
    fn = policy.resolve(K.name)
    if getattr(K.cls, "runtime_tempcwd", False):
        fn = policy._in_tempcwd(fn)
    res = fn(*real_args)
    if hasattr(res, "__next__"):
        res = list(res)
    r = K.returns
    if r.startswith("Seq[int*"):
        rows = [TupV([IntV(int(x)) for x in row]) for row in res]
        return SeqV(len(rows), lambda i, rows=rows: _pick(i, rows), "list")
    if r in ("int", "nat"):
        return IntV(int(res))
    if r == "bool":
        return BoolV(bool(res))
    if r in ("Seq", "gen", "IntList", "List"):
        return conc_seq(tuple(res))
    if r == "Perm":
        return conc_seq(tuple(res), "Perm")
    raise Unsupported(f"oracle call: result sort {r}")


def _pick(i, rows):
    s = z3.simplify(Z(i))
    if z3.is_int_value(s) and 0 <= s.as_long() < len(rows):
        return rows[s.as_long()]
    raise Unsupported("oracle result indexed symbolically / out of range")


def from_sym(v, universe=6):
    """symbolic result -> plain Python data"""
    if isinstance(v, NoneV):
        return None
    if isinstance(v, bool):
        return v
    if isinstance(v, int):
        return v
    if isinstance(v, BoolV):
        c = v.concrete()
        if c is None:
            raise Unsupported("result boolean did not simplify")
        return c
    if isinstance(v, IntV):
        c = v.concrete()
        if c is None:
            raise Unsupported(f"result integer did not simplify: {z3.simplify(v.t)}")
        return c
    if isinstance(v, TupV):
        return tuple(from_sym(x, universe) for x in v.items)
    if isinstance(v, ListV):
        v = v.snapshot()
    if isinstance(v, SeqV):
        n = z3.simplify(v.n)
        if not z3.is_int_value(n):
            raise Unsupported("result length did not simplify")
        return [from_sym(v.at(z3.IntVal(i)), universe) for i in range(n.as_long())]
    if isinstance(v, SetV):
        out = set()
        rng = range(-1, universe + 3)
        if v.arity == 2:
            for a in rng:
                for b in rng:
                    t = z3.simplify(v.contains(TupV([IntV(a), IntV(b)])))
                    if z3.is_true(t):
                        out.add((a, b))
                    elif not z3.is_false(t):
                        raise Unsupported("set membership did not simplify")
        else:
            for a in rng:
                t = z3.simplify(v.contains(IntV(a)))
                if z3.is_true(t):
                    out.add(a)
                elif not z3.is_false(t):
                    raise Unsupported("set membership did not simplify")
        return out
    if isinstance(v, ObjV) and "pattern" in v.fields:
        return ("mesh", from_sym(v.fields["pattern"], universe), from_sym(v.fields["shading"], universe))
    raise Unsupported(f"cannot read back {v!r}")


def normal(x):
    """real result -> the same plain data"""
    if x is None or isinstance(x, (bool, int)):
        return x
    if isinstance(x, str):
        return [ord(ch) for ch in x]  # strings are sequences of character codes
    if hasattr(x, "shading") and hasattr(x, "pattern"):
        return ("mesh", [int(v) for v in x.pattern], {tuple(c) for c in x.shading})
    if isinstance(x, (set, frozenset)):
        return {normal(v) if not isinstance(v, tuple) else tuple(v) for v in x}
    if isinstance(x, tuple) and type(x) is tuple and any(isinstance(v, (list, tuple, bool)) for v in x):
        return tuple(normal(v) for v in x)
    if isinstance(x, (list, tuple)) or hasattr(x, "__next__"):
        return [normal(v) if not isinstance(v, tuple) or type(v) is not tuple else tuple(v) for v in x]
    return x


def same(a, b):
    if isinstance(a, (list, tuple)) and isinstance(b, (list, tuple)) and not (isinstance(a, tuple) and a[:1] == ("mesh",)):
        return len(a) == len(b) and all(same(x, y) for x, y in zip(a, b))
    if isinstance(a, tuple) and a[:1] == ("mesh",):
        return isinstance(b, tuple) and b[:1] == ("mesh",) and list(a[1]) == list(b[1]) and set(a[2]) == set(b[2])
    if isinstance(a, bool) or isinstance(b, bool):
        return a is b or (isinstance(a, int) and isinstance(b, int) and int(a) == int(b) and type(a) is type(b))
    return a == b


def symbolic_run(qualname, args):
    """-> ('value', data) | ('raise', name)"""
    idx = driver.repo_index()
    K = dsl.CONTRACTS[qualname]
    F = idx.get(qualname.split("@")[0])
    eng = engine.Engine(idx)
    eng.concrete = True
    eng.concrete_oracle = oracle_call
    eng.func, eng.contract = F, K
    k_ord = 0
    import ast as _ast

    for n_ in _ast.walk(_ast.Module(body=F.body, type_ignores=[])):
        if isinstance(n_, (_ast.For, _ast.While)):
            n_._ordinal = k_ord
            k_ord += 1
    st = engine.State()
    sorts = list(K.params.items())
    vals = [to_sym(a, s) for a, (_n, s) in zip(args, sorts)]
    fparams = list(F.params)
    if F.kind == "classmethod":
        st.env[fparams[0]] = ObjV("type", {"name": F.cls})
        fparams = fparams[1:]
    fixed = [v for (nm, _s), v in zip(sorts, vals) if "#" not in nm and not (nm == "cls" and F.kind == "classmethod")]
    var = [v for (nm, _s), v in zip(sorts, vals) if "#" in nm]
    for pname, v in zip(fparams, fixed):
        st.env[pname] = v
    if F.vararg:
        st.env[F.vararg] = TupV(var)
    eng.params = dict(zip([n for n, _s in sorts], vals))
    eng.is_generator = any(isinstance(n, (_ast.Yield, _ast.YieldFrom)) for n in _ast.walk(_ast.Module(body=F.body, type_ignores=[])))
    if eng.is_generator:
        st.env["__out__"] = SetV(lambda v: z3.BoolVal(False), 2) if K.returns == "CellSetGen" else SetV(lambda v: z3.BoolVal(False), 1) if K.returns == "IntSetGen" else ListV(0, lambda i: IntV(0))
    outs = eng.exec_block(F.body, st)
    if len(outs) != 1:
        raise Unsupported(f"{len(outs)} paths on a concrete input")
    kind, s, val = outs[0]
    if kind == "raise":
        return ("raise", val)
    if eng.is_generator:
        ov = s.env["__out__"]
        val = ov if isinstance(ov, SetV) else ov.snapshot("gen")
    elif kind == "fall":
        val = NONE
    uni = max([len(a) for a in args if hasattr(a, "__len__")] + [len(getattr(a, "pattern", ())) for a in args] + [3] + ([10] if K.returns in ("IntSetGen", "IntSet") else []))
    return ("value", from_sym(val, uni + 2))


def real_run(qualname, args):
    fn = policy.resolve(qualname)
    if list(dsl.CONTRACTS[qualname].params)[:1] == ["cls"]:
        args = args[1:]
    if getattr(dsl.CONTRACTS[qualname].cls, "runtime_tempcwd", False):
        fn = policy._in_tempcwd(fn)
    try:
        res = fn(*args)
        if hasattr(res, "__next__"):
            res = list(res)
    except Exception as exc:  # noqa: BLE001
        return ("raise", type(exc).__name__)
    return ("value", normal(res))


def differential(qualname, args):
    try:
        sym = symbolic_run(qualname, args)
    except Unsupported as exc:
        return "unsupported", str(exc)
    except engine._PyRaise as r:
        sym = ("raise", r.exc)
    real = real_run(qualname, args)
    if dsl.CONTRACTS[qualname].returns == "CellSetGen" and real[0] == "value":
        real = ("value", {tuple(c) for c in real[1]})
    if dsl.CONTRACTS[qualname].returns in ("IntSetGen", "IntSet") and real[0] == "value":
        real = ("value", {getattr(v, "value", v) for v in real[1]})  # Enum members by value
    if sym[0] != real[0]:
        return "disagree", f"encoder: {sym}  CPython: {real}"
    if sym[0] == "raise":
        return ("agree", "") if sym[1] == real[1] else ("disagree", f"encoder raises {sym[1]}, CPython raises {real[1]}")
    return ("agree", "") if same(sym[1], real[1]) else ("disagree", f"encoder: {sym[1]!r}  CPython: {real[1]!r}")


def run_all(per_function=40, names=None):
    import random

    repo.import_permuta()
    driver.load_contracts()
    rng = random.Random(5)
    summary = {}
    bad = []
    for q in sorted(names or [n for n, K in dsl.CONTRACTS.items() if not K.assumed]):
        inputs = policy.runtime_inputs(q, quick=True, cap=4000)
        c = dsl.RunCtx(resolver=policy.resolve)
        K = dsl.CONTRACTS[q]
        inputs = [a for (_q, a) in inputs]
        random.Random(f"selftest:{q}").shuffle(inputs)  # per function: adding a contract does not move the others' samples
        res = {"agree": 0, "disagree": 0, "unsupported": 0}
        note = ""
        for a in inputs[:per_function]:
            verdict, detail = differential(q, list(a))
            res[verdict] += 1
            if verdict == "disagree":
                bad.append((q, a, detail))
            if verdict == "unsupported":
                note = detail
        _ = (c, K)
        summary[q] = dict(res, note=note)
    return summary, bad


if __name__ == "__main__":
    import sys

    summary, bad = run_all(names=sys.argv[1:] or None)
    for q, r in summary.items():
        print(f"{q:<55} agree={r['agree']:<3} disagree={r['disagree']:<3} unsupported={r['unsupported']:<3} {r['note'][:70]}")
    for q, a, d in bad[:20]:
        print("DISAGREE", q, a, d[:300])
    print("total disagreements:", len(bad))
    _ = V
