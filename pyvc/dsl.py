"""Contract DSL: one contract text, two interpreters.

A contract is a class registered with @contract("Qual.name"); its methods take a
context `c` first.  `SymCtx` builds z3 terms over the symbolic values of values.py,
`RunCtx` evaluates the same text on real Python objects (run-time contract check).

    @contract("Perm.inverse", params={"self": "Perm"}, returns="Perm")
    class _:
        def requires(c, self): return c.true()
        def ensures(c, self, result):
            return c.and_(c.len(result) == c.len(self),
                          c.forall(0, c.len(self), lambda i: result[self[i]] == i))
        def ghost_inverse(c, self, result): return self         # witness: result^-1
        invariants = {0: lambda c, st, k: ...}                    # keyed by loop ordinal
        modifies = ()
"""
import z3

from .values import (
    B,
    BoolV,
    IntV,
    ListV,
    NoneV,
    ObjV,
    SeqV,
    SetV,
    TupV,
    Unsupported,
    V,
    Z,
    fresh,
    veq,
)

CONTRACTS = {}
LEMMAS = {}
GHOST_IMPL = {}  # name -> Python implementation (spec function) used by RunCtx.ghost
NONNEG_GHOSTS = {"OCCN", "AVN", "MARK"}
GHOST_IMPL["MARK"] = lambda *a: 0  # trigger-only: MARK(x) >= 0 is always true; the term gives quantifiers over x a trigger


def _force(x):
    return x() if callable(x) and not isinstance(x, V) else x


class Contract:
    def __init__(self, name, cls, params, returns, props, assumed):
        self.name = name
        self.cls = cls
        self.params = params  # ordered dict name -> sort
        self.returns = returns
        self.props = props  # properties this contract serves
        self.assumed = assumed  # True: contract on a dependency that is NOT verified (listed as assumption)
        self.requires = getattr(cls, "requires", None)
        self.ensures = getattr(cls, "ensures", None)
        self.raises = getattr(cls, "raises", None)  # (c, *params) -> condition under which the documented exception is raised
        self.raises_type = getattr(cls, "raises_type", None)
        self.ghost_inverse = getattr(cls, "ghost_inverse", None)
        self.invariants = getattr(cls, "invariants", {})
        self.modifies = getattr(cls, "modifies", ())
        self.lemmas_for_post = getattr(cls, "hints", None)
        self.defaults = getattr(cls, "defaults", {})
        self.value = getattr(cls, "value", None)  # functional contract: the result as an expression of the arguments
        self.replay = getattr(cls, "replay", None)  # model -> concrete call arguments
        self.canary = getattr(cls, "canary", True)
        # facts about the result that follow from `ensures` by a NAMED trusted rule (not proved by the
        # solver): assumed at call sites, listed as an assumption, evaluated at run time like `ensures`
        self.derived = getattr(cls, "derived", None)
        self.derived_rule = getattr(cls, "derived_rule", None)


def contract(name, params, returns=None, props=(), assumed=False):
    def deco(cls):
        CONTRACTS[name] = Contract(name, cls, dict(params), returns, tuple(props), assumed)
        return cls

    return deco



def register_wsum(eng, n, term, assume):
    """the recursively defined sum of term(0..n-1); returns IntV(WS(n)) and records (n, term) for SUM-CONGRUENCE"""
    from .values import fresh_fun

    ws = fresh_fun("wsum", z3.IntSort(), z3.IntSort())
    k = fresh("wk")
    assume(ws(z3.IntVal(0)) == 0)
    assume(z3.ForAll([k], z3.Implies(z3.And(k >= 0, k < n), ws(k + 1) == ws(k) + term(k)), patterns=[ws(k + 1)], qid="rec-wsum"))
    out = IntV(ws(n))
    key = z3.simplify(out.t)
    eng.__dict__.setdefault("sum_registry", {})[key.get_id()] = {"n": n, "term": term, "fun": ws, "key": key}
    return out

def lemma(name, params, props=(), induction=None):
    def deco(fn):
        LEMMAS[name] = {"fn": fn, "params": dict(params), "props": tuple(props), "induction": induction}
        return fn

    return deco


# ------------------------------------------------------------------ symbolic
class SymCtx:
    """Builds z3 formulas.  `assumptions` collects side facts introduced while a
    formula is built (e.g. quotient/remainder definitions)."""

    mode = "sym"

    def __init__(self, engine=None):
        self.engine = engine
        self.side = []
        self.state = None

    # booleans
    def true(self):
        return BoolV(z3.BoolVal(True))

    def false(self):
        return BoolV(z3.BoolVal(False))

    def and_(self, *xs):
        xs = [_force(x) for x in xs]
        xs = [x for x in xs if x is not True]
        return BoolV(z3.And([B(x) for x in xs])) if xs else self.true()

    def or_(self, *xs):
        xs = [_force(x) for x in xs]
        return BoolV(z3.Or([B(x) for x in xs])) if xs else self.false()

    def not_(self, x):
        return BoolV(z3.Not(B(x)))

    def implies(self, a, b):
        """b may be a thunk (evaluated lazily at run time, so that guarded subscripts are safe)."""
        return BoolV(z3.Implies(B(a), B(_force(b))))

    def iff(self, a, b):
        return BoolV(B(a) == B(b))

    def ite(self, cond, a, b):
        if isinstance(a, (BoolV, bool)) and isinstance(b, (BoolV, bool)):
            return BoolV(z3.If(B(cond), B(a), B(b)))
        return IntV(z3.If(B(cond), Z(a), Z(b)))

    def eq(self, a, b):
        return BoolV(veq(a, b))

    # quantifiers over an integer range [lo, hi)
    def forall(self, lo, hi, body, pattern=None):
        i = fresh("q")
        iv = IntV(i)
        inner = B(body(iv))
        f = z3.Implies(z3.And(i >= Z(lo), i < Z(hi)), inner)
        pat = None
        if pattern:
            # a term, a list of alternative triggers, or a TUPLE = one multi-pattern (all terms needed)
            pat = pattern(iv)
            alts = pat if isinstance(pat, list) else [pat]
            out = []
            for alt in alts:
                terms = [Z(x) if isinstance(x, (IntV, int)) else x for x in (alt if isinstance(alt, tuple) else (alt,))]
                if all(_pat_ok(x) for x in terms) and _mentions(terms, [i]):
                    out.append(z3.MultiPattern(*terms) if len(terms) > 1 else terms[0])
            pat = out or None  # an unusable trigger is dropped (z3 chooses)
        return BoolV(_forall([i], f, pat))

    def exists(self, lo, hi, body):
        i = fresh("e")
        iv = IntV(i)
        return BoolV(z3.Exists([i], z3.And(i >= Z(lo), i < Z(hi), B(body(iv)))))

    def forall2(self, lo, hi, body, pattern=None):
        """forall i, j in [lo, hi); pattern(i, j) -> the terms of ONE multi-pattern"""
        i, j = fresh("q"), fresh("q")
        f = z3.Implies(z3.And(i >= Z(lo), i < Z(hi), j >= Z(lo), j < Z(hi)), B(body(IntV(i), IntV(j))))
        if pattern is not None:
            pats = [Z(x) if isinstance(x, (IntV, int)) else x for x in pattern(IntV(i), IntV(j))]
            if all(_pat_ok(x) for x in pats) and _mentions(pats, [i, j]):
                return BoolV(z3.ForAll([i, j], f, patterns=[z3.MultiPattern(*pats) if len(pats) > 1 else pats[0]], qid=_qid()))
        return BoolV(z3.ForAll([i, j], f, qid=_qid()))

    def forall_int(self, body):
        i = fresh("q")
        return BoolV(z3.ForAll([i], B(body(IntV(i)))))

    def forall_cell(self, body):
        x, y = fresh("cx"), fresh("cy")
        return BoolV(z3.ForAll([x, y], B(body(IntV(x), IntV(y)))))

    def same_tuple(self, a, b):
        """a and b are the same tuple (equality of tuple terms; extensionality is available here)"""
        from .values import TEQ, teq_axioms

        ta, tb = a.meta.get("tterm"), b.meta.get("tterm")
        if ta is None or tb is None:
            raise Unsupported("same_tuple needs tuple terms")
        eng = self.engine
        if not getattr(eng, "_teq_on", False):
            eng._teq_on = True
            eng.global_axioms.extend(teq_axioms())
            eng.rules_used.add("TUPLE-EXTENSIONALITY (tuples with equal length and entries are equal)")
        return BoolV(TEQ(ta, tb))

    def index_mark(self, seq, r):
        """a trigger term naming the r-th element of a sequence of sets (seeded at the integer constants of
        every goal); for quantifiers over r whose body mentions r only under further binders"""
        idm = seq.meta.get("idmark")
        return IntV(idm(Z(r))) if idm is not None else None

    def desc_run(self, t, j):
        """(lo, hi): the maximal strictly decreasing run [lo, hi) of the sequence t that contains index j.
        RUN-DECOMPOSITION: lo and hi are Skolem functions of the theorem "every index of a finite integer
        sequence lies in a maximal strictly decreasing run" - a fact about finite sequences, not about code, stated
        once per sequence as an axiom and listed under rules_used.  (Stated so that it is true of EVERY integer
        sequence, with ties: strictly decreasing inside, a non-descent or the end of the sequence at both borders.)"""
        eng = self.engine
        lo, hi = self.ghost("RUNLO", t, j), self.ghost("RUNHI", t, j)
        done = eng.__dict__.setdefault("_desc_run_done", set())
        key = z3.simplify(Z(lo)).decl().get_id()
        if key not in done:
            done.add(key)
            eng.rules_used.add("RUN-DECOMPOSITION (every index of a finite sequence lies in a maximal strictly decreasing run; run bounds as Skolem functions; existence proved by lemma:run_decomposition_exists)")
            n = Z(self.len(t))
            jv, k, l = fresh("rj"), fresh("rk"), fresh("rl")
            L, H = Z(self.ghost("RUNLO", t, IntV(jv))), Z(self.ghost("RUNHI", t, IntV(jv)))
            at = lambda x: Z(t[x])  # noqa: E731
            inr = z3.And(jv >= 0, jv < n)
            eng.global_axioms.append(z3.ForAll([jv], z3.Implies(inr, z3.And(0 <= L, L <= jv, jv < H, H <= n)), patterns=[L, H], qid="run-bounds"))
            eng.global_axioms.append(z3.ForAll([jv], z3.Implies(inr, z3.And(z3.Or(L == 0, at(L - 1) <= at(L)), z3.Or(H == n, at(H - 1) <= at(H)))), patterns=[L, H], qid="run-maximal"))
            eng.global_axioms.append(z3.ForAll([jv, k, l], z3.Implies(z3.And(inr, L <= k, k < l, l < H), at(k) > at(l)),
                                               patterns=[z3.MultiPattern(L, at(k), at(l))], qid="run-decreasing"))
        return lo, hi

    def gout(self, name):
        """ghost output `name` of the contract being stated (a function int -> int): for a caller a fresh symbol,
        for the function's own verification the witness given by the contract's ghost_witness"""
        g = getattr(self, "_gout", None)
        if not g or name not in g:
            raise Unsupported(f"ghost output {name} is not available here")
        return g[name]

    def _skolem_once(self, name, t, make):
        eng = self.engine
        probe = fresh("sk")
        f = z3.simplify(Z(self.ghost(name, t, IntV(probe)))).decl()
        done = eng.__dict__.setdefault("_skolem_done", set())
        if f.get_id() not in done:
            done.add(f.get_id())
            eng.__dict__.setdefault("_skolem_keep", []).append(f)
            make(lambda x: f(Z(x)), lambda x: Z(t[x]), Z(self.len(t)))

    def prefix_argmax(self, t, j):
        """a position in [0, j] of a maximal entry among t[0..j].  PREFIX-ARGMAX: Skolem function of "every
        non-empty finite sequence of integers has a maximal entry" (a fact about sequences, listed under
        rules_used), one per sequence."""
        def make(AM, at, n):
            self.engine.rules_used.add("PREFIX-ARGMAX (every non-empty prefix of a finite sequence has a position of a maximal entry; Skolem function; existence proved by lemma:prefix_argmax_exists)")
            jv, k = fresh("aj"), fresh("ak")
            self.engine.global_axioms.append(z3.ForAll([jv], z3.Implies(z3.And(jv >= 0, jv < n), z3.And(AM(jv) >= 0, AM(jv) <= jv)), patterns=[AM(jv)], qid="argmax-range"))
            pk = at(k)
            pats = [z3.MultiPattern(AM(jv), pk)] if _pat_ok(pk) else None
            self.engine.global_axioms.append(z3.ForAll([jv, k], z3.Implies(z3.And(k >= 0, k <= jv, jv < n), pk <= at(AM(jv))), qid="argmax-max", **({"patterns": pats} if pats else {})))

        self._skolem_once("PAMAX", t, make)
        return self.ghost("PAMAX", t, j)

    def rec_prefix_argmax(self, t, j):
        """the RECURSIVELY DEFINED leftmost position of a maximal entry among t[0..j]:  r(0) = 0,
        r(j+1) = j+1 if t[j+1] > t[r(j)] else r(j)  (a definition by well-founded recursion: conservative).
        Used by the lemma that justifies PREFIX-ARGMAX."""
        def make(R, at, n):
            jv = fresh("rj")
            self.engine.global_axioms.append(R(z3.IntVal(0)) == 0)
            self.engine.global_axioms.append(z3.ForAll([jv], z3.Implies(jv >= 0, R(jv + 1) == z3.If(at(jv + 1) > at(R(jv)), jv + 1, R(jv))), patterns=[R(jv + 1)], qid="rec-argmax"))

        self._skolem_once("RPAMAX", t, make)
        return self.ghost("RPAMAX", t, j)

    def rec_run_lo(self, t, j):
        """RECURSIVELY DEFINED start of the maximal strictly decreasing run ending at (containing) j:
        lo(0) = 0, lo(j+1) = lo(j) if t[j] > t[j+1] else j+1."""
        def make(L, at, n):
            jv = fresh("rj")
            self.engine.global_axioms.append(L(z3.IntVal(0)) == 0)
            self.engine.global_axioms.append(z3.ForAll([jv], z3.Implies(jv >= 0, L(jv + 1) == z3.If(at(jv) > at(jv + 1), L(jv), jv + 1)), patterns=[L(jv + 1)], qid="rec-runlo"))

        self._skolem_once("RRUNLO", t, make)
        return self.ghost("RRUNLO", t, j)

    def rec_asc_lo(self, t, j):
        """RECURSIVELY DEFINED start of the maximal strictly ASCENDING run ending at j:
        lo(0) = 0, lo(j+1) = lo(j) if t[j] < t[j+1] else j+1  (well-founded recursion: conservative)."""
        def make(L, at, n):
            jv = fresh("rj")
            self.engine.global_axioms.append(L(z3.IntVal(0)) == 0)
            self.engine.global_axioms.append(z3.ForAll([jv], z3.Implies(jv >= 0, L(jv + 1) == z3.If(at(jv) < at(jv + 1), L(jv), jv + 1)), patterns=[L(jv + 1)], qid="rec-asclo"))

        self._skolem_once("RASCLO", t, make)
        return self.ghost("RASCLO", t, j)

    def rec_run_hi_from_end(self, t, d):
        """RECURSIVELY DEFINED end (exclusive) of the maximal strictly decreasing run containing index n-1-d:
        h(0) = n, h(d+1) = h(d) if t[n-2-d] > t[n-1-d] else n-1-d."""
        def make(H, at, n):
            dv = fresh("rd")
            self.engine.global_axioms.append(H(z3.IntVal(0)) == n)
            self.engine.global_axioms.append(z3.ForAll([dv], z3.Implies(dv >= 0, H(dv + 1) == z3.If(at(n - 2 - dv) > at(n - 1 - dv), H(dv), n - 1 - dv)), patterns=[H(dv + 1)], qid="rec-runhi"))

        self._skolem_once("RRUNHI", t, make)
        return self.ghost("RRUNHI", t, d)

    def rec_first_greater_from_end(self, t, p, d):
        """RECURSIVELY DEFINED: the first position >= len(t) - d with an entry larger than t[p], len(t) if there is
        none:  g(p, 0) = n,  g(p, d+1) = n-d-1 if t[n-d-1] > t[p] else g(p, d).  Used by the lemma that justifies
        NEXT-GREATER (next_greater(p) = g(p, n-p-1))."""
        eng = self.engine
        probe_p, probe_d = fresh("sp"), fresh("sd")
        f = z3.simplify(Z(self.ghost("RNEXTGT", t, IntV(probe_p), IntV(probe_d)))).decl()
        done = eng.__dict__.setdefault("_skolem_done", set())
        if f.get_id() not in done:
            done.add(f.get_id())
            eng.__dict__.setdefault("_skolem_keep", []).append(f)
            n = Z(self.len(t))
            pv, dv = fresh("rp"), fresh("rd")
            at = lambda x: Z(t[x])  # noqa: E731
            eng.global_axioms.append(z3.ForAll([pv], f(pv, z3.IntVal(0)) == n, patterns=[f(pv, z3.IntVal(0))], qid="rec-nextgt-zero"))
            eng.global_axioms.append(z3.ForAll([pv, dv], z3.Implies(dv >= 0, f(pv, dv + 1) == z3.If(at(n - dv - 1) > at(pv), n - dv - 1, f(pv, dv))), patterns=[f(pv, dv + 1)], qid="rec-nextgt-step"))
        return self.ghost("RNEXTGT", t, p, d)

    def next_greater(self, t, p):
        """the first position after p with a larger entry than t[p], len(t) if there is none.  NEXT-GREATER:
        Skolem function of that (always existing, unique) position, one per sequence."""
        def make(NG, at, n):
            self.engine.rules_used.add("NEXT-GREATER (first later position with a larger entry, or the length; Skolem function; existence proved by lemma:next_greater_exists)")
            pv, k = fresh("np"), fresh("nk")
            inr = z3.And(pv >= 0, pv < n)
            self.engine.global_axioms.append(z3.ForAll([pv], z3.Implies(inr, z3.And(NG(pv) > pv, NG(pv) <= n, z3.Or(NG(pv) == n, at(NG(pv)) > at(pv)))), patterns=[NG(pv)], qid="nextgt-range"))
            pk = at(k)
            pats = [z3.MultiPattern(NG(pv), pk)] if _pat_ok(pk) else None
            self.engine.global_axioms.append(z3.ForAll([pv, k], z3.Implies(z3.And(inr, pv < k, k < NG(pv)), pk <= at(pv)), qid="nextgt-between", **({"patterns": pats} if pats else {})))

        self._skolem_once("NEXTGT", t, make)
        return self.ghost("NEXTGT", t, p)

    def count_below(self, t, v, upto=None):
        """number of positions j (< upto, default: all) of the tuple t with t[j] < v"""
        tau = t.meta.get("tterm")
        if tau is None:
            raise Unsupported("count_below needs a tuple term")
        return self.engine.count_below(tau, v, upto)

    def tuple_from(self, name, t, n, f):
        """the tuple (f(t, 0), ..., f(t, n-1)) as a TERM depending on the tuple t: one function symbol per
        name (pointwise definitional axiom; exists in the intended model)"""
        from .values import TEL, TLEN, TUP, fresh_fun, from_T

        tau = t.meta.get("tterm")
        if tau is None:
            raise Unsupported("tuple_from needs a tuple term")
        eng = self.engine
        cache = eng.__dict__.setdefault("_tuple_from", {})
        if name not in cache:
            M_ = fresh_fun("tmap_" + name, TUP, TUP)
            tv = z3.Const(f"tm_t!{name}", TUP)
            j = fresh("tmj")
            eng.global_axioms.append(z3.ForAll([tv], TLEN(M_(tv)) == Z(n), patterns=[M_(tv)], qid="tmap-len"))
            eng.global_axioms.append(z3.ForAll([tv, j], TEL(M_(tv), j) == Z(f(from_T(tv), IntV(j))), patterns=[TEL(M_(tv), j)], qid="tmap-el"))
            cache[name] = M_
            eng.__dict__.setdefault("_map_funs", {})[("tmap", name)] = M_
        return from_T(cache[name](tau))

    def through(self, p, t):
        """the tuple (p[e] for e in t)"""
        from .values import from_T

        tau = t.meta.get("tterm")
        if tau is None:
            raise Unsupported("through needs a tuple term")
        return from_T(self.engine.map_through(p, tau))

    def forall_tuple(self, n, body, universe=None):
        """for every integer tuple t of length n (a variable of the tuple sort; trigger tid(t))"""
        from .values import TID, TLEN, TUP, from_T

        tau = z3.Const(f"qt!{fresh('t')}", TUP)
        f = z3.Implies(TLEN(tau) == Z(n), B(body(from_T(tau))))
        return BoolV(z3.ForAll([tau], f, patterns=[TID(tau)], qid=_qid()))

    # sequences
    def len(self, x):
        if isinstance(x, ListV) or type(x).__name__ == "TupListV":
            return IntV(x.n)
        if isinstance(x, SeqV):
            return IntV(x.n)
        if isinstance(x, TupV):
            return IntV(len(x))
        if isinstance(x, ObjV) and "__len__" in x.fields:
            return x.fields["__len__"]
        if isinstance(x, ObjV) and "pattern" in x.fields:
            return IntV(x.fields["pattern"].n)
        raise Unsupported(f"len of {x!r}")

    def seq_eq(self, a, b):
        fa = a.meta.get("filter") if isinstance(a, SeqV) else None
        fb = b.meta.get("filter") if isinstance(b, SeqV) else None
        if fa is not None and fb is not None:
            # proof rule FILTER-CONGRUENCE (generic lemma proved by induction in pyvc/lemmas.py):
            # two filters over the same index range with pointwise equivalent predicates and equal
            # selected values are equal sequences
            i = fresh("fc")
            pa, pb = fa["pred"](i), fb["pred"](i)
            body = z3.Implies(z3.And(i >= 0, i < fa["n"]), z3.And(pa == pb, z3.Implies(pa, veq(fa["val"](i), fb["val"](i)))))
            if self.engine is not None:
                self.engine.rules_used.add("filter-congruence")
            return BoolV(z3.And(fa["n"] == fb["n"], z3.ForAll([i], body)))
        out = veq(a, b)
        if fb is None and isinstance(b, SeqV):
            fb = b.meta.get("eq_filter")  # b is itself (element-wise) a filter by an assumed postcondition
        if fa is None and fb is not None and isinstance(a, SeqV) and a.meta.get("fresh_result"):
            # candidate: the fresh result of a call by contract is stated equal to a filter; the engine
            # keeps it only if this equality is a top-level conjunct of the assumed postcondition
            a.meta["eq_filter_candidate"] = (fb, out)
        return BoolV(out)

    def listing(self, name, lo, hi, pred, val=None):
        """[val(i) for i in range(lo, hi) if pred(i)]  (definitional filter; one instance per name
        and verification run, so that invariants and postconditions talk about the same cnt/sel)."""
        eng = self.engine
        cache = eng.listings
        if name in cache:
            return cache[name]
        lo_t, hi_t = Z(lo), Z(hi)
        n = z3.If(hi_t > lo_t, hi_t - lo_t, z3.IntVal(0))
        valf = val or (lambda i: i)

        def p(i):
            return B(pred(IntV(lo_t + i)))

        def v(i):
            out = valf(IntV(lo_t + i))
            return out if isinstance(out, V) else IntV(Z(out))

        class _Sink:
            def __init__(self):
                self.pc = []

            def assume(self, f):
                self.pc.append(f)

        sink = _Sink()
        seq = eng.make_filter(n, p, v, sink, "list")
        eng.global_axioms.extend(sink.pc)
        seq.meta["filter"]["lo"] = lo_t
        cache[name] = seq
        return seq

    def count_upto(self, listing, k):
        """Number of listed elements whose index is < k."""
        f = listing.meta["filter"]
        return IntV(f["cnt"](Z(k) - f["lo"]))

    def pos(self, p, v):
        """the position of the value v in the permutation p (the ghost inverse of a value known to be a permutation)"""
        g = p.meta["ginv"]
        out = g(IntV(Z(v)))
        return out if isinstance(out, V) else IntV(Z(out))

    def wsum(self, name, lo, hi, term):
        """sum(term(i) for i in range(lo, hi))  as a RECURSIVELY DEFINED spec function (one per name and run):
        WS(0) = 0, WS(k+1) = WS(k) + term(lo+k)  (well-founded recursion: conservative).  The value is registered
        so that `sum_eq` can compare two such sums summand by summand (rule SUM-CONGRUENCE)."""
        eng = self.engine
        cache = eng.__dict__.setdefault("wsums", {})
        if name in cache:
            return cache[name]
        lo_t, hi_t = Z(lo), Z(hi)
        n = z3.If(hi_t > lo_t, hi_t - lo_t, z3.IntVal(0))
        out = register_wsum(eng, n, lambda k: Z(term(IntV(lo_t + k))), eng.global_axioms.append)
        cache[name] = out
        return out

    def wsum_upto(self, name, lo, hi, term, k):
        """the partial sum of the first k terms of wsum(name, lo, hi, term) (the recursively defined WS at k)"""
        tot = self.wsum(name, lo, hi, term)
        ws = self.engine.sum_registry[z3.simplify(tot.t).get_id()]["fun"]
        return IntV(ws(Z(k)))

    def rec_psum(self, name, seq, j):
        """RECURSIVELY DEFINED prefix sum of a sequence: P(0) = 0, P(j+1) = P(j) + seq[j] - what sum() computes"""
        eng = self.engine
        cache = eng.__dict__.setdefault("rec_psums", {})
        if name not in cache:
            from .values import fresh_fun

            P_ = fresh_fun("rpsum", z3.IntSort(), z3.IntSort())
            jv = fresh("pj")
            eng.global_axioms.append(P_(z3.IntVal(0)) == 0)
            eng.global_axioms.append(z3.ForAll([jv], z3.Implies(z3.And(jv >= 0, jv < Z(self.len(seq))), P_(jv + 1) == P_(jv) + Z(seq[IntV(jv)])), patterns=[P_(jv + 1)], qid="rec-psum"))
            cache[name] = P_
        return IntV(cache[name](Z(j)))

    def sum_eq(self, a, b):
        """a == b for two registered sums: rule SUM-CONGRUENCE (generic lemma, induction on the length): two sums over
        index ranges of the same length with pointwise equal summands are equal.  Anything else: plain equality."""
        eng = self.engine
        reg = eng.__dict__.setdefault("sum_registry", {})
        ra, rb = reg.get(z3.simplify(Z(a)).get_id()), reg.get(z3.simplify(Z(b)).get_id())
        if ra is None or rb is None:
            return BoolV(Z(a) == Z(b))
        eng.rules_used.add("sum-congruence (sums over index ranges of equal length with pointwise equal summands are equal; lemma:sum_congruence)")
        i = fresh("sc")
        return BoolV(z3.And(ra["n"] == rb["n"], z3.ForAll([i], z3.Implies(z3.And(i >= 0, i < ra["n"]), ra["term"](i) == rb["term"](i)))))

    def ghost(self, name, *args):
        """Value of an uninterpreted SPEC function at these arguments.  Object arguments
        (permutations, mesh patterns, opaque values) select the function symbol by identity,
        integer arguments are ordinary arguments of that symbol - so the value under a binder is
        a function of the bound variable.  The same (name, objects) always gives the same symbol:
        the spec function is a function."""
        def ident(a):
            if isinstance(a, SeqV):
                f_ = a.meta.get("fun")
                return ("seq", f_.get_id() if f_ is not None else id(a))
            if isinstance(a, ListV):
                return ("list", id(a))
            if isinstance(a, ObjV):
                return ("obj", a.cls, tuple(ident(v) for v in a.fields.values()))
            if isinstance(a, SetV):
                f_ = getattr(a, "fun", None)
                return ("set", f_.get_id() if f_ is not None else id(a))
            if isinstance(a, TupV):
                return ("tup", tuple(ident(v) for v in a.items))
            if isinstance(a, NoneV) or a is None:
                return ("none",)
            return ("py", repr(a))

        ints = [a for a in args if isinstance(a, (IntV, int)) and not isinstance(a, bool)]
        objs = [a for a in args if not (isinstance(a, (IntV, int)) and not isinstance(a, bool))]
        key = (name, len(ints)) + tuple(ident(a) for a in objs)
        cache = self.engine.ghosts
        if key not in cache:
            sorts = [z3.IntSort()] * (len(ints) + 1)
            from .values import fresh_fun

            cache[key] = fresh_fun("ghost_" + name, *sorts) if ints else IntV(fresh("ghost_" + name))
            if name in NONNEG_GHOSTS:
                if ints:
                    xs = [fresh("gx") for _ in ints]
                    self.engine.global_axioms.append(z3.ForAll(xs, cache[key](*xs) >= 0, patterns=[cache[key](*xs)]))
                    if len(ints) == 1 and name == "MARK":
                        self.engine.seed_funs.append(cache[key])
                else:
                    self.engine.global_axioms.append(cache[key].t >= 0)
        g = cache[key]
        return IntV(g(*[Z(a) for a in ints])) if ints else g

    def is_perm(self, p):
        """Bijection of range(n), stated with the ghost two-sided inverse carried by
        the value (meta['ginv']); a value without a witness cannot satisfy it."""
        if isinstance(p, ListV):
            p = p.snapshot()
        g = p.meta.get("ginv")
        if g is None:
            raise Unsupported("is_perm needs a ghost inverse witness on the value")
        return BoolV(perm_formula(p, g))

    def is_mesh(self, m):
        """Type invariant of a mesh pattern: the underlying pattern is a permutation and
        every shaded cell lies in the (n+1) x (n+1) grid."""
        patt, sh = m.fields["pattern"], m.fields["shading"]
        x, y = fresh("cx"), fresh("cy")
        cellv = TupV([IntV(x), IntV(y)])
        inside = z3.ForAll([x, y], z3.Implies(B(sh.contains(cellv)), z3.And(x >= 0, x <= patt.n, y >= 0, y <= patt.n)))
        return BoolV(z3.And(B(self.is_perm(patt)), inside))

    def in_set(self, v, s):
        return BoolV(B(s.contains(v)))

    def map(self, seq, f):
        if isinstance(seq, ListV):
            seq = seq.snapshot()
        return SeqV(seq.n, lambda i: (lambda r: r if isinstance(r, V) else IntV(Z(r)))(f(seq.at(i))), "tuple")

    def member(self, v, seq):
        """v occurs in the sequence"""
        j = fresh("mb")
        if isinstance(seq, ListV):
            seq = seq.snapshot()
        return BoolV(z3.Exists([j], z3.And(j >= 0, j < seq.n, veq(seq.at(j), v))))

    def cell(self, x, y):
        return TupV([x if isinstance(x, V) else IntV(x), y if isinstance(y, V) else IntV(y)])

    def shaded(self, mesh, x, y):
        return BoolV(B(mesh.fields["shading"].contains(self.cell(x, y))))

    def int(self, x):
        return x if isinstance(x, IntV) else IntV(Z(x))

    def is_none(self, x):
        return BoolV(z3.BoolVal(isinstance(x, NoneV)))

    def given(self, x):
        """Python-level: was the optional argument supplied (not None)?"""
        return not isinstance(x, NoneV) and x is not None

    def opt(self, x, default):
        return default if isinstance(x, NoneV) or x is None else x

    def mod(self, x, n):
        """x % n for n > 0 (explicit quotient encoding, see values.divmod_axiom)."""
        from .values import REM

        nn = z3.simplify(Z(n))
        if z3.is_int_value(nn) and nn.as_long() > 0:
            return IntV(Z(x) % nn)
        return IntV(REM(Z(x), Z(n)))

    def truthy(self, v):
        return BoolV(self.engine.truth(v, None))

    def floordiv(self, x, k):
        """x // k for a positive integer constant k"""
        return IntV(Z(x) / z3.IntVal(int(k)))

    def cls_is(self, obj, name):
        return BoolV(z3.BoolVal(getattr(obj, "cls", None) == name or (isinstance(obj, SeqV) and obj.kind == name)))

    def call(self, name, *args):
        if self.engine is None:
            raise Unsupported("c.call outside an engine")
        return self.engine.call_by_contract(name, list(args), ctx=self)


def _qid(depth=2):
    """quantifier id = contract file:line that built it (only used by z3's instantiation profile)"""
    import os
    import sys

    f = sys._getframe(depth)
    while f is not None and f.f_code.co_filename.endswith(("dsl.py",)):
        f = f.f_back
    return f"{os.path.basename(f.f_code.co_filename)[:-3]}_L{f.f_lineno}" if f is not None else ""


def _forall(vars_, body, pattern=None):
    if pattern is not None:
        pats = pattern if isinstance(pattern, (list, tuple)) else [pattern]
        pats = [Z(p) if isinstance(p, (IntV, int)) else p for p in pats]
        return z3.ForAll(vars_, body, patterns=[p for p in pats], qid=_qid())
    return z3.ForAll(vars_, body, qid=_qid())


_ARITH = {z3.Z3_OP_ADD, z3.Z3_OP_SUB, z3.Z3_OP_MUL, z3.Z3_OP_UMINUS, z3.Z3_OP_ANUM}


def _clean(t):
    if z3.is_var(t) or z3.is_int_value(t):
        return True
    if not z3.is_app(t):
        return False
    k = t.decl().kind()
    if k == z3.Z3_OP_UNINTERPRETED or k in _ARITH:
        return all(_clean(ch) for ch in t.children())
    return False


def _mentions(terms, consts):
    """every one of the bound constants occurs in one of the terms (a trigger must bind all variables)"""
    need = {c_.get_id() for c_ in consts}
    seen = set()
    todo = list(terms)
    while todo and need:
        t = todo.pop()
        if t.get_id() in seen:
            continue
        seen.add(t.get_id())
        need.discard(t.get_id())
        if z3.is_app(t):
            todo.extend(t.children())
    return not need


def _pat_ok(t):
    return z3.is_app(t) and t.decl().kind() == z3.Z3_OP_UNINTERPRETED and t.num_args() > 0 and _clean(t)


_PF_CACHE = {}


def perm_formula(p, g):
    """forall i<n: 0<=p[i]<n and g[p[i]]=i ; forall v<n: 0<=g[v]<n and p[g[v]]=v."""
    F_, G_ = p.meta.get("fun"), p.meta.get("gfun")
    if F_ is not None and G_ is not None and p.meta.get("ginv") is g:
        key = (F_.get_id(), G_.get_id(), p.n.get_id())
        hit = _PF_CACHE.get(key)
        if hit is None or not (hit[0].eq(p.n) and hit[1] == F_ and hit[2] == G_):
            # the entry keeps the symbols alive, so their ids cannot be reused for other symbols
            hit = _PF_CACHE[key] = (p.n, F_, G_, _perm_formula(p, g))
        return hit[3]  # one AST per sequence: the formula is recognised wherever it is used
    return _perm_formula(p, g)


def _perm_formula(p, g):
    n = p.n
    i, v = fresh("pi"), fresh("pv")
    pi = Z(p.at(i))
    gv = Z(g(v))
    b1 = z3.Implies(z3.And(i >= 0, i < n), z3.And(pi >= 0, pi < n, Z(g(pi)) == i))
    b2 = z3.Implies(z3.And(v >= 0, v < n), z3.And(gv >= 0, gv < n, Z(p.at(gv)) == v))
    f1 = z3.ForAll([i], b1, patterns=[pi], qid="perm-fwd") if _pat_ok(pi) else z3.ForAll([i], b1)
    f2 = z3.ForAll([v], b2, patterns=[gv], qid="perm-inv") if _pat_ok(gv) else z3.ForAll([v], b2)
    return z3.And(n >= 0, f1, f2)


# ------------------------------------------------------------------ run time
class RunCtx:
    """Evaluates contracts on real objects."""

    mode = "run"

    def __init__(self, resolver=None):
        self.resolver = resolver

    def true(self):
        return True

    def false(self):
        return False

    def and_(self, *xs):
        return all(bool(_force(x)) for x in xs)

    def or_(self, *xs):
        return any(bool(_force(x)) for x in xs)

    def not_(self, x):
        return not x

    def implies(self, a, b):
        return (not a) or bool(_force(b))

    def iff(self, a, b):
        return bool(a) == bool(b)

    def ite(self, cond, a, b):
        return a if cond else b

    def eq(self, a, b):
        return _run_eq(a, b)

    def forall(self, lo, hi, body, pattern=None):
        return all(body(i) for i in range(lo, hi))

    def exists(self, lo, hi, body):
        return any(body(i) for i in range(lo, hi))

    def forall2(self, lo, hi, body, pattern=None):
        return all(body(i, j) for i in range(lo, hi) for j in range(lo, hi))

    def forall_int(self, body, span=None):
        lo, hi = span or (-12, 13)
        return all(body(i) for i in range(lo, hi))

    def forall_cell(self, body, span=None):
        lo, hi = span or (-2, 12)
        return all(body(x, y) for x in range(lo, hi) for y in range(lo, hi))

    def same_tuple(self, a, b):
        return tuple(a) == tuple(b)

    def gout(self, name):
        return self._gout[name]

    def prefix_argmax(self, t, j):
        t = tuple(t)
        if not 0 <= j < len(t):
            return -10 ** 9
        return max(range(j + 1), key=lambda k: t[k])

    def rec_run_lo(self, t, j):
        t = tuple(t)
        lo = 0
        for k in range(0, j):
            if not (k + 1 < len(t) and t[k] > t[k + 1]):
                lo = k + 1
        return lo

    def rec_asc_lo(self, t, j):
        t = tuple(t)
        lo = 0
        for k in range(0, j):
            if not (k + 1 < len(t) and t[k] < t[k + 1]):
                lo = k + 1
        return lo

    def rec_run_hi_from_end(self, t, d):
        t = tuple(t)
        n = len(t)
        h = n
        for e in range(0, d):
            if not (0 <= n - 2 - e and t[n - 2 - e] > t[n - 1 - e]):
                h = n - 1 - e
        return h

    def rec_first_greater_from_end(self, t, p, d):
        t = tuple(t)
        n = len(t)
        g = n
        for e in range(0, d):
            k = n - e - 1
            if 0 <= k < n and 0 <= p < n and t[k] > t[p]:
                g = k
        return g

    def rec_prefix_argmax(self, t, j):
        t = tuple(t)
        r = 0
        for k in range(1, j + 1):
            if k < len(t) and t[k] > t[r]:
                r = k
        return r

    def next_greater(self, t, p):
        t = tuple(t)
        if not 0 <= p < len(t):
            return -10 ** 9
        return next((k for k in range(p + 1, len(t)) if t[k] > t[p]), len(t))

    def desc_run(self, t, j):
        t = tuple(t)
        lo = hi = j
        while lo > 0 and t[lo - 1] > t[lo]:
            lo -= 1
        hi = j + 1
        while hi < len(t) and t[hi - 1] > t[hi]:
            hi += 1
        return lo, hi

    def count_below(self, t, v, upto=None):
        k = len(t) if upto is None else upto
        return sum(1 for j in range(k) if t[j] < v)

    def tuple_from(self, name, t, n, f):
        return tuple(f(t, j) for j in range(n))

    def through(self, p, t):
        return tuple(p[e] if 0 <= e < len(p) else -10 ** 9 for e in t)

    def forall_tuple(self, n, body, universe=None):
        """run time: every tuple of length n over the given universe of entries (default: -1..6)"""
        import itertools

        lo, hi = universe or (-1, 7)
        return all(body(t) for t in itertools.product(range(lo, hi), repeat=n))

    def len(self, x):
        return len(x)

    def seq_eq(self, a, b):
        return _run_eq(a, b)

    def listing(self, name, lo, hi, pred, val=None):
        out = _RunListing(val(i) if val else i for i in range(lo, hi) if pred(i))
        out.indices = [i for i in range(lo, hi) if pred(i)]
        return out

    def count_upto(self, listing, k):
        return sum(1 for i in listing.indices if i < k)

    def pos(self, p, v):
        return list(p).index(v)

    def wsum(self, name, lo, hi, term):
        return sum(term(i) for i in range(lo, hi))

    def wsum_upto(self, name, lo, hi, term, k):
        return sum(term(i) for i in range(lo, min(hi, lo + k)))

    def rec_psum(self, name, seq, j):
        return sum(list(seq)[:j])

    def sum_eq(self, a, b):
        return a == b

    def ghost(self, name, *args):
        return GHOST_IMPL[name](*args)

    def is_perm(self, p):
        return sorted(p) == list(range(len(p)))

    def is_mesh(self, m):
        n = len(m.pattern)
        return self.is_perm(m.pattern) and all(0 <= x <= n and 0 <= y <= n for x, y in m.shading)

    def in_set(self, v, s):
        return v in s

    def map(self, seq, f):
        return [f(x) for x in seq]

    def member(self, v, seq):
        return v in list(seq)

    def cell(self, x, y):
        return (x, y)

    def shaded(self, mesh, x, y):
        return (x, y) in mesh.shading

    def int(self, x):
        return x

    def is_none(self, x):
        return x is None

    def given(self, x):
        return x is not None

    def opt(self, x, default):
        return default if x is None else x

    def mod(self, x, n):
        return x % n

    def truthy(self, v):
        return bool(v)

    def floordiv(self, x, k):
        return x // k

    def cls_is(self, obj, name):
        return type(obj).__name__ == name

    def call(self, name, *args):
        out = self.resolver(name)(*args)
        if hasattr(out, "__next__"):
            out = list(out)
        K = CONTRACTS.get(name) or CONTRACTS.get(f"{name}@{len(args)}")
        if K is not None and K.returns in ("IntSetGen", "IntSet"):
            out = {getattr(v, "value", v) for v in out}  # Enum members by their integer value
        return out


class _RunListing(list):
    pass


def _run_eq(a, b):
    try:
        return list(a) == list(b)
    except TypeError:
        return a == b
