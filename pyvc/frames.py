"""Structural obligations over the whole package AST: frames, memo tables, lock ownership,
closed world.  These are all-paths syntactic/semantic conditions; a failed one has no
"failing input", so the policy reports it `no-failing-input-found` (unless the bounded layer
reproduces a wrong answer).  A shape the analysis does not recognise is UNDECIDED, never a
violation - only recognised *bad* shapes refute an obligation.

Records: {"name", "kind", "function", "status": discharged|refuted|undecided, "backend":
"pyvc.frames", "ms", "note"}.
"""
import ast
import time

from . import extract

MUTATORS = {"append", "extend", "add", "update", "pop", "remove", "clear", "insert", "sort", "reverse", "appendleft", "popleft",
            "rotate", "setdefault", "popitem", "discard", "__setitem__", "__delitem__"}
LOCK_CTORS = {"Lock", "RLock"}


def _rec(name, kind, func, status, note=""):
    return {"name": name, "kind": kind, "function": func, "status": status, "backend": "pyvc.frames", "ms": 0.0, "note": note}


def _attr_chain(node):
    """self.cache -> ('self', 'cache');  Av._CACHE_LOCK -> ('Av', '_CACHE_LOCK')."""
    parts = []
    while isinstance(node, ast.Attribute):
        parts.append(node.attr)
        node = node.value
    if isinstance(node, ast.Name):
        parts.append(node.id)
        return tuple(reversed(parts))
    return None


def _root_name(node):
    """Name at the root of a subscript/attribute chain: self.cache[i][p] -> chain ('self','cache')."""
    while isinstance(node, (ast.Subscript, ast.Attribute, ast.Call)):
        if isinstance(node, ast.Subscript):
            node = node.value
        elif isinstance(node, ast.Call):
            node = node.func
        else:
            ch = _attr_chain(node)
            if ch is not None:
                return ch
            node = node.value
    if isinstance(node, ast.Name):
        return (node.id,)
    return None


# ====================================================================== C07
class LockAnalysis:
    """Ownership discipline of the shared level cache of Av."""

    def __init__(self, repo_index, cls="Av", field="cache", lock="_CACHE_LOCK"):
        self.repo = repo_index
        self.cls = cls
        self.field = field
        self.lock = lock
        info = repo_index.classes.get(cls)
        self.info = info
        self.methods = dict(info["methods"]) if info else {}

    # -- helpers
    def _is_lock_with(self, node):
        if not isinstance(node, ast.With):
            return False
        for item in node.items:
            ch = _attr_chain(item.context_expr)
            if ch and ch[-1] == self.lock:
                return True
        return False

    def _aliases_of_cache(self, fn):
        """Local names that (may) denote objects reachable from self.cache (syntactic, flow
        insensitive): x = self.cache[...] ; for k, x in <alias>.items() ; x = <alias>[...]."""
        aliases = set()
        changed = True

        def reaches(expr):
            for sub in ast.walk(expr):
                ch = _attr_chain(sub) if isinstance(sub, ast.Attribute) else None
                if ch == ("self", self.field):
                    return True
                if isinstance(sub, ast.Name) and sub.id in aliases:
                    return True
            return False

        while changed:
            changed = False
            for node in ast.walk(fn.node):
                tgt_names = []
                src = None
                if isinstance(node, ast.Assign):
                    src = node.value
                    for t in node.targets:
                        tgt_names += [n.id for n in ast.walk(t) if isinstance(n, ast.Name)]
                elif isinstance(node, ast.AnnAssign) and node.value is not None:
                    src = node.value
                    tgt_names = [n.id for n in ast.walk(node.target) if isinstance(n, ast.Name)]
                elif isinstance(node, (ast.For, ast.comprehension)):
                    src = node.iter
                    tgt_names = [n.id for n in ast.walk(node.target) if isinstance(n, ast.Name)]
                if src is not None and reaches(src):
                    # a fresh container built from the cache (dict/list/set display or comprehension,
                    # frozenset(...), sorted(...)) is not an alias
                    if isinstance(src, (ast.Dict, ast.DictComp, ast.ListComp, ast.SetComp, ast.List, ast.Set, ast.GeneratorExp)):
                        continue
                    if isinstance(src, ast.Call) and isinstance(src.func, ast.Name) and src.func.id in ("len", "frozenset", "set", "list", "tuple", "sorted", "dict", "max", "min", "sum", "any", "all", "iter", "range"):
                        continue
                    for nm in tgt_names:
                        if nm not in aliases and nm != "self":
                            aliases.add(nm)
                            changed = True
        return aliases

    def writes(self, fn):
        """[(stmt_node, description, inside_lock)] for every write to the cache or to an object
        reachable from it."""
        aliases = self._aliases_of_cache(fn)
        out = []

        def is_shared(expr):
            root = _root_name(expr)
            if root is None:
                return False
            if root[:2] == ("self", self.field):
                return True
            return len(root) == 1 and root[0] in aliases

        def visit(node, locked):
            if self._is_lock_with(node):
                for ch in node.body:
                    visit(ch, True)
                return
            if isinstance(node, (ast.FunctionDef, ast.Lambda)) and node is not fn.node:
                # nested function: its body runs when called; treated with the lock state of the definition site
                pass
            if isinstance(node, (ast.Assign, ast.AugAssign, ast.AnnAssign)):
                targets = node.targets if isinstance(node, ast.Assign) else [node.target]
                for t in targets:
                    if isinstance(t, ast.Subscript) and is_shared(t.value):
                        out.append((node, f"store {ast.unparse(t)} = ...", locked))
                    elif isinstance(t, ast.Attribute) and _attr_chain(t) == ("self", self.field):
                        out.append((node, f"rebinding {ast.unparse(t)}", locked))
            if isinstance(node, ast.Delete):
                for t in node.targets:
                    if isinstance(t, ast.Subscript) and is_shared(t.value):
                        out.append((node, f"del {ast.unparse(t)}", locked))
            if isinstance(node, ast.Call) and isinstance(node.func, ast.Attribute) and node.func.attr in MUTATORS and is_shared(node.func.value):
                out.append((node, f"call {ast.unparse(node.func)}(...)", locked))
            for ch in ast.iter_child_nodes(node):
                visit(ch, locked)

        for st in fn.node.body:
            visit(st, False)
        return out

    def calls(self, fn):
        """[(callee method name, inside_lock)] for self.<m>(...) / Av.<m>(...) calls."""
        out = []

        def visit(node, locked):
            if self._is_lock_with(node):
                for ch in node.body:
                    visit(ch, True)
                return
            if isinstance(node, ast.Call) and isinstance(node.func, ast.Attribute):
                ch = _attr_chain(node.func)
                if ch and len(ch) == 2 and ch[0] in ("self", self.cls, "cls") and ch[1] in self.methods:
                    out.append((ch[1], locked))
            for ch_ in ast.iter_child_nodes(node):
                visit(ch_, locked)

        for st in fn.node.body:
            visit(st, False)
        return out

    def acquires(self, fn):
        return any(self._is_lock_with(n) for n in ast.walk(fn.node))

    # -- obligations
    def run(self):
        recs = []
        if not self.info:
            return [_rec(f"{self.cls}:ownership", "ownership", self.cls, "undecided", "class not found")]
        # O1: one lock object, created once at class level by a lock constructor
        lock_assigns = []
        for item in self.info["node"].body:
            if isinstance(item, (ast.Assign, ast.AnnAssign)):
                tgts = item.targets if isinstance(item, ast.Assign) else [item.target]
                if any(isinstance(t, ast.Name) and t.id == self.lock for t in tgts):
                    lock_assigns.append(item)
        other = []
        for q, f in self.repo.funcs.items():
            for node in ast.walk(f.node):
                if isinstance(node, (ast.Assign, ast.AugAssign)):
                    tgts = node.targets if isinstance(node, ast.Assign) else [node.target]
                    for t in tgts:
                        ch = _attr_chain(t) if isinstance(t, ast.Attribute) else None
                        if ch and ch[-1] == self.lock:
                            other.append(q)
        if len(lock_assigns) == 1 and not other:
            v = lock_assigns[0].value
            ok = isinstance(v, ast.Call) and ((isinstance(v.func, ast.Attribute) and v.func.attr in LOCK_CTORS) or (isinstance(v.func, ast.Name) and v.func.id in LOCK_CTORS))
            recs.append(_rec(f"{self.cls}:ownership.O1-single-lock", "ownership", self.cls, "discharged" if ok else "undecided",
                             "class attribute created once by a lock constructor" if ok else f"lock initialiser not recognised: {ast.unparse(v)}"))
        elif not lock_assigns:
            recs.append(_rec(f"{self.cls}:ownership.O1-single-lock", "ownership", self.cls, "refuted", f"no class-level lock '{self.lock}' exists"))
        else:
            recs.append(_rec(f"{self.cls}:ownership.O1-single-lock", "ownership", self.cls, "refuted", f"lock is (re)assigned in {other or 'several class-level statements'}: per-call or per-instance locks do not exclude each other"))
        # O2: every write to the shared cache happens with the lock held on every call path
        needs = {}
        for name, f in self.methods.items():
            needs[name] = any(not locked for (_n, _d, locked) in self.writes(f))
        changed = True
        while changed:
            changed = False
            for name, f in self.methods.items():
                if needs[name]:
                    continue
                for callee, locked in self.calls(f):
                    if not locked and needs.get(callee):
                        needs[name] = True
                        changed = True
                        break
        total_writes = sum(len(self.writes(f)) for f in self.methods.values())
        exposed = sorted(n for n, v in needs.items() if v and not n.startswith("_"))
        # constructors create the object before it is shared
        exposed = [n for n in exposed if n not in ("__new__", "__init__")]
        # functions outside the class calling a lock-needing private method
        outside = []
        for q, f in self.repo.funcs.items():
            if f.cls == self.cls:
                continue
            for node in ast.walk(f.node):
                if isinstance(node, ast.Call) and isinstance(node.func, ast.Attribute) and node.func.attr in needs and needs[node.func.attr] and node.func.attr.startswith("_"):
                    outside.append(f"{q} -> {node.func.attr}")
        if total_writes == 0:
            recs.append(_rec(f"{self.cls}:ownership.O2-writes-under-lock", "ownership", self.cls, "undecided", "no write to the shared cache recognised (representation changed?)"))
        elif exposed or outside:
            detail = []
            for n in exposed:
                f = self.methods[n]
                ws = [d for (_x, d, locked) in self.writes(f) if not locked]
                cs = [c for (c, locked) in self.calls(f) if not locked and needs.get(c)]
                detail.append(f"{self.cls}.{n}: unlocked " + "; ".join(ws + [f"call of {c}" for c in cs]))
            recs.append(_rec(f"{self.cls}:ownership.O2-writes-under-lock", "ownership", self.cls, "refuted",
                             "a public entry point reaches a write to the shared level cache without holding the lock: " + " | ".join(detail + outside)))
        else:
            recs.append(_rec(f"{self.cls}:ownership.O2-writes-under-lock", "ownership", self.cls, "discharged",
                             f"{total_writes} write sites; lock-needing private methods: {sorted(n for n, v in needs.items() if v)}; all callers hold the lock"))
        # O3: no re-acquisition inside the critical section (non-reentrant lock)
        reacq = []
        acq = {n: self.acquires(f) for n, f in self.methods.items()}
        changed = True
        trans = dict(acq)
        while changed:
            changed = False
            for n, f in self.methods.items():
                if not trans[n] and any(trans.get(c) for c, _l in self.calls(f)):
                    trans[n] = True
                    changed = True
        for n, f in self.methods.items():
            for callee, locked in self.calls(f):
                if locked and trans.get(callee):
                    reacq.append(f"{n} -> {callee}")
        recs.append(_rec(f"{self.cls}:ownership.O3-no-reacquire", "ownership", self.cls, "refuted" if reacq else "discharged",
                         ("critical section calls a method that takes the lock again (deadlock): " + ", ".join(reacq)) if reacq else "no nested acquisition"))
        # O4: known-bad write shapes (publish-before-complete, shrinking, rebinding)
        bad = []
        for n, f in self.methods.items():
            if n in ("__new__", "__init__"):
                continue
            for node, desc, _locked in self.writes(f):
                if desc.startswith("rebinding") or desc.startswith("del "):
                    bad.append(f"{n}: {desc}")
                if isinstance(node, ast.Call) and node.func.attr in ("pop", "clear", "remove", "popitem", "__delitem__"):
                    root = _root_name(node.func.value)
                    if root and root[:2] == ("self", self.field) and len(root) == 2 and isinstance(node.func.value, ast.Attribute):
                        bad.append(f"{n}: {desc} (published levels disappear)")
            bad += self._publish_before_complete(f)
        # O5: the lock is never held across a suspension point: no yield / yield from lexically inside a
        # `with <lock>` block (a suspended generator would keep the process-wide lock until it is resumed or
        # collected, and every other query would block), and no generator method is CALLED-AND-ITERATED there
        held = []
        for n, f in self.methods.items():
            def scan(node, locked, n=n):
                if self._is_lock_with(node):
                    for ch in node.body:
                        scan(ch, True)
                    return
                if locked and isinstance(node, (ast.Yield, ast.YieldFrom)):
                    held.append(f"{n}: `{ast.unparse(node)[:60]}` inside the critical section")
                if isinstance(node, (ast.FunctionDef, ast.Lambda)) and node is not f.node:
                    return
                for ch in ast.iter_child_nodes(node):
                    scan(ch, locked)
            scan(f.node, False)
        recs.append(_rec(f"{self.cls}:ownership.O5-no-suspension-under-lock", "ownership", self.cls, "refuted" if held else "discharged",
                         ("a generator is suspended while holding the process-wide lock (every other query blocks until it is resumed): " + " | ".join(held)) if held
                         else "no yield inside a critical section"))
        recs.append(_rec(f"{self.cls}:ownership.O4-guarantee", "ownership", self.cls, "refuted" if bad else "discharged",
                         ("write violates the guarantee 'published levels are complete and never disappear': " + " | ".join(bad)) if bad else
                         "no rebinding / deletion / publish-before-complete shape"))
        return recs

    def _publish_before_complete(self, fn):
        """x becomes reachable from self.cache (append / extend / item store of the NAME x) and x is
        mutated by a later statement of the same block."""
        found = []

        def published_names(node):
            names = []
            if isinstance(node, ast.Expr) and isinstance(node.value, ast.Call) and isinstance(node.value.func, ast.Attribute):
                c = node.value
                if c.func.attr in ("append", "extend", "insert") and _attr_chain(c.func.value) == ("self", self.field):
                    names += [a.id for a in c.args if isinstance(a, ast.Name)]
            if isinstance(node, ast.Assign):
                for t in node.targets:
                    if isinstance(t, ast.Subscript) and _attr_chain(t.value) == ("self", self.field) and isinstance(node.value, ast.Name):
                        names.append(node.value.id)
            return names

        def mutated(node, nm):
            for sub in ast.walk(node):
                if isinstance(sub, (ast.Assign, ast.AugAssign)):
                    tg = sub.targets if isinstance(sub, ast.Assign) else [sub.target]
                    for t in tg:
                        if isinstance(t, ast.Subscript) and isinstance(t.value, ast.Name) and t.value.id == nm:
                            return True
                if isinstance(sub, ast.Call) and isinstance(sub.func, ast.Attribute) and sub.func.attr in MUTATORS and isinstance(sub.func.value, ast.Name) and sub.func.value.id == nm:
                    return True
            return False

        def scan(block):
            for i, st in enumerate(block):
                for nm in published_names(st):
                    for later in block[i + 1:]:
                        if mutated(later, nm):
                            found.append(f"{fn.qualname}: '{nm}' is published into self.{self.field} and mutated afterwards")
                            break
                for field in ("body", "orelse", "finalbody"):
                    sub = getattr(st, field, None)
                    if isinstance(sub, list):
                        scan(sub)

        scan(fn.node.body)
        return found


# ================================================================ memo tables
def memo_attribute(repo_index, cls, attr, owner, reader_fns):
    """Instance memo `self.<attr>`: the only non-None store is the guarded one in `owner`, its value
    depends only on self, and the functions it escapes to never mutate it."""
    recs = []
    stores = []
    for q, f in repo_index.funcs.items():
        for node in ast.walk(f.node):
            if isinstance(node, (ast.Assign, ast.AnnAssign, ast.AugAssign)):
                tgts = node.targets if isinstance(node, ast.Assign) else [node.target]
                for t in tgts:
                    if isinstance(t, ast.Attribute) and t.attr == attr:
                        stores.append((q, node))
    name = f"{cls}.{owner}:memo-invariant[{attr}]"
    init = [s for s in stores if s[0] == f"{cls}.__init__"]
    own = [s for s in stores if s[0] == f"{cls}.{owner}"]
    others = [s[0] for s in stores if s not in init and s not in own]
    if not stores:
        return [_rec(name, "memo-invariant", f"{cls}.{owner}", "undecided", "memo attribute not found (representation changed?)")]
    if others:
        return [_rec(name, "memo-invariant", f"{cls}.{owner}", "refuted", f"memo attribute is also written in {sorted(set(others))}")]
    if len(own) != 1:
        return [_rec(name, "memo-invariant", f"{cls}.{owner}", "undecided", f"{len(own)} stores in the owner")]
    f = repo_index.funcs[f"{cls}.{owner}"]
    node = own[0][1]
    # guarded by `if self.<attr> is None:`
    guarded = False
    for iff in ast.walk(f.node):
        if isinstance(iff, ast.If) and any(n is node for n in ast.walk(iff)):
            t = iff.test
            if isinstance(t, ast.Compare) and isinstance(t.left, ast.Attribute) and t.left.attr == attr and isinstance(t.ops[0], ast.Is) and isinstance(t.comparators[0], ast.Constant) and t.comparators[0].value is None:
                guarded = True
    val = node.value
    free = {n.id for n in ast.walk(val) if isinstance(n, ast.Name) and isinstance(n.ctx, ast.Load)}
    bound = {n.id for n in ast.walk(val) if isinstance(n, ast.Name) and isinstance(n.ctx, ast.Store)}
    impure = sorted(free - bound - {"self", "len", "zip", "enumerate", "range", "tuple", "list", "min", "max", "sum"})
    status = "discharged" if guarded and not impure else "refuted" if impure else "undecided"
    note = "single guarded store; value depends only on self" if status == "discharged" else (f"stored value reads {impure}: not a function of the immutable self" if impure else "store is not guarded by `is None`")
    recs.append(_rec(name, "memo-invariant", f"{cls}.{owner}", status, note))
    # escape: readers must not mutate what they got from owner()
    for rq in reader_fns:
        rf = repo_index.funcs.get(rq)
        rname = f"{rq}:frame[{attr} read-only]"
        if rf is None:
            recs.append(_rec(rname, "frame", rq, "undecided", "reader not found"))
            continue
        holders = set()
        for n in ast.walk(rf.node):
            if isinstance(n, ast.Assign) and isinstance(n.value, ast.Call) and isinstance(n.value.func, ast.Attribute) and n.value.func.attr == owner:
                holders |= {t.id for t in n.targets if isinstance(t, ast.Name)}
        muts = []
        for n in ast.walk(rf.node):
            if isinstance(n, (ast.Assign, ast.AugAssign)):
                tg = n.targets if isinstance(n, ast.Assign) else [n.target]
                for t in tg:
                    if isinstance(t, ast.Subscript) and isinstance(t.value, ast.Name) and t.value.id in holders:
                        muts.append(ast.unparse(t))
            if isinstance(n, ast.Call) and isinstance(n.func, ast.Attribute) and n.func.attr in MUTATORS and isinstance(n.func.value, ast.Name) and n.func.value.id in holders:
                muts.append(ast.unparse(n.func))
        recs.append(_rec(rname, "frame", rq, "refuted" if muts else "discharged",
                         (f"memoised table is mutated through {muts}") if muts else f"holders {sorted(holders)} are only read"))
    return recs


def memo_dict(repo_index, cls, table, owner):
    """Class-level dict memo `Cls.<table>` filled by `owner(key)`: every store in the package is
    `table[key] = value` inside owner with key = owner's parameter and value computed from the key;
    nothing deletes or clears it (so a warm memo equals a cold computation)."""
    name = f"{cls}.{owner}:memo-invariant[{table}]"
    f = repo_index.funcs.get(f"{cls}.{owner}")
    if f is None:
        return [_rec(name, "memo-invariant", f"{cls}.{owner}", "undecided", "owner not found")]
    param = [p for p in f.params if p not in ("self", "cls")]
    stores, dels = [], []

    def is_table(ch, g):
        return bool(ch) and ch[-1] == table and (ch[0] == cls or (ch[0] in ("cls", "self") and g.cls == cls))

    for q, g in repo_index.funcs.items():
        for node in ast.walk(g.node):
            if isinstance(node, (ast.Assign, ast.AugAssign)):
                tg = node.targets if isinstance(node, ast.Assign) else [node.target]
                for t in tg:
                    if isinstance(t, ast.Subscript):
                        ch = _attr_chain(t.value) if isinstance(t.value, ast.Attribute) else None
                        if is_table(ch, g):
                            stores.append((q, node, t))
                    if isinstance(t, ast.Attribute) and is_table(_attr_chain(t), g) and not (isinstance(node, ast.Assign) and isinstance(node.value, ast.Dict) and not node.value.keys):
                        dels.append(f"{q}: rebinding to a non-empty table")
            # clearing / evicting entries keeps "a hit returns what a miss would compute"; only foreign
            # INSERTIONS can break it
            if isinstance(node, ast.Call) and isinstance(node.func, ast.Attribute) and node.func.attr in ("update", "setdefault"):
                ch = _attr_chain(node.func.value) if isinstance(node.func.value, ast.Attribute) else None
                if is_table(ch, g):
                    dels.append(f"{q}: .{node.func.attr}()")

    if not stores:
        return [_rec(name, "memo-invariant", f"{cls}.{owner}", "undecided", "no store into the memo table found")]
    foreign = sorted({q for q, _n, _t in stores if q != f"{cls}.{owner}"})
    if foreign or dels:
        return [_rec(name, "memo-invariant", f"{cls}.{owner}", "refuted", f"memo table also modified by {foreign + dels}")]
    problems = []
    for _q, node, t in stores:
        key = t.slice
        if not (isinstance(key, ast.Name) and key.id in param):
            problems.append(f"key {ast.unparse(key)} is not the parameter {param}")
        # the stored value: a Name assigned earlier from an expression over the key only
        val = node.value
        exprs = [val]
        if isinstance(val, ast.Name):
            exprs = [n.value for n in ast.walk(f.node) if isinstance(n, ast.Assign) and any(isinstance(x, ast.Name) and x.id == val.id for x in n.targets)]
        for e in exprs:
            free = {n.id for n in ast.walk(e) if isinstance(n, ast.Name) and isinstance(n.ctx, ast.Load)}
            bound = {n.id for n in ast.walk(e) if isinstance(n, ast.Name) and isinstance(n.ctx, ast.Store)}
            extra = sorted(free - bound - set(param) - {cls, "frozenset", "sum", "enumerate", "tuple", "len", "set", "list"} - set(repo_index.classes))
            if extra:
                problems.append(f"value reads {extra}")
    status = "refuted" if problems else "discharged"
    return [_rec(name, "memo-invariant", f"{cls}.{owner}", status, "; ".join(problems) if problems else f"{len(stores)} store(s), key = parameter, value computed from the key only, evictions allowed")]


def lru_purity(repo_index, qualname, allow_io=False):
    """A function wrapped by functools.lru_cache must be a function of its arguments: no reads of
    mutable module/class state, no IO, no randomness."""
    f = repo_index.funcs.get(qualname)
    name = f"{qualname}:purity[lru_cache]"
    if f is None:
        return [_rec(name, "purity", qualname, "undecided", "function not found")]
    if "lru_cache" not in f.decorators:
        return [_rec(name, "purity", qualname, "discharged", "not memoised any more (nothing to check)")]
    bad = []
    for node in ast.walk(f.node):
        if isinstance(node, ast.Call):
            fn = node.func
            nm = fn.id if isinstance(fn, ast.Name) else fn.attr if isinstance(fn, ast.Attribute) else ""
            if nm in ("open", "input", "random", "randint", "shuffle", "time", "id", "getenv", "scandir", "listdir") and not allow_io:
                bad.append(nm)
        if isinstance(node, (ast.Global, ast.Nonlocal)):
            bad.append("global/nonlocal")
    return [_rec(name, "purity", qualname, "refuted" if bad else "discharged", f"impure: {sorted(set(bad))}" if bad else "no IO / randomness / global state in the body")]


def frame_readonly(repo_index, qualname, allowed_attrs=()):
    """`modifies = ()`: the function writes to nothing reachable from its parameters (objects it
    creates itself are its own business).  Aliases are tracked flow-insensitively: a local bound to
    <param>.<attr>, <param>[...] or to an alias of those denotes parameter state."""
    f = repo_index.funcs.get(qualname)
    name = f"{qualname}:frame[modifies nothing reachable from its arguments]"
    if f is None:
        return [_rec(name, "frame", qualname, "undecided", "function not found")]
    params = set(f.params) | ({f.vararg} if f.vararg else set())
    shared = set()
    changed = True

    def from_params(expr):
        # attribute / subscript chains rooted at a parameter or at an alias; calls are opaque
        # (their results are fresh values as far as this analysis is concerned) except method calls
        # named in ALIAS_RETURNING which hand out internal state
        if isinstance(expr, ast.Name):
            return expr.id in shared
        if isinstance(expr, ast.Attribute):
            root = _root_name(expr)
            return bool(root) and (root[0] in params or root[0] in shared)
        if isinstance(expr, ast.Subscript):
            return from_params(expr.value) or (isinstance(expr.value, ast.Name) and expr.value.id in params)
        if isinstance(expr, ast.Call) and isinstance(expr.func, ast.Attribute) and expr.func.attr in ("_pattern_details", "items", "values", "get", "setdefault"):
            return from_params(expr.func.value) or (isinstance(expr.func.value, ast.Name) and expr.func.value.id in params)
        return False

    while changed:
        changed = False
        for node in ast.walk(f.node):
            src, tgts = None, []
            if isinstance(node, ast.Assign):
                src, tgts = node.value, [n.id for t in node.targets for n in ast.walk(t) if isinstance(n, ast.Name)]
            elif isinstance(node, ast.AnnAssign) and node.value is not None:
                src, tgts = node.value, [n.id for n in ast.walk(node.target) if isinstance(n, ast.Name)]
            if src is not None and from_params(src):
                for nm in tgts:
                    if nm not in shared and nm not in params:
                        shared.add(nm)
                        changed = True
    writes = []
    for node in ast.walk(f.node):
        if isinstance(node, (ast.Assign, ast.AugAssign, ast.AnnAssign)):
            tg = node.targets if isinstance(node, ast.Assign) else [node.target]
            for t in tg:
                if isinstance(t, ast.Subscript) and (from_params(t.value) or (isinstance(t.value, ast.Name) and t.value.id in params)):
                    writes.append(ast.unparse(t))
                if isinstance(t, ast.Attribute):
                    root = _root_name(t)
                    if root and (root[0] in params or root[0] in shared) and t.attr not in allowed_attrs:
                        writes.append(ast.unparse(t))
        if isinstance(node, ast.Call) and isinstance(node.func, ast.Attribute) and node.func.attr in MUTATORS:
            v = node.func.value
            if from_params(v) or (isinstance(v, ast.Name) and v.id in params):
                writes.append(ast.unparse(node.func) + "()")
    return [_rec(name, "frame", qualname, "refuted" if writes else "discharged",
                 ("writes to argument state: " + ", ".join(sorted(set(writes)))) if writes else f"no store through parameters or their aliases {sorted(shared)}")]


# ================================================================ closed world
def closed_world(repo_index):
    recs = []
    subs = repo_index.subclasses("Perm")
    recs.append(_rec("Perm:closed-world[no subclass]", "closed-world", "Perm", "refuted" if subs else "discharged",
                     f"Perm is subclassed by {subs}: contracts on Perm methods would not cover overrides" if subs else "Perm has no subclass in the package"))
    f = repo_index.funcs.get("MeshPatt.__len__")
    ok = False
    if f is not None and len(f.body) == 1 and isinstance(f.body[0], ast.Return):
        ok = ast.unparse(f.body[0].value) == "len(self.pattern)"
    recs.append(_rec("MeshPatt.__len__:closed-world[len = len(pattern)]", "closed-world", "MeshPatt.__len__", "discharged" if ok else "undecided",
                     "len(mesh) is modelled as len(mesh.pattern)" if ok else "body is no longer `return len(self.pattern)`: the model of len() on mesh patterns must be revisited"))
    return recs


def field_is_frozenset(repo_index, cls, attr):
    """Representation invariant used by the C08 model: `self.<attr>` of a <cls> object is a FROZENSET (its hash
    is a function of the value, it cannot be changed through an alias).  Every store to an attribute of that
    name anywhere in the package must assign `frozenset(...)` or `X if isinstance(X, frozenset) else <good>`.
    A store that keeps another container type as it is (e.g. isinstance(X, (set, frozenset))) is refuted; an
    unrecognised shape is undecided."""
    name = f"{cls}:field-invariant[{attr} is a frozenset]"

    def classify(e):
        if isinstance(e, ast.Call) and isinstance(e.func, ast.Name) and e.func.id == "frozenset":
            return "good", ""
        if isinstance(e, ast.IfExp):
            t = e.test
            if (isinstance(t, ast.Call) and isinstance(t.func, ast.Name) and t.func.id == "isinstance" and len(t.args) == 2
                    and ast.unparse(t.args[0]) == ast.unparse(e.body)):
                kinds = [ast.unparse(x) for x in (t.args[1].elts if isinstance(t.args[1], ast.Tuple) else [t.args[1]])]
                other = [k for k in kinds if k != "frozenset"]
                if other:
                    return "bad", f"`{ast.unparse(e)}` keeps a {'/'.join(other)} as it is (unhashable or mutable through the caller's alias)"
                return classify(e.orelse)
            return "unknown", ast.unparse(e)
        return "unknown", ast.unparse(e)

    stores = []
    for q, f in repo_index.funcs.items():
        for node in ast.walk(f.node):
            tgts = []
            if isinstance(node, ast.Assign):
                tgts = [(t, node.value) for t in node.targets]
            elif isinstance(node, ast.AnnAssign) and node.value is not None:
                tgts = [(node.target, node.value)]
            elif isinstance(node, ast.AugAssign):
                tgts = [(node.target, None)]
            for t, v in tgts:
                if isinstance(t, ast.Attribute) and t.attr == attr:
                    stores.append((q, v))
    if not stores:
        return [_rec(name, "field-invariant", cls, "undecided", f"no store to .{attr} found (representation changed?)")]
    bad = []
    unknown = []
    for q, v in stores:
        kind, note = ("unknown", "augmented assignment") if v is None else classify(v)
        if kind == "bad":
            bad.append(f"{q}: {note}")
        elif kind == "unknown":
            unknown.append(f"{q}: {note}")
    if bad:
        return [_rec(name, "field-invariant", cls, "refuted", "; ".join(bad))]
    if unknown:
        return [_rec(name, "field-invariant", cls, "undecided", "unrecognised store shape: " + "; ".join(unknown))]
    return [_rec(name, "field-invariant", cls, "discharged", f"{len(stores)} store(s), each assigns frozenset(...) or keeps an existing frozenset")]


def m_language(repo_index):
    """C15: the literal transition table of make_dfa_for_m against the DEFINITION of the
    pin-sequence language M (words over U, D, L, R in which vertical and horizontal letters
    alternate).  Decided exactly by a product construction over the table read from the AST."""
    name = "PinWords.make_dfa_for_m:language-is-M"
    f = repo_index.funcs.get("PinWords.make_dfa_for_m")
    if f is None:
        return [_rec(name, "language", "PinWords.make_dfa_for_m", "undecided", "function not found")]
    call = None
    for node in ast.walk(f.node):
        if isinstance(node, ast.Call) and isinstance(node.func, ast.Name) and node.func.id == "DFA":
            call = node
    if call is None:
        return [_rec(name, "language", f.qualname, "undecided", "no literal DFA(...) constructor in the body")]
    consts = {}
    tree = repo_index.modules.get(f.module)
    for n in tree.body:
        if isinstance(n, ast.Assign) and len(n.targets) == 1 and isinstance(n.targets[0], ast.Name) and isinstance(n.value, ast.Constant):
            consts[n.targets[0].id] = n.value.value

    def lit(e):
        if isinstance(e, ast.Call) and isinstance(e.func, ast.Name) and e.func.id in ("frozenset", "set") and len(e.args) == 1:
            return set(lit(e.args[0]))
        if isinstance(e, ast.Name) and e.id in consts:
            return consts[e.id]
        return ast.literal_eval(e)

    try:
        kw = {k.arg: lit(k.value) for k in call.keywords}
        trans, init, finals, sigma = kw["transitions"], kw["initial_state"], set(kw["final_states"]), set(kw["input_symbols"])
    except Exception as exc:  # noqa: BLE001
        return [_rec(name, "language", f.qualname, "undecided", f"table is not a literal: {exc}")]
    if sigma != set("ULDR"):
        return [_rec(name, "language", f.qualname, "refuted", f"alphabet is {sorted(sigma)}, not U, L, D, R")]
    # spec automaton: state = kind of the last letter ('' start, 'V', 'H') or dead
    def spec_step(st, ch):
        kind = "V" if ch in "UD" else "H"
        return "dead" if st == "dead" or st == kind else kind

    seen = {(init, "")}
    todo = [(init, "", "")]
    while todo:
        q, sp, word = todo.pop(0)
        if (q in finals) != (sp != "dead"):
            return [_rec(name, "language", f.qualname, "refuted",
                         f"distinguishing word {word!r}: the automaton {'accepts' if q in finals else 'rejects'} it, "
                         f"the definition of M says {'member' if sp != 'dead' else 'not a member'}")]
        for ch in "ULDR":
            try:
                q2 = trans[q][ch]
            except KeyError:
                return [_rec(name, "language", f.qualname, "refuted", f"transition table is partial at state {q}, letter {ch}")]
            nxt = (q2, spec_step(sp, ch))
            if nxt not in seen:
                seen.add(nxt)
                todo.append((q2, nxt[1], word + ch))
    return [_rec(name, "language", f.qualname, "discharged", f"product construction over {len(seen)} reachable state pairs: language equals M exactly")]


def run_for(prop):
    """Structural obligations serving a property."""
    t0 = time.time()
    idx = extract.Repo()
    recs = []
    if prop == "C07":
        recs += LockAnalysis(idx).run()
    if prop == "C02":
        # sequential contracts of C02 assume the writers are serialised (O2) and that a suspended iterator
        # does not block later queries (O5: "iterators that are still being consumed")
        recs += [r for r in LockAnalysis(idx).run() if ".O2-" in r["name"] or ".O5-" in r["name"]]
    if prop == "C01":
        recs += memo_attribute(idx, "Perm", "_cached_pattern_details", "_pattern_details", ["Perm.occurrences_in"])
        recs += frame_readonly(idx, "Perm.occurrences_in")
        recs += frame_readonly(idx, "Perm.left_floor_and_ceiling")
        recs += frame_readonly(idx, "Perm._pattern_details", allowed_attrs=("_cached_pattern_details",))
        recs += frame_readonly(idx, "Perm._contains")
        recs += frame_readonly(idx, "Perm.contains")
        recs += frame_readonly(idx, "Perm.avoids")
    if prop == "C08":
        recs += field_is_frozenset(idx, "MeshPatt", "shading")
    if prop == "C09":
        recs += lru_purity(idx, "Perm._to_standard")
    if prop == "C13":
        recs += memo_dict(idx, "PolyPerms", "_CACHE", "_types")
        recs += memo_dict(idx, "InsertionEncodablePerms", "_CACHE", "_insertion_encodable_properties")
    if prop == "C14":
        for q in ("PinWords.pinword_to_perm_mapping", "PinWords.perm_to_pinword_mapping", "PinWords.perm_to_strict_pinword_mapping"):
            recs += lru_purity(idx, q)
    if prop == "C15":
        recs += lru_purity(idx, "PinWords.make_dfa_for_m")
        recs += m_language(idx)
    if prop in ("C04", "C10", "C11"):
        recs += closed_world(idx)[:1]
    if prop in ("C04", "C18", "C06", "C03"):
        recs += closed_world(idx)[1:]
    ms = round((time.time() - t0) * 1000 / max(1, len(recs)), 1)
    for r in recs:
        r["ms"] = ms
    return recs


if __name__ == "__main__":
    import sys

    for p in sys.argv[1:] or ["C01", "C02", "C07", "C09", "C13", "C14", "C15", "C04"]:
        for r in run_for(p):
            print(p, r["status"].upper(), r["name"], "--", r["note"][:200])
