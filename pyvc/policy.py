"""Verdict policy of DESIGN.md section 5 for the deductive layer.

discharged  -> counted
undecided   -> UNDECIDED line on stderr, never a violation
vacuous     -> (cover unsat) the contract's precondition is contradictory on that path:
               machinery error, reported as undecided + loud warning
refuted     -> the counter-model is concretised and REPLAYED against the real function
               under its run-time contract; if that fails: violation with that input.
               Otherwise a directed search around the model (all inputs of the model's
               sizes +-1); if that finds a failing input: violation with that input.
               Otherwise: `refuted_unreplayed` (UNDECIDED) for properties decided by the
               bounded layer, `no-failing-input-found` violation for properties decided
               by the deductive layer (D_DECIDED).
"""
import itertools
import os
import sys

from vlib import codec, core, repo

from . import driver, dsl

D_DECIDED = {"C08"}  # properties whose deciding layer is the deductive one


# --------------------------------------------------------------- run-time side
def resolve(qualname):
    """The real callable in /repo for a contracted qualified name."""
    import importlib

    repo.import_permuta()
    if ":" in qualname:
        mod, fn = qualname.split("@")[0].split(":")
        return getattr(importlib.import_module(mod), fn)
    qualname = qualname.split("@")[0]
    cls, meth = qualname.split(".", 1)
    idx = driver.repo_index()
    module = idx.classes[cls]["module"]
    klass = getattr(importlib.import_module(module), cls)
    return getattr(klass, meth)


def _params_of(qualname):
    if qualname.startswith("lemma:"):
        return dsl.LEMMAS[qualname[6:]]["params"]
    return dsl.CONTRACTS[qualname].params


def _in_tempcwd(fn):
    import functools
    import tempfile

    @functools.wraps(fn)
    def wrapped(*a, **k):
        old = os.getcwd()
        with tempfile.TemporaryDirectory(prefix="verif_rt_") as d:
            os.chdir(d)
            try:
                return fn(*a, **k)
            finally:
                os.chdir(old)

    return wrapped


def runtime_contract(qualname, args):
    """Evaluate requires / call / ensures on real objects.  -> None if the precondition
    does not hold (input not applicable), else (ok: bool, detail)."""
    c = dsl.RunCtx(resolver=resolve)
    if qualname.startswith("lemma:"):
        try:
            val = dsl.LEMMAS[qualname[6:]]["fn"](c, *args)
            if isinstance(val, list):  # a chain of induction lemmas: every item at every index of its range
                good = all(bool(it[3](j)) for it in val for j in range(it[1], it[2] + 1))
            else:
                good = bool(val)
        except Exception as exc:  # noqa: BLE001
            return False, f"raised {type(exc).__name__}: {exc}"
        return good, "lemma evaluated on the real functions"
    K = dsl.CONTRACTS[qualname]
    if K.requires and not K.requires(c, *args):
        return None
    fn = resolve(qualname)
    call_args = [a for a in args]
    if list(K.params)[:1] == ["cls"]:
        call_args = call_args[1:]  # classmethod: the contract's `cls` placeholder is not passed
    if getattr(K.cls, "runtime_tempcwd", False):
        # the function may read / write files relative to the working directory (the automaton database):
        # evaluated in a fresh temporary directory, never in /verif
        fn = _in_tempcwd(fn)
    try:
        res = fn(*call_args)
        if (K.returns in ("gen", "Seq", "TupleList") or str(K.returns).startswith("Seq[")) and not isinstance(res, (list, tuple)):
            res = list(res)
        if K.returns == "CellSetGen":
            res = set(res)
        if K.returns in ("IntSetGen", "IntSet"):
            res = {getattr(v, "value", v) for v in res}  # Enum members by their integer value
    except Exception as exc:  # noqa: BLE001
        if K.raises is not None and K.raises(c, *args):
            want = K.raises_type
            names = (want,) if isinstance(want, str) else tuple(want or ())
            if not names or type(exc).__name__ in names:
                return True, f"documented {type(exc).__name__}"
        return False, f"raised {type(exc).__name__}: {exc}"
    if K.raises is not None and K.raises(c, *args):
        return False, f"documented exception not raised, returned {res!r}"
    if K.ensures is None:
        return True, "no postcondition"
    if getattr(K.cls, "ghost_run", None) is not None:
        c._gout = K.cls.ghost_run(*args, res)  # the ghost outputs computed from their definition
    good = bool(K.ensures(c, *args, res))
    if good and K.derived is not None:
        good = bool(K.derived(c, *args, res))
    oracle = getattr(K.cls, "runtime_oracle", None)
    if good and oracle is not None:
        # definition-level oracle for the parts of the postcondition that mention ghost locals
        good = bool(oracle(*args, res))
    return good, f"result {codec.enc(res) if not isinstance(res, (bool, int)) else res!r}"


@core.check("D.runtime")
def d_runtime(item):
    """The deductive contracts evaluated at run time on the real function (same text,
    RunCtx): cross-check of the contracts themselves and bounded stand-in."""
    qualname, args = item
    driver.load_contracts()
    out = runtime_contract(qualname, list(args))
    if out is None:
        return core.ok(False)
    good, detail = out
    if not good:
        return core.bad("the contract's postcondition", detail, f"run-time contract of {qualname}")
    return core.ok(True)


def domain(sort, quick=True):
    from vlib import domains as D

    if sort.endswith("?"):
        return [None] + domain(sort[:-1], quick)
    if sort == "Perm":
        return D.perms_upto(4 if quick else 5)
    if sort == "int":
        return list(range(-6, 7))
    if sort == "nat":
        return list(range(0, 7))
    if sort == "bool":
        return [False, True]
    if sort == "Str":
        import itertools as _it

        alpha = "1234ULDRx"
        return ["".join(w) for k_ in range(0, 4 if quick else 5) for w in _it.product(alpha, repeat=k_)]
    if sort in ("Mesh", "MeshPatt"):
        import random

        rng = random.Random(7)
        ms = list(D.all_mesh(0)) + list(D.all_mesh(1))
        m2 = list(D.all_mesh(2))
        return ms + rng.sample(m2, 60 if quick else 300) + list(D.sampled_mesh(rng, 3, 3 if quick else 20, boundary=False))
    if sort == "none":
        return [None]
    if sort.startswith("Obj:Basis") or sort.startswith("Obj:Av"):
        from vlib import domains as D

        ns = repo.namespace()
        ps = D.perms_upto(4, 2)
        import random

        rng = random.Random(13)
        bases = [ns["Basis"](p) for p in ps[:8]] + [ns["Basis"](*rng.sample(ps, 2)) for _ in range(10 if quick else 40)]
        bases += [ns["Basis"](ns["Perm"]((0, 1, 2)), ns["Perm"]((2, 1, 0))), ns["Basis"](ns["Perm"]((1, 3, 0, 2)), ns["Perm"]((2, 0, 3, 1)))]
        return [ns["Av"](b) for b in bases] if sort.startswith("Obj:Av") else bases
    if sort.startswith("Perm*"):
        from vlib import domains as D

        k = int(sort[5:])
        return [tuple(t) for t in itertools.product(D.perms_upto(3), repeat=k)]
    if sort == "Cell":
        return [(x, y) for x in range(0, 4) for y in range(0, 4)]
    if sort == "Seq":
        return [tuple(t) for n in range(0, 4) for t in itertools.product(range(-1, 3), repeat=n)]
    if sort == "IntList":
        # lists of distinct integers (windows of permutations are like that), and short ones with repeats
        out = [list(t) for n in range(0, 5) for t in itertools.permutations(range(0, 6), n)]
        out += [list(t) for n in range(2, 4) for t in itertools.product(range(-1, 2), repeat=n)]
        return out
    raise KeyError(sort)


def runtime_inputs(qualname, quick=True, cap=4000):
    # a contract / lemma may bring its own run-time domain (dependent arguments) and its own cap
    # (expensive postconditions): attributes runtime_domain(quick) -> iterable of argument tuples,
    # runtime_cap (int)
    holder = dsl.LEMMAS[qualname[6:]]["fn"] if qualname.startswith("lemma:") else getattr(dsl.CONTRACTS.get(qualname), "cls", None)
    own_cap = getattr(holder, "runtime_cap", None)
    if own_cap is not None:
        cap = min(cap, own_cap if quick else own_cap * 4)
    own = getattr(holder, "runtime_domain", None)
    if own is not None:
        import random

        items = [tuple(a) for a in own(quick)]
        if len(items) > cap:
            random.Random(11).shuffle(items)
            items = items[:cap]
        return [(qualname, a) for a in items]
    try:
        doms = [domain(s, quick) for s in _params_of(qualname).values()]
    except KeyError:
        return []
    total = 1
    for d in doms:
        total *= len(d)
    combos = itertools.product(*doms)
    if total > cap:
        import random

        rng = random.Random(11)
        combos = [tuple(rng.choice(d) for d in doms) for _ in range(cap)]
    return [(qualname, tuple(a)) for a in combos]


# ------------------------------------------------------------------- replay
def concretise(qualname, model):
    """Counter-model -> real arguments (or None when the model does not describe a
    well-typed input, e.g. a mid-loop state)."""
    ns = repo.namespace()
    args = []
    for name, sort in _params_of(qualname).items():
        base = sort.rstrip("?")
        if base == "Perm":
            v = model.get(name)
            if not isinstance(v, list) or sorted(v) != list(range(len(v))):
                return None
            args.append(ns["Perm"](v))
        elif base in ("int", "nat"):
            v = model.get(name)
            if not isinstance(v, int):
                return None
            args.append(v)
        elif base == "bool":
            args.append(bool(model.get(name)))
        elif base == "Cell":
            v = model.get(name)
            if not isinstance(v, (tuple, list)) or len(v) != 2:
                return None
            args.append(tuple(v))
        elif base in ("Seq", "IntList"):
            v = model.get(name)
            if not isinstance(v, list):
                return None
            args.append(tuple(v) if base == "Seq" else list(v))
        elif base == "none":
            args.append(None)
        elif base.startswith("Perm*"):
            items = []
            for i in range(int(base[5:])):
                v = model.get(f"{name}{i}")
                if not isinstance(v, list) or sorted(v) != list(range(len(v))):
                    return None
                items.append(ns["Perm"](v))
            args.append(tuple(items))
        elif base in ("Mesh", "MeshPatt"):
            p = model.get(name + ".pattern")
            sh = model.get(name + ".shading")
            if not isinstance(p, list) or sorted(p) != list(range(len(p))) or not isinstance(sh, list):
                return None
            args.append(ns["MeshPatt"](ns["Perm"](p), sh))
        else:
            return None
    return args


def replay_refuted(qualname, rec):
    """-> (failing_args or None)."""
    model = rec.get("model") or {}
    args = concretise(qualname, model)
    tried = 0
    if args is not None:
        out = runtime_contract(qualname, args)
        tried += 1
        if out is not None and not out[0]:
            return args, out[1], tried
    # directed search: every input of the contract's run-time domain (small sizes)
    for _q, a in runtime_inputs(qualname, quick=True, cap=3000):
        out = runtime_contract(qualname, list(a))
        tried += 1
        if out is not None and not out[0]:
            return list(a), out[1], tried
    return None, None, tried


# --------------------------------------------------------------------- main
def run(ctx, prop):
    names = driver.contracts_for(prop)
    structural = _structural(ctx, prop)
    if not names:
        ctx.notes["deductive"] = {"functions": 0, "structural_obligations": structural} if structural else "no deductive contract serves this property yet"
        return
    quick = ctx.tier == "quick"
    # (1) the same contracts at run time on the real code
    items = []
    for q in names:
        items += runtime_inputs(q, quick, cap=1200 if quick else 6000)
    if items:
        ctx.run("D.runtime", items, chunk=200,
                rule="deductive contracts evaluated at run time (RunCtx) on the real functions over small enumerated domains")
    # (2) obligations from the current AST
    results = driver.run_functions(names)
    n_disc = n_all = 0
    for q, desc, recs in results:
        ctx.functions_under_contract.append(desc)
        for r in recs:
            n_all += 1
            status = r["status"]
            if status == "vacuous":
                print(f"WARNING vacuous obligation {r['name']}: precondition/path contradictory", file=sys.stderr)
                r["status"] = status = "undecided"
            if status == "discharged":
                n_disc += 1
            elif status == "undecided":
                print(f"UNDECIDED obligation={r['name']} {str(r.get('note', r.get('backend', '')))[:200]}", file=sys.stderr)
            elif status == "refuted":
                args, detail, tried = replay_refuted(q, r)
                if args is not None:
                    ctx.failures.setdefault(f"D:{r['name']}", []).append({
                        "expected": f"obligation {r['name']} (postcondition of {q})",
                        "actual": detail,
                        "note": f"counter-model {r.get('model')} of the verifier replayed on the real code ({tried} replay call(s))",
                        "input": codec.enc((q, tuple(args))),
                    })
                elif prop in D_DECIDED:
                    ctx.violation_noinput(r["name"], f"refuted by {r['backend']}; model {r.get('model')}; {tried} replay attempts found no failing input")
                else:
                    r["status"] = "refuted_unreplayed"
                    print(f"UNDECIDED obligation={r['name']} refuted by the solver (model {r.get('model')}) but no failing input found in {tried} replays", file=sys.stderr)
        ctx.add_obligations(recs)
    ctx.assumptions += [
        "D layer: pyvc VC generator + z3 5.1 / cvc5 are trusted; Python ints are mathematical; builtins as axiomatised in pyvc/builtins_model.py",
        "D layer: 'filter = subsequence' axioms (cnt/sel) for filtered comprehensions; ghost inverse witnesses for permutation-hood",
        "D layer: termination is not verified",
    ]
    # what this very run relied on: named proof rules, assumed contracts of callees, derived facts
    rules, assumed, derived = set(), set(), set()
    for _q, desc, _recs in results:
        rules |= set(desc.get("rules_used", []))
        for callee in desc.get("callee_contracts_used", []):
            K_ = dsl.CONTRACTS.get(callee) or next((dsl.CONTRACTS[n_] for n_ in dsl.CONTRACTS if n_.split("@")[0] == callee), None)
            if K_ is not None and K_.assumed:
                assumed.add(callee)
            if K_ is not None and K_.derived is not None:
                derived.add(f"{K_.derived_rule} ({callee})")
    ctx.assumptions += [f"D rule used: {r_}" for r_ in sorted(rules)]
    ctx.assumptions += [f"D ASSUMED contract (function not verified; decided by the bounded layer): {a_}" for a_ in sorted(assumed)]
    ctx.assumptions += [f"D derived fact assumed by a definitional rule: {d_}" for d_ in sorted(derived)]
    ctx.notes["deductive"] = {"functions": len(names), "obligations": n_all, "discharged": n_disc}


def _structural(ctx, prop):
    """Frame / memo / ownership / closed-world obligations (pyvc.frames): a refuted one is a
    violation without an input (`no-failing-input-found`), an unrecognised shape is undecided."""
    from . import frames

    try:
        recs = frames.run_for(prop)
        if prop == "C08":
            from . import dunder

            recs += dunder.run()
    except Exception as exc:  # noqa: BLE001 - analysis bug: undecided, never a violation
        print(f"UNDECIDED structural analysis crashed: {type(exc).__name__}: {exc}", file=sys.stderr)
        return 0
    for r in recs:
        if r["status"] == "refuted":
            ctx.violation_noinput(r["name"], f"structural obligation refuted by pyvc.frames on the current AST: {r['note']}")
        elif r["status"] == "undecided":
            print(f"UNDECIDED obligation={r['name']} {r['note'][:200]}", file=sys.stderr)
    ctx.add_obligations(recs)
    if recs:
        ctx.assumptions.append("structural obligations (pyvc.frames) are syntactic all-paths conditions over the package AST; aliasing is tracked flow-insensitively")
    return len(recs)


# replay of a D failure record: the input is (qualname, args)
@core.check("D.replay")
def d_replay(item):
    return d_runtime(item)
