"""Run the deductive layer: generate obligations from /repo's current AST for every
contract serving a property, discharge them (one worker per function), apply the
verdict policy of DESIGN.md section 5."""
import importlib
import multiprocessing as mp
import os
import pkgutil
import time
import traceback

from . import dsl, engine, extract, solve
from .values import Unsupported

_REPO = None


def load_contracts():
    import contracts as pkg

    for m in pkgutil.iter_modules(pkg.__path__):
        importlib.import_module(f"contracts.{m.name}")
    return dsl.CONTRACTS


def repo_index():
    global _REPO
    if _REPO is None:
        _REPO = extract.Repo()
    return _REPO


def variants_of(K):
    """Optional parameters ("int?") are verified once per shape."""
    opt = [n for n, s in K.params.items() if s.endswith("?")]
    if not opt:
        return [None]
    out = [{}]
    for n in opt:
        base = K.params[n][:-1]
        out = [dict(v, **{n: s}) for v in out for s in (base, "none")]
    return out


def verify_lemma(name):
    t0 = time.time()
    idx = repo_index()
    load_contracts()
    lname = name[len("lemma:"):]
    eng = engine.Engine(idx)
    recs = []
    desc = {"function": name, "file": "contracts/ (lemma over contracts only)", "lines": None}
    try:
        obls = eng.verify_lemma(lname)
    except Unsupported as exc:
        return name, desc, [{"name": f"{name}:*", "kind": "generation", "function": name, "status": "undecided", "backend": "pyvc", "ms": 0.0, "note": f"Unsupported: {exc}"}]
    except Exception as exc:  # noqa: BLE001
        return name, desc, [{"name": f"{name}:*", "kind": "generation", "function": name, "status": "undecided", "backend": "pyvc", "ms": 0.0,
                             "note": f"generator error: {type(exc).__name__}: {exc}\n{traceback.format_exc(limit=4)}"}]
    for ob in obls:
        try:
            recs.append(solve.discharge(ob))
        except Exception as exc:  # noqa: BLE001
            recs.append({"name": ob.name, "kind": ob.kind, "function": name, "status": "undecided", "backend": "solver-error", "ms": 0.0, "note": str(exc)})
    desc["callee_contracts_used"] = sorted(eng.used_contracts)
    desc["rules_used"] = sorted(eng.rules_used)
    desc["seconds"] = round(time.time() - t0, 2)
    return name, desc, recs


def verify_function(qualname):
    """Worker: all obligations of one function -> list of records."""
    if qualname.startswith("lemma:"):
        return verify_lemma(qualname)
    t0 = time.time()
    idx = repo_index()
    load_contracts()
    K = dsl.CONTRACTS[qualname]
    recs = []
    F = idx.get(qualname.split('@')[0])
    desc = F.describe() if F else {"function": qualname, "file": None}
    for var in variants_of(K):
        eng = engine.Engine(idx)
        tag = "" if not var else "[" + ",".join(f"{k}={v}" for k, v in sorted(var.items())) + "]"
        try:
            obls = eng.verify(qualname, var)
        except Unsupported as exc:
            recs.append({"name": f"{qualname}{tag}:*", "kind": "generation", "function": qualname, "status": "undecided",
                         "backend": "pyvc", "ms": 0.0, "note": f"Unsupported: {exc}"})
            continue
        except Exception as exc:  # noqa: BLE001 - generator bug: undecided, never a violation
            recs.append({"name": f"{qualname}{tag}:*", "kind": "generation", "function": qualname, "status": "undecided",
                         "backend": "pyvc", "ms": 0.0, "note": f"generator error: {type(exc).__name__}: {exc}\n{traceback.format_exc(limit=4)}"})
            continue
        slow = 0
        if tag:
            for ob in obls:
                ob.name = ob.name.replace(":", tag + ":", 1)
        if len(obls) > 100:
            recs.extend(_parallel_discharge(obls, qualname))
            obls = []
        for ob in obls:
            if slow >= 3 and ob.expect != "sat":
                recs.append({"name": ob.name, "kind": ob.kind, "function": qualname, "status": "undecided", "backend": "skipped",
                             "ms": 0.0, "note": "solver budget of this function exhausted by earlier undecided obligations"})
                continue
            try:
                rec = solve.discharge(ob)
                if rec["status"] == "undecided":
                    slow += 1
            except Exception as exc:  # noqa: BLE001
                rec = {"name": ob.name, "kind": ob.kind, "function": qualname, "status": "undecided", "backend": "solver-error", "ms": 0.0, "note": str(exc)}
            recs.append(rec)
        desc.setdefault("callee_contracts_used", sorted(eng.used_contracts))
        desc["rules_used"] = sorted(set(desc.get("rules_used", [])) | set(eng.rules_used))
        desc["inlined"] = sorted(set(desc.get("inlined", [])) | set(eng.inlined))
        # vacuity guard: a function whose precondition is contradictory has NO feasible return path.
        # Individual infeasible paths (mutually exclusive branch combinations) are normal.
        covers = [r for r in recs if r["kind"] == "cover" and r["name"].startswith(qualname.split("@")[0] + tag + ":")]
        if covers and any(r["status"] == "discharged" for r in covers):
            for r in covers:
                if r["status"] == "vacuous":
                    r["status"] = "discharged"
                    r["note"] = "infeasible path (its obligations hold trivially); other return paths of the function are feasible"
    # CPython differential check of the encoder on this very function (DESIGN section 10)
    try:
        from . import policy, selftest

        import random as _r

        inputs = [a for (_q, a) in policy.runtime_inputs(qualname, quick=True, cap=2000)]
        _r.Random(3).shuffle(inputs)
        tally = {"agree": 0, "disagree": 0, "unsupported": 0}
        first_bad = None
        for a in inputs[: int(os.environ.get("PYVC_DIFF_N", "10"))]:
            verdict, detail = selftest.differential(qualname, list(a))
            tally[verdict] += 1
            if verdict == "disagree" and first_bad is None:
                first_bad = f"{a!r}: {detail[:200]}"
        desc["encoder_vs_cpython"] = tally
        if first_bad is not None:
            for r in recs:
                if r["status"] == "discharged":
                    r["status"] = "undecided"
                    r["note"] = "ENCODER DISAGREES WITH CPYTHON on " + first_bad
    except Exception as exc:  # noqa: BLE001
        desc["encoder_vs_cpython"] = f"not run: {type(exc).__name__}: {exc}"
    desc["seconds"] = round(time.time() - t0, 2)
    return qualname, desc, recs


def _parallel_discharge(obls, qualname, procs=None):
    """A function with hundreds of obligations: plain fork/join over interleaved shares (works inside
    a daemonic pool worker, where multiprocessing cannot start children).  Each share keeps the
    per-function budget rule (after 2 undecided obligations the rest of the share is skipped)."""
    import pickle

    procs = procs or int(os.environ.get("PYVC_INNER_PROCS", "8"))
    budget = int(os.environ.get("PYVC_BUDGET", "2"))
    pipes = []
    for r in range(procs):
        rd, wr = os.pipe()
        pid = os.fork()
        if pid == 0:
            os.close(rd)
            out = []
            slow = 0
            try:
                for i in range(r, len(obls), procs):
                    ob = obls[i]
                    if slow >= budget and ob.expect != "sat":
                        out.append((i, {"name": ob.name, "kind": ob.kind, "function": qualname, "status": "undecided", "backend": "skipped", "ms": 0.0,
                                        "note": "solver budget of this function exhausted by earlier undecided obligations"}))
                        continue
                    try:
                        rec = solve.discharge(ob)
                        if rec["status"] == "undecided":
                            slow += 1
                    except Exception as exc:  # noqa: BLE001
                        rec = {"name": ob.name, "kind": ob.kind, "function": qualname, "status": "undecided", "backend": "solver-error", "ms": 0.0, "note": str(exc)}
                    out.append((i, rec))
                with os.fdopen(wr, "wb") as fh:
                    pickle.dump(out, fh)
            finally:
                os._exit(0)
        os.close(wr)
        pipes.append((pid, rd))
    got = {}
    for pid, rd in pipes:
        with os.fdopen(rd, "rb") as fh:
            data = fh.read()
        os.waitpid(pid, 0)
        try:
            for i, rec in pickle.loads(data):
                got[i] = rec
        except Exception:  # noqa: BLE001 - a share died: its obligations are undecided
            pass
    out = []
    for i, ob in enumerate(obls):
        out.append(got.get(i) or {"name": ob.name, "kind": ob.kind, "function": qualname, "status": "undecided", "backend": "solver-error", "ms": 0.0, "note": "discharge worker died"})
    return out


def run_functions(names, procs=None):
    procs = procs or max(1, min(int(os.environ.get("VERIF_NCPU", "16")), os.cpu_count() or 1))
    if len(names) <= 1 or procs == 1:
        return [verify_function(n) for n in names]
    ctx = mp.get_context("fork")
    with ctx.Pool(min(procs, len(names))) as pool:
        return pool.map(verify_function, names, chunksize=1)


def contracts_for(prop):
    load_contracts()
    out = sorted(n for n, K in dsl.CONTRACTS.items() if prop in K.props and not K.assumed)
    out += sorted(f"lemma:{n}" for n, L in dsl.LEMMAS.items() if prop in L["props"])
    return out


def run_property(ctx, prop):
    """Called at the end of props/cXX.run: adds the deductive results to ctx."""
    from . import policy

    policy.run(ctx, prop)


if __name__ == "__main__":
    import sys

    from vlib import repo

    repo.import_permuta()
    load_contracts()
    names = sys.argv[1:] or (sorted(n for n, K in dsl.CONTRACTS.items() if not K.assumed) + sorted(f"lemma:{n}" for n in dsl.LEMMAS))
    bad = 0
    for q, desc, recs in run_functions(names):
        print(f"== {q}  ({desc.get('file')}:{desc.get('lines')})  {desc.get('seconds')}s")
        for r in recs:
            mark = {"discharged": "ok ", "refuted": "REFUTED", "undecided": "?? ", "vacuous": "VACUOUS"}[r["status"]]
            extra = r.get("model") or r.get("note", "")
            print(f"   {mark} {r['name']:<70} {r['backend']:<16} {r['ms']:>8.1f} ms  {str(extra)[:160]}")
            bad += r["status"] != "discharged"
    print("not discharged:", bad)
