"""Mechanical extraction of the functions under contract from /repo's working tree.

Every run re-parses /repo/permuta/**/*.py (or $VERIF_REPO) with `ast`; a contracted
qualified name ("Perm.inverse", "permuta.permutils.finite:is_finite", ...) is resolved
to its FunctionDef.  The verified text is that AST.

Dropped by extraction, exactly: docstrings, type annotations, comments, `print(...)`
expression statements (no-ops), decorators other than classmethod / staticmethod /
property / functools.lru_cache.  Nothing else is rewritten.
"""
import ast
import hashlib
import os

from vlib import repo

KEPT_DECORATORS = {"classmethod", "staticmethod", "property", "lru_cache", "abstractmethod"}


class Func:
    def __init__(self, qualname, module, cls, node, path):
        self.qualname = qualname
        self.module = module
        self.cls = cls
        self.node = node
        self.path = path
        self.decorators = [_dec_name(d) for d in node.decorator_list]
        self.kind = (
            "classmethod" if "classmethod" in self.decorators else "staticmethod" if "staticmethod" in self.decorators else "function" if cls is None else "method"
        )
        self.body = _strip(node.body)
        self.params = [a.arg for a in node.args.args]
        self.vararg = node.args.vararg.arg if node.args.vararg else None
        self.kwarg = node.args.kwarg.arg if node.args.kwarg else None
        self.defaults = node.args.defaults
        self.sha = hashlib.sha256(ast.dump(ast.Module(body=self.body, type_ignores=[])).encode()).hexdigest()[:16]
        self.lines = (node.lineno, node.end_lineno)

    def describe(self):
        rel = os.path.relpath(self.path, repo.REPO)
        return {"function": self.qualname, "file": rel, "lines": list(self.lines), "sha256_16": self.sha}


def _dec_name(d):
    if isinstance(d, ast.Call):
        d = d.func
    if isinstance(d, ast.Attribute):
        return d.attr
    if isinstance(d, ast.Name):
        return d.id
    return ast.dump(d)


def _strip(body):
    """Remove the docstring and print(...) statements."""
    out = []
    for i, st in enumerate(body):
        if i == 0 and isinstance(st, ast.Expr) and isinstance(st.value, ast.Constant) and isinstance(st.value.value, str):
            continue
        if isinstance(st, ast.Expr) and isinstance(st.value, ast.Call) and isinstance(st.value.func, ast.Name) and st.value.func.id == "print":
            continue
        if isinstance(st, ast.Expr) and isinstance(st.value, ast.Constant) and isinstance(st.value.value, str):
            continue  # stray string statements used as comments (bisc_subfunctions)
        out.append(st)
    return out


class Repo:
    """Index of every class and function of the package."""

    def __init__(self, root=None):
        self.root = root or os.path.join(repo.REPO, "permuta")
        self.funcs = {}  # qualname -> Func ("Class.meth" and "module:func")
        self.classes = {}  # class name -> dict(bases=[names], node, module, methods, aliases)
        self.modules = {}  # module name -> ast.Module
        self.sources = {}
        for dirpath, _dirs, files in os.walk(self.root):
            for fn in sorted(files):
                if not fn.endswith(".py"):
                    continue
                path = os.path.join(dirpath, fn)
                rel = os.path.relpath(path, os.path.dirname(self.root))[:-3].replace(os.sep, ".")
                if rel.endswith(".__init__"):
                    rel = rel[: -len(".__init__")]
                with open(path) as fh:
                    src = fh.read()
                tree = ast.parse(src, filename=path)
                self.modules[rel] = tree
                self.sources[rel] = path
                self._index(rel, tree, path)

    def _index(self, module, tree, path):
        for node in tree.body:
            if isinstance(node, (ast.FunctionDef,)):
                self.funcs[f"{module}:{node.name}"] = Func(f"{module}:{node.name}", module, None, node, path)
            elif isinstance(node, ast.ClassDef):
                bases = [_dec_name(b) if not isinstance(b, ast.Subscript) else _dec_name(b.value) for b in node.bases]
                info = {"bases": bases, "node": node, "module": module, "methods": {}, "aliases": {}, "path": path}
                self.classes[node.name] = info
                for item in node.body:
                    if isinstance(item, ast.FunctionDef):
                        f = Func(f"{node.name}.{item.name}", module, node.name, item, path)
                        self.funcs[f.qualname] = f
                        info["methods"][item.name] = f
                    elif isinstance(item, ast.Assign) and len(item.targets) == 1 and isinstance(item.targets[0], ast.Name) and isinstance(item.value, ast.Name):
                        info["aliases"][item.targets[0].id] = item.value.id

    def get(self, qualname):
        f = self.funcs.get(qualname)
        if f is None and "." in qualname and ":" not in qualname:
            cls, meth = qualname.split(".", 1)
            info = self.classes.get(cls)
            if info and meth in info["aliases"]:
                return self.get(f"{cls}.{info['aliases'][meth]}")
        return f

    def mro(self, cls):
        """Linearisation good enough for single inheritance chains + abc mixins."""
        out = []
        todo = [cls]
        while todo:
            c = todo.pop(0)
            if c in out or c not in self.classes:
                continue
            out.append(c)
            todo = self.classes[c]["bases"] + todo if False else todo + self.classes[c]["bases"]
        return out

    def resolve_method(self, cls, name):
        for c in self.mro(cls):
            info = self.classes[c]
            if name in info["methods"]:
                return info["methods"][name]
            if name in info["aliases"]:
                tgt = info["aliases"][name]
                if tgt in info["methods"]:
                    return info["methods"][tgt]
        return None

    def subclasses(self, cls):
        return [c for c in self.classes if cls in self.mro(c) and c != cls]
