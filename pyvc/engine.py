"""Verification-condition generator: symbolic execution of the real function AST
against its sidecar contract.

* paths are enumerated (every `if` on a symbolic condition forks);
* loops are cut at the head with the contract's invariant for that loop ordinal:
  inv-init, havoc of the loop-carried variables, assume inv & guard, one body
  execution, inv-step; after the loop: assume inv at the end & not guard;
* calls to contracted functions use the callee's contract only (pre@callsite
  obligation, fresh result, assumed postcondition);
* every subscript gets an index-bounds obligation, every `assert` an obligation,
  a path ending in `raise` must be allowed by the contract's `raises` clause;
* comprehensions / generator expressions get their direct logical meaning.

Anything outside the subset raises Unsupported: the function's obligations are then
reported undecided.
"""
import ast

import z3

from . import dsl
from .values import (
    NONE,
    B,
    BagV,
    BoolV,
    IntV,
    ListV,
    NoneV,
    ObjV,
    SeqV,
    SetV,
    TupV,
    Unsupported,
    V,
    Z,
    fresh,
    fresh_fun,
    veq,
    vite,
    QUO,
    REM,
    divmod_axiom,
    TUP,
    TID,
    TupListV,
    as_T,
    from_T,
    CLT,
    TEL,
    TLEN,
    clt_axioms,
)


class Obligation:
    def __init__(self, name, kind, func, hyps, goal, expect="valid", model_vars=None, size_terms=None):
        self.name = name
        self.kind = kind
        self.func = func
        self.hyps = list(hyps)
        self.goal = goal
        self.expect = expect  # 'valid' (hyps => goal) | 'sat' (cover: hyps satisfiable)
        self.model_vars = model_vars or {}
        self.size_terms = size_terms or []
        self.definitional = {}


class _PyRaise(Exception):
    def __init__(self, exc):
        self.exc = exc


class _ForkNeeded(Exception):
    def __init__(self, cond):
        self.cond = cond


def str_literal(v):
    """a string constant = the sequence of its character codes"""
    codes = [ord(ch) for ch in v]

    def at(i, codes=codes):
        s_ = z3.simplify(Z(i))
        if z3.is_int_value(s_) and 0 <= s_.as_long() < len(codes):
            return IntV(codes[s_.as_long()])
        if not codes:
            return IntV(0)
        out = z3.IntVal(codes[-1])
        for k_ in range(len(codes) - 2, -1, -1):
            out = z3.If(Z(i) == k_, codes[k_], out)
        return IntV(out)

    return SeqV(len(codes), at, "str", {"literal": v})


class FunV(V):
    def __init__(self, node, env):
        self.node = node
        self.env = env


class State:
    def __init__(self, env=None, pc=None):
        self.env = env or {}
        self.pc = pc or []
        self.decided = {}

    def fork(self):
        env = {k: (v.copy() if isinstance(v, (ListV, TupListV)) else v) for k, v in self.env.items()}
        out = State(env, list(self.pc))
        out.decided = dict(self.decided)
        return out

    def assume(self, f):
        f = B(f)
        if not z3.is_true(f):
            self.pc.append(f)
            par = getattr(self, "parent", None)
            if par is not None:
                # a scratch state of the SAME program point instance (unrolled element, no bound
                # variable): the fact also holds in the enclosing state, under this state's extra guards
                extra = [g for g in self.pc[self.base_len:-1]]
                par.assume(z3.Implies(z3.And(extra), f) if extra else f)

    def child(self, forward):
        out = State(dict(self.env), list(self.pc))
        out.decided = dict(self.decided)
        if forward:
            out.parent = self
            out.base_len = len(self.pc)
        return out


def _retract_guards(st, saved, guards):
    """Remove the temporary guards pushed since `saved`, keep every other fact that was assumed in
    the meantime, conditioned on the guards that were active."""
    added = st.pc[saved:]
    del st.pc[saved:]
    gids = {g.get_id() for g in guards}
    active = []
    for f in added:
        if f.get_id() in gids:
            active.append(f)
        else:
            st.pc.append(z3.Implies(z3.And(active), f) if active else f)


class _NS:
    """Attribute view of the environment for invariants: st.result, st.self ..."""

    def __init__(self, env):
        object.__setattr__(self, "_env", env)

    def __getattr__(self, name):
        env = object.__getattribute__(self, "_env")
        if name in env:
            return env[name]
        raise Unsupported(f"invariant refers to local '{name}' which does not exist (renamed?)")


MUTATORS = {"append", "extend", "add", "update", "pop", "remove", "clear", "insert", "sort", "reverse", "appendleft", "popleft", "rotate", "setdefault"}


def assigned_names(stmts):
    """Names (re)bound or mutated in a statement list (syntactic)."""
    out = set()
    for node in ast.walk(ast.Module(body=list(stmts), type_ignores=[])):
        if isinstance(node, (ast.Assign, ast.AugAssign, ast.AnnAssign)):
            targets = node.targets if isinstance(node, ast.Assign) else [node.target]
            for t in targets:
                for sub in _bound_names(t):
                    out.add(sub)
        elif isinstance(node, (ast.For,)):
            for sub in ast.walk(node.target):
                if isinstance(sub, ast.Name):
                    out.add(sub.id)
        elif isinstance(node, ast.Call) and isinstance(node.func, ast.Attribute) and node.func.attr in MUTATORS and isinstance(node.func.value, ast.Name):
            out.add(node.func.value.id)
        elif isinstance(node, (ast.Yield, ast.YieldFrom)):
            out.add("__out__")
    return out


class Engine:
    def __init__(self, repo_index, contracts=None):
        self.repo = repo_index
        self.contracts = contracts if contracts is not None else dsl.CONTRACTS
        self.obls = []
        self.func = None
        self.contract = None
        self.loop_ordinal = 0
        self.ret_ordinal = 0
        self.cover = []
        self.used_contracts = set()
        self.inlined = set()
        self.perm_registry = []
        self.sort_registry = []
        self.filter_registry = []
        self.seed_funs = []  # unary Int functions whose axioms are triggered by f(c): seeded at skolem constants
        self.row_registry = []  # ROW functions (Int -> IntTuple) of tuple lists
        self.rules_used = set()
        self.concrete = False  # differential self-test mode: concrete inputs, loops unrolled, callees inlined
        self.definitional = {}
        self.listings = {}
        self.abstract_kinds = {}
        self.call_memo = {}
        self.ghosts = {}
        self.global_axioms = []

    def memo_tables(self):
        """class-level memo dictionaries declared by any contract (attribute names)"""
        if not hasattr(self, "_memo_tables"):
            self._memo_tables = {a for K_ in self.contracts.values() for a in getattr(K_.cls, "memo_tables", ())}
        return self._memo_tables

    def memo_attrs(self):
        """attributes declared as memo attributes by some contract (rule MEMO-ATTRIBUTE)"""
        if not hasattr(self, "_memo_attrs"):
            self._memo_attrs = {a for K_ in self.contracts.values() for a in getattr(K_.cls, "memo_attrs", ())}
        return self._memo_attrs

    # ------------------------------------------------------------ parameters
    def make_param(self, name, sort, st):
        if sort == "int":
            return IntV(fresh(name))
        if sort == "nat":
            v = fresh(name)
            st.assume(v >= 0)
            return IntV(v)
        if sort == "bool":
            return BoolV(fresh(name, "bool"))
        if sort == "none":
            return NONE
        if sort == "Perm":
            return self.fresh_perm(name, st, assume=False)
        if sort.startswith("Perm*"):
            return TupV([self.fresh_perm(f"{name}{i}", st, assume=False) for i in range(int(sort[5:]))])
        if sort == "Seq":  # arbitrary finite int sequence
            n = fresh(name + "_n")
            st.assume(n >= 0)
            F = fresh_fun(name, z3.IntSort(), z3.IntSort())
            return SeqV(n, lambda i: IntV(F(i)), "tuple", {"fun": F, "len": n})
        if sort == "IntList":
            n = fresh(name + "_n")
            st.assume(n >= 0)
            F = fresh_fun(name, z3.IntSort(), z3.IntSort())
            lv = ListV(n, lambda i: IntV(F(i)))
            return lv
        if sort in ("Mesh", "MeshPatt"):
            return self.fresh_mesh(name, st, assume=False)
        if sort in ("PattSeq", "MeshPattSeq"):
            # a list of ABSTRACT patterns: opaque ids with an uninterpreted length and (for mesh
            # patterns) truth value; pattern containment is the ghost relation LE of the contract
            kind = "Perm" if sort == "PattSeq" else "MeshPatt"
            n = fresh(name + "_n")
            st.assume(n >= 0)
            F = fresh_fun(name, z3.IntSort(), z3.IntSort())
            mk = self.abstract_pattern(kind)
            out = SeqV(n, lambda i, F=F, mk=mk: mk(F(i)), "list", {"fun": F, "len": n})
            return ListV(out.n, out._at)
        if sort.startswith("Obj:"):
            # an object of a named class whose content is opaque (only contracts/ghosts speak about it)
            parts = sort[4:].split(",")
            fields = {}
            for fdecl in parts[1:]:
                fname, fcls = fdecl.split("=")
                fields[fname] = ObjV(fcls, {"__id__": IntV(fresh(f"{name}_{fname}"))})
            fields["__id__"] = IntV(fresh(name + "_id"))
            return ObjV(parts[0], fields)
        if sort == "CellSetSeq":
            # a list of sets of cells (e.g. the candidate shadings of one classical pattern)
            n = fresh(name + "_n")
            st.assume(n >= 0)
            S3 = fresh_fun(name, z3.IntSort(), z3.IntSort(), z3.IntSort(), z3.BoolSort())

            def mk_set(r, S3=S3):
                out_ = SetV(lambda v, r=r: S3(Z(r), Z(v[0]), Z(v[1])), 2)
                return out_

            idm = fresh_fun(name + "_idx", z3.IntSort(), z3.IntSort())  # trigger-only: idx(r) names the r-th set
            self.seed_funs.append(idm)
            gx_ = fresh("gx")
            self.global_axioms.append(z3.ForAll([gx_], idm(gx_) >= 0, patterns=[idm(gx_)]))
            return SeqV(n, mk_set, "list", {"cellsets": S3, "idmark": idm})
        if sort == "Str":  # a string = the sequence of its character codes
            n = fresh(name + "_n")
            st.assume(n >= 0)
            F = fresh_fun(name, z3.IntSort(), z3.IntSort())
            return SeqV(n, lambda i: IntV(F(i)), "str", {"fun": F, "len": n})
        if sort == "opaque":
            return ObjV("opaque", {"__id__": IntV(fresh(name))})  # a value the function never inspects
        if sort == "CellSet":
            S = fresh_fun(name, z3.IntSort(), z3.IntSort(), z3.BoolSort())
            return SetV(lambda v: S(Z(v[0]), Z(v[1])), 2)
        if sort == "Cell":
            return TupV([IntV(fresh(name + "_x")), IntV(fresh(name + "_y"))])
        if sort == "IntSet":
            S = fresh_fun(name, z3.IntSort(), z3.BoolSort())
            return SetV(lambda v: S(Z(v)), 1)
        raise Unsupported(f"parameter sort {sort}")

    def abstract_pattern(self, kind):
        if kind not in self.abstract_kinds:
            plen = fresh_fun("PLEN", z3.IntSort(), z3.IntSort())
            truth = fresh_fun("PTRUTH", z3.IntSort(), z3.BoolSort())

            def mk(idt, plen=plen, truth=truth, kind=kind):
                return ObjV("AbstractPatt", {"__id__": IntV(idt), "__len__": IntV(plen(idt)), "__mk__": mk_ref[0], "__kind__": kind, "__truth__": BoolV(truth(idt))})

            mk_ref = [None]
            mk_ref[0] = mk
            self.abstract_kinds[kind] = (mk, plen, truth)
        return self.abstract_kinds[kind][0]

    def fresh_perm(self, name, st, assume=True, kind="Perm"):
        n = fresh(name + "_n")
        F = fresh_fun(name, z3.IntSort(), z3.IntSort())
        G = fresh_fun(name + "_inv", z3.IntSort(), z3.IntSort())
        p = SeqV(n, lambda i: IntV(F(i)), kind, {"ginv": (lambda v: IntV(G(Z(v)))), "fun": F, "len": n, "gfun": G})
        self.perm_registry.append((F, G, n))
        if assume:
            st.assume(dsl.perm_formula(p, p.meta["ginv"]))
        return p

    def fresh_mesh(self, name, st, assume=True, cls="MeshPatt"):
        patt = self.fresh_perm(name + "_patt", st, assume)
        S = fresh_fun(name + "_sh", z3.IntSort(), z3.IntSort(), z3.BoolSort())
        sh = SetV(lambda v: S(Z(v[0]), Z(v[1])), 2)
        sh.fun = S
        m = ObjV(cls, {"pattern": patt, "shading": sh})
        if assume:
            x, y = fresh("cx"), fresh("cy")
            st.assume(z3.ForAll([x, y], z3.Implies(S(x, y), z3.And(x >= 0, x <= patt.n, y >= 0, y <= patt.n)), patterns=[S(x, y)]))
        return m

    # ---------------------------------------------------------------- driver
    def verify(self, qualname, variant=None):
        """Generate obligations for one function (one variant of optional params)."""
        K = self.contracts[qualname]
        F = self.repo.get(qualname.split("@")[0])
        if F is None:
            raise Unsupported(f"function {qualname} not found in the repository")
        self.func, self.contract = F, K
        self.ret_ordinal = 0
        k_ord = 0
        for n_ in ast.walk(ast.Module(body=F.body, type_ignores=[])):
            if isinstance(n_, (ast.For, ast.While)):
                n_._ordinal = k_ord  # loops are numbered in source order (stable under path forking)
                k_ord += 1
        st = State()
        c = dsl.SymCtx(self)
        params = {}
        sorts = dict(K.params)
        if variant:
            sorts.update(variant)
        for name, sort in sorts.items():
            params[name] = self.make_param(name, sort, st)
        self.params = params
        self.param_sorts = sorts
        self.model_vars = {}
        for name, v in params.items():
            if isinstance(v, IntV):
                self.model_vars[name] = ("int", v.t)
            elif isinstance(v, BoolV):
                self.model_vars[name] = ("bool", v.t)
            elif isinstance(v, SeqV) and "fun" in v.meta:
                self.model_vars[name] = ("seq", v.meta["len"], v.meta["fun"])
            elif isinstance(v, TupV) and v.items and all(isinstance(x, IntV) for x in v.items):
                self.model_vars[name] = ("tuple", [x.t for x in v.items])
            elif isinstance(v, TupV) and all(isinstance(x, SeqV) and "fun" in x.meta for x in v.items):
                for i_, x in enumerate(v.items):
                    self.model_vars[f"{name}{i_}"] = ("seq", x.meta["len"], x.meta["fun"])
            elif isinstance(v, ObjV) and "pattern" in v.fields:
                pt = v.fields["pattern"]
                self.model_vars[name + ".pattern"] = ("seq", pt.meta["len"], pt.meta["fun"])
                self.model_vars[name + ".shading"] = ("cells", v.fields["shading"].fun, pt.meta["len"])
        if K.requires:
            st.assume(K.requires(c, *params.values()))
            for f in c.side:
                st.assume(f)
            c.side.clear()
        for use in getattr(K.cls, "entry_lemmas", ()) or ():
            # lemma chains (proved once as their own unit) instantiated at this function's arguments and
            # available from the first statement on (loops need them)
            lname, pick = use[0], use[1]
            only = use[2] if len(use) > 2 else None
            largs = pick(*params.values())
            self.func, self.contract = F, K  # (emit needs them; set again below)
            self.lemma_args_ok(lname, largs, st, c)
            chain = dsl.LEMMAS[lname]["fn"](c, *largs)
            self.assume_chain([it for it in chain if only is None or it[0] in only], st, top_only=True)
            self.used_contracts.add(f"lemma:{lname}")
            for f in c.side:
                st.assume(f)
            c.side.clear()
        self.pre_pc = list(st.pc)
        if K.value is not None and K.ensures is not None:
            v0 = K.value(c, *params.values())
            goal0 = K.ensures(c, *params.values(), v0)
            self.obls_pending_value = (State(dict(st.env), list(st.pc) + list(c.side)), goal0)
            c.side.clear()
        else:
            self.obls_pending_value = None
        # bind the function's own parameters
        fparams = list(F.params)
        if F.kind == "classmethod":
            st.env[fparams[0]] = ObjV("type", {"name": F.cls})
            fparams = fparams[1:]
        for pname in fparams:
            if pname in params:
                st.env[pname] = params[pname]
        if F.vararg:
            key = "*" + F.vararg
            if key in params:
                st.env[F.vararg] = params[key]
            else:
                st.env[F.vararg] = TupV([params[k] for k in params if k.startswith(F.vararg + "#")])
        if getattr(F, "kwarg", None):
            st.env[F.kwarg] = ObjV("dict", {"__id__": IntV(fresh("kwargs"))})  # **kwargs: no keyword arguments are passed by the contract's call
        for pname in fparams:
            if pname not in st.env:
                raise Unsupported(f"contract of {qualname} does not give a sort for parameter '{pname}'")
        self.is_generator = any(isinstance(n, (ast.Yield, ast.YieldFrom)) for n in ast.walk(ast.Module(body=F.body, type_ignores=[])))
        if self.is_generator:
            if K.returns == "CellSetGen":
                st.env["__out__"] = SetV(lambda v: z3.BoolVal(False), 2)
            elif K.returns == "IntSetGen":
                st.env["__out__"] = SetV(lambda v: z3.BoolVal(False), 1)
            elif K.returns == "TupleList":
                st.env["__out__"] = self.fresh_tuplist(st, empty=True)
            elif K.returns and K.returns.startswith("Seq[int*"):
                ar_ = int(K.returns[8:-1])
                st.env["__out__"] = ListV(0, lambda i, ar_=ar_: TupV([IntV(0)] * ar_))
            else:
                st.env["__out__"] = ListV(0, lambda i: IntV(0))
        start = len(self.obls)
        if self.obls_pending_value is not None:
            s_v, g_v = self.obls_pending_value
            for j, conj in enumerate(_conjuncts(B(g_v))):
                self.emit("value-consistent", s_v, conj, f".{j}")
        outcomes = self.exec_block(F.body, st)
        for kind, s, val in outcomes:
            if kind in ("fall", "return"):
                if self.is_generator:
                    out_v = s.env["__out__"]
                    val = out_v if isinstance(out_v, SetV) else out_v.snapshot("gen")
                elif kind == "fall":
                    val = NONE
                self.check_post(s, val)
            elif kind == "raise":
                self.check_raise(s, val)
            else:
                raise Unsupported(f"{kind} outside a loop")
        return self.obls[start:]

    def verify_lemma(self, name):
        """A lemma is a formula over contracts only (callee contracts instantiated by
        c.call); it is proved from the contracts, never from function bodies."""
        L = dsl.LEMMAS[name]

        class _F:
            qualname = f"lemma:{name}"
            module = None
            lines = (0, 0)

        self.func, self.contract = _F, None
        st = State()
        c = dsl.SymCtx(self)
        c.state = st
        params = {}
        for pname, sort in L["params"].items():
            v = self.make_param(pname, sort, st)
            if sort == "Perm":
                st.assume(c.is_perm(v))
            elif sort in ("Mesh", "MeshPatt"):
                st.assume(c.is_mesh(v))
            params[pname] = v
        self.params = params
        self.model_vars = {}
        for pname, v in params.items():
            if isinstance(v, IntV):
                self.model_vars[pname] = ("int", v.t)
            elif isinstance(v, SeqV) and "fun" in v.meta:
                self.model_vars[pname] = ("seq", v.meta["len"], v.meta["fun"])
            elif isinstance(v, ObjV) and "pattern" in v.fields:
                pt = v.fields["pattern"]
                self.model_vars[pname + ".pattern"] = ("seq", pt.meta["len"], pt.meta["fun"])
                self.model_vars[pname + ".shading"] = ("cells", v.fields["shading"].fun, pt.meta["len"])
        start = len(self.obls)
        for use in getattr(L["fn"], "uses_lemmas", ()) or ():
            # a lemma may build on items of lemma chains (proved in their own unit), instantiated at its parameters
            largs = use[1](*params.values())
            self.lemma_args_ok(use[0].split("@")[0] if use[0] not in dsl.LEMMAS else use[0], largs, st, c)
            chain = dsl.LEMMAS[use[0]]["fn"](c, *largs)
            only = use[2] if len(use) > 2 else None
            if isinstance(chain, list):
                self.assume_chain([it for it in chain if only is None or it[0] in only], st, top_only=True)
            else:
                st.assume(chain)  # a plain lemma (proved in its own unit), instantiated at these arguments
            self.used_contracts.add(f"lemma:{use[0]}")
        goal = L["fn"](c, *params.values())
        for f in c.side:
            st.assume(f)
        c.side.clear()
        self.obls.append(Obligation(f"lemma:{name}:cover", "cover", f"lemma:{name}", st.pc, z3.BoolVal(True), expect="sat"))
        if isinstance(goal, list):
            # a CHAIN of induction lemmas (name, lo, hi, P): each proved by induction on [lo, hi] (base,
            # step) with the earlier ones available
            self.prove_chain(goal, st, "")
            return self.obls[start:]
        for j, conj in enumerate(_conjuncts(B(goal))):
            self.emit("goal", st, conj, f".{j}")
        return self.obls[start:]

    def lemma_args_ok(self, lname, args, st, c):
        """a lemma is proved under the type invariants of its parameters (permutations are bijections,
        nat >= 0): whoever instantiates it owes these facts (obligation lemma-hyps[...])"""
        sorts = list(dsl.LEMMAS[lname]["params"].values())
        for k_, (a_, srt) in enumerate(zip(args, sorts)):
            if srt == "Perm":
                self.emit(f"lemma-hyps[{lname}]", st, c.is_perm(a_), f".{k_}")
            elif srt in ("Mesh", "MeshPatt"):
                self.emit(f"lemma-hyps[{lname}]", st, c.is_mesh(a_), f".{k_}")
            elif srt == "nat":
                self.emit(f"lemma-hyps[{lname}]", st, Z(a_) >= 0, f".{k_}")

    def prove_chain(self, chain, hy, tag):
        """items (name, lo, hi, P[, uses]): each proved by induction on [lo, hi] from the base facts and the
        EARLIER items it names in `uses` (default: all earlier ones); afterwards all are available in hy"""
        done = {}
        for item in chain:
            lname, lo, hi, Pf = item[:4]
            uses = item[4] if len(item) > 4 else tuple(done)
            h2 = State(hy.env, list(hy.pc))
            self.assume_chain([done[u] for u in uses], h2)
            lo_t, hi_t = Z(lo), Z(hi)
            self.emit(f"lemma[{lname}]-base", h2, z3.Implies(lo_t <= hi_t, B(Pf(IntV(lo_t)))), tag)
            i = fresh("ind")
            step = z3.ForAll([i], z3.Implies(z3.And(i >= lo_t, i < hi_t, B(Pf(IntV(i)))), B(Pf(IntV(i + 1)))))
            self.emit(f"lemma[{lname}]-step", h2, step, tag)
            done[lname] = (lname, lo, hi, Pf)
        self.assume_chain(list(done.values()), hy)

    def assume_chain(self, chain, hy, top_only=False):
        for item in chain:
            lo, hi, Pf = item[1], item[2], item[3]
            j = fresh("indq")
            if not top_only:
                hy.assume(z3.ForAll([j], z3.Implies(z3.And(j >= Z(lo), j <= Z(hi)), B(Pf(IntV(j))))))
            # the instance at the upper end is what callers usually need; the bound variable above
            # often has no usable trigger
            hy.assume(z3.Implies(Z(lo) <= Z(hi), B(Pf(IntV(Z(hi))))))

    def emit(self, kind, st, goal, tag="", inherited=()):
        gb = B(goal)
        if not self.concrete and z3.is_eq(gb) and z3.is_bool(gb.arg(0)) and (_has_quant(gb.arg(0)) or _has_quant(gb.arg(1))):
            # an equivalence between quantified formulas is proved as two implications
            self.emit(kind, st, z3.Implies(gb.arg(0), gb.arg(1)), tag + "=>")
            self.emit(kind, st, z3.Implies(gb.arg(1), gb.arg(0)), tag + "<=")
            return
        if self.concrete:
            if kind in ("divisor-positive", "minmax-nonempty", "list-repeat-nonneg", "unpack-arity", "islice-nonneg") or kind.startswith("assert["):
                cc = BoolV(B(goal)).concrete()
                if cc is False:
                    raise _PyRaise({"divisor-positive": "ZeroDivisionError", "minmax-nonempty": "ValueError", "unpack-arity": "ValueError", "islice-nonneg": "ValueError"}.get(kind, "AssertionError"))
            return
        name = f"{self.func.qualname}:{kind}{tag}"
        n = sum(1 for o in self.obls if o.name == name or o.name.startswith(name + "~"))
        if n:
            name = f"{name}~{n}"
        hyps, goal2, consts = skolemize(list(st.pc), B(goal))
        consts = list(inherited) + consts
        if z3.is_eq(goal2) and z3.is_bool(goal2.arg(0)) and (_has_quant(goal2.arg(0)) or _has_quant(goal2.arg(1))) and not tag.endswith(("=>", "<=")):
            # equivalence under the skolem constants: two implications, each opened further
            base = State(st.env, hyps)
            self.emit(kind, base, z3.Implies(goal2.arg(0), goal2.arg(1)), tag + "=>", consts)
            self.emit(kind, base, z3.Implies(goal2.arg(1), goal2.arg(0)), tag + "<=", consts)
            return
        if z3.is_and(goal2) and goal2.num_args() > 1 and tag.count("/") < 3:
            base = State(st.env, hyps)
            for j_, conj_ in enumerate(goal2.children()):
                self.emit(kind, base, conj_, f"{tag}/{j_}", consts)
            return
        # existential hypotheses are opened with fresh constants (sound: new names for the witnesses); the
        # constants join the seeds and the witness candidates below
        wit_consts = []
        if _has_pos_exists(goal2):
            opened = []
            for h_ in hyps:
                if z3.is_quantifier(h_) and h_.is_exists():
                    opened.extend(_hyp_skolem(h_, wit_consts))  # witnesses of the hypotheses: candidates only, not seeds
                else:
                    opened.append(h_)
            hyps = opened
        if _has_pos_exists(goal2):
            # a goal that asks for witnesses: offer the obvious candidates (the integer constants opened so
            # far, the lengths / last indices of the local lists, the loop indices).  Every  exists j. body  in
            # a positive position becomes  body[c1] \/ ... \/ exists j. body : an equivalent formula, but
            # trigger-based instantiation now has ground instances to work with.
            basic = [c_ for c_ in consts if z3.is_int(c_)]
            extra = []
            for nm_, v_ in st.env.items():
                if isinstance(v_, (ListV, TupListV)):
                    basic += [v_.n, v_.n - 1]
                elif nm_.startswith("__k") and isinstance(v_, IntV):
                    extra += [v_.t, v_.t + 1]
            extra += [c_ for c_ in wit_consts if z3.is_int(c_)]

            def uniq_(ts):
                seen_, out_ = set(), []
                for t_ in ts:
                    if t_.get_id() not in seen_:
                        seen_.add(t_.get_id())
                        out_.append(t_)
                return out_

            goal_plain = goal2
            goal2 = _offer_witnesses(goal_plain, uniq_(basic)[-8:])
            # second attempt (only if the first is undecided): also the loop indices and the witnesses of
            # existential hypotheses - more ground instances, but every instance drags its own instantiations in
            alt_goal = _offer_witnesses(goal_plain, uniq_(basic + extra)[-10:]) if extra else None
        else:
            alt_goal = None
        hyps.append(divmod_axiom())
        hyps.extend(self.global_axioms)
        if wit_consts and self.seed_funs:
            # the witnesses of existential hypotheses get the cheap unary seeds only (index marks, positions)
            wmark = fresh_fun("wmark", z3.IntSort(), z3.BoolSort())
            for wc_ in wit_consts:
                if z3.is_int(wc_):
                    for f_ in self.seed_funs:
                        hyps.append(wmark(f_(wc_)))
        tconsts = [c_ for c_ in consts if c_.sort() == TUP]
        consts = [c_ for c_ in consts if z3.is_int(c_)]
        if tconsts or self.row_registry or any(isinstance(v_, SeqV) and v_.meta.get("tterm") is not None for v_ in st.env.values()):
            # facts quantified over every integer tuple are triggered by tid(t): make them applicable to
            # the tuple constants of this goal and to the rows at the integer constants
            tmark = fresh_fun("tmark", z3.IntSort(), z3.BoolSort())
            for tc_ in tconsts:
                hyps.append(tmark(TID(tc_)))
                for M_ in getattr(self, "_map_funs", {}).values():
                    hyps.append(tmark(TID(M_(tc_))))
            used_ = _decl_ids(hyps + [goal2])
            for row_ in self.row_registry:
                if row_.get_id() not in used_:
                    continue  # a row function of another path / an earlier list state: irrelevant here
                for cst in consts:
                    hyps.append(tmark(TID(row_(cst))))
                    for M_ in getattr(self, "_tuple_from", {}).values():  # images of rows under the NAMED tuple maps of a lemma
                        hyps.append(tmark(TID(M_(row_(cst)))))
            for v_ in st.env.values():  # the tuples held by local variables
                if isinstance(v_, SeqV) and v_.meta.get("tterm") is not None:
                    hyps.append(tmark(TID(v_.meta["tterm"])))
        # Seed the e-graph: E-matching can only instantiate the permutation axioms
        # (patterns F(i) / G(v)) at terms that exist.  mark is a fresh uninterpreted predicate, so
        # asserting mark(t) constrains nothing (conservative) but makes the terms F(c), G(c) available.
        if consts and (self.perm_registry or self.sort_registry or self.filter_registry or self.seed_funs):
            mark = fresh_fun("mark", z3.IntSort(), z3.BoolSort())
            for cst in consts:
                for F_, G_, n_ in self.perm_registry:
                    for term in (cst, n_ - 1 - cst):
                        hyps.append(mark(F_(term)))
                        hyps.append(mark(G_(term)))
                for cnt_ in self.filter_registry:  # prefix counts of filters at index-like terms
                    hyps.append(mark(cnt_(cst)))
                    for F_, G_, n_ in self.perm_registry[:3]:
                        hyps.append(mark(cnt_(F_(cst))))
                        hyps.append(mark(cnt_(G_(cst))))
                for f_ in self.seed_funs:
                    hyps.append(mark(f_(cst)))
                for F_, G_, n_ in self.sort_registry:  # sigma / tau of sorted(...): neighbours too (off-by-one shifts)
                    for term in (cst, cst - 1, cst + 1):
                        hyps.append(mark(F_(term)))
                        hyps.append(mark(G_(term)))
        sizes = [n_ for (_f, _g, n_) in self.perm_registry] + [v.t for v in getattr(self, "params", {}).values() if isinstance(v, IntV)]
        ob = Obligation(name, kind, self.func.qualname, hyps, goal2, model_vars=getattr(self, "model_vars", None), size_terms=sizes)
        ob.definitional = self.definitional
        ob.budget_ms = getattr(self.contract.cls, "solver_ms", None) if self.contract is not None else None
        ob.alt_goal = alt_goal
        self.obls.append(ob)

    def check_post(self, st, val):
        K = self.contract
        c = dsl.SymCtx(self)
        self.ret_ordinal += 1
        tag = f"#{self.ret_ordinal}"
        self.obls.append(Obligation(f"{self.func.qualname}:cover{tag}", "cover", self.func.qualname, st.pc, z3.BoolVal(True), expect="sat"))
        if K.raises is not None:
            cond = K.raises(c, *self.params.values())
            self.emit("raises-when-documented", st, z3.Not(B(cond)), tag)
        if K.ensures is None:
            return
        c.calls = tuple(st.env.get("__ghost_calls__", ()))
        val = self.adapt_result(val, K, c)
        if getattr(K.cls, "ghost_outputs", None):
            # the function's own ghost outputs at this return point: a witness built by the contract from the
            # locals and from the ghost outputs of the contract calls made on this path
            c._gout = K.cls.ghost_witness(c, _NS(dict(self.params, **dict(st.env, __params__=self.params))), c.calls)
        hy = State(st.env, list(st.pc))
        post_lemmas = getattr(K.cls, "post_lemmas", None)
        if post_lemmas is not None:
            # proved by induction on i in [lo, hi]; afterwards available as a fact
            self.prove_chain(post_lemmas(c, *self.params.values(), val), hy, tag)
        uses = getattr(K.cls, "uses_lemmas", None)
        if uses is not None:
            # lemma chains proved ONCE as their own unit (lemma:<name>, over contracts only) and
            # instantiated here at this function's arguments
            for use in uses:
                lname, pick = use[0], use[1]
                only = use[2] if len(use) > 2 else None  # the items of the chain this function needs
                L = dsl.LEMMAS[lname]
                largs = pick(*self.params.values())
                self.lemma_args_ok(lname, largs, hy, c)
                chain = L["fn"](c, *largs)
                self.assume_chain([it for it in chain if only is None or it[0] in only], hy, top_only=True)
                self.used_contracts.add(f"lemma:{lname}")
        goal = K.ensures(c, *self.params.values(), val)
        el = getattr(K.cls, "ensures_locals", None)
        if el is not None:
            # postcondition that may mention the function's locals at the return point (they act as
            # ghost witnesses, e.g. the sorted index list); a renamed local makes it undecided
            goal = z3.And(B(goal), B(el(c, _NS(dict(self.params, **dict(st.env, __params__=self.params))), val)))
        for f in c.side:
            hy.assume(f)
        for j, conj in enumerate(_conjuncts(B(goal))):
            self.emit("post@return", hy, conj, f"{tag}.{j}")
        for vname, vfn in (getattr(K.cls, "views", None) or {}).items():
            vg = vfn(c, *self.params.values(), val)
            for f in c.side:
                hy.assume(f)
            c.side.clear()
            for j, conj in enumerate(_conjuncts(B(vg))):
                self.emit(f"post-view[{vname}]", hy, conj, f"{tag}.{j}")

    def adapt_result(self, val, K, c):
        if isinstance(val, (ListV, TupListV)):
            val = val.snapshot()
        if K.returns == "Perm":
            if not isinstance(val, SeqV):
                raise Unsupported(f"result of {K.name} is not a sequence: {val!r}")
            meta = dict(val.meta)
            if K.ghost_inverse is not None:
                w = K.ghost_inverse(c, *self.params.values(), val)
                meta["ginv"] = (lambda v, w=w: w(v)) if callable(w) and not isinstance(w, V) else (lambda v, w=w: w.at(Z(v)))
            val = SeqV(val.n, val._at, "Perm", meta)
        return val

    def check_raise(self, st, exc):
        K = self.contract
        c = dsl.SymCtx(self)
        self.ret_ordinal += 1
        tag = f"#{self.ret_ordinal}"
        if K.raises is None:
            self.emit("no-raise", st, z3.BoolVal(False), f"{tag}[{exc}]")
            return
        if K.raises_type and exc not in ((K.raises_type,) if isinstance(K.raises_type, str) else K.raises_type):
            self.emit("exceptional-post-type", st, z3.BoolVal(False), f"{tag}[{exc}]")
            return
        cond = K.raises(c, *self.params.values())
        self.obls.append(Obligation(f"{self.func.qualname}:cover{tag}", "cover", self.func.qualname, st.pc, z3.BoolVal(True), expect="sat"))
        self.emit("exceptional-post", st, cond, tag)

    # ------------------------------------------------------------ statements
    def exec_block(self, stmts, st):
        """Returns a list of (kind, state, value); kind in fall/return/break/continue/raise."""
        states = [st]
        finished = []
        hook = getattr(self.contract.cls, "after_stmt", None) if (self.contract is not None and self.func is not None and stmts is getattr(self.func, "body", None)) else None
        for idx_, node in enumerate(stmts):
            nxt = []
            for s in states:
                for kind, s2, val in self.exec_stmt(node, s):
                    if kind == "fall":
                        nxt.append(s2)
                    else:
                        finished.append((kind, s2, val))
            states = nxt
            if hook is not None and not self.concrete:
                # intermediate lemma of the contract at this program point: proved here, available afterwards
                c_h = dsl.SymCtx(self)
                for s in states:
                    f = hook(c_h, _NS(dict(self.params, **dict(s.env, __params__=self.params))), idx_)
                    if f is None:
                        continue
                    for j, conj in enumerate(_conjuncts(B(f))):
                        self.emit(f"lemma@stmt#{idx_}", s, conj, f".{j}")
                    s.assume(f)
            if len(states) + len(finished) > 400:
                raise Unsupported("path explosion (> 400 paths)")
            if not states:
                break
        return finished + [("fall", s, None) for s in states]

    def exec_stmt(self, node, st):
        """A call to a contracted function whose contract documents an exception forks the
        statement: one path where the callee raises (the exception propagates), one where it
        does not."""
        has_call = any(isinstance(n_, ast.Call) for n_ in ast.walk(node)) and not isinstance(node, (ast.For, ast.While, ast.If, ast.FunctionDef))
        snap = st.fork() if has_call else None
        mark = len(self.obls)
        try:
            return self._exec_stmt(node, st)
        except _PyRaise as r:
            return [("raise", st, r.exc)]
        except _ForkNeeded as f:
            if snap is None:
                raise Unsupported("callee exception inside a compound statement header")
            del self.obls[mark:]
            out = []
            for truth in (True, False):
                s2 = snap.fork()
                s2.assume(f.cond if truth else z3.Not(f.cond))
                s2.decided[f.cond.get_id()] = truth
                out += self.exec_stmt(node, s2)
            return out

    def _exec_stmt(self, node, st):
        if isinstance(node, ast.Expr):
            if isinstance(node.value, (ast.Yield, ast.YieldFrom)):
                self.do_yield(node.value, st)
                return [("fall", st, None)]
            if isinstance(node.value, ast.Call):
                self.ev(node.value, st)
                return [("fall", st, None)]
            if isinstance(node.value, ast.Constant):
                return [("fall", st, None)]
            raise Unsupported(f"expression statement {ast.dump(node.value)[:60]}")
        if isinstance(node, ast.Pass):
            return [("fall", st, None)]
        if isinstance(node, ast.Assign):
            val = self.ev(node.value, st)
            shapes = getattr(self.contract.cls, "list_shapes", None) if self.contract is not None else None
            if shapes and isinstance(val, (ListV, TupListV)) and len(node.targets) == 1 and isinstance(node.targets[0], ast.Name) \
                    and node.targets[0].id in shapes and isinstance(node.value, ast.List) and not node.value.elts:
                # the contract declares the element shape of a list that starts empty (k-tuples of ints)
                ar_ = shapes[node.targets[0].id]
                if ar_ == "tuples":
                    if not self.concrete:
                        val = self.fresh_tuplist(st, empty=True)  # a list of integer tuples of varying length (e.g. strings)
                else:
                    val = ListV(0, lambda i, ar_=ar_: TupV([IntV(0)] * ar_))
            for tgt in node.targets:
                self.assign(tgt, val, st)
            return [("fall", st, None)]
        if isinstance(node, ast.AnnAssign):
            if node.value is not None:
                val = self.ev(node.value, st)
                ann = node.annotation
                if isinstance(val, ListV) and isinstance(node.value, ast.List) and not node.value.elts and isinstance(ann, ast.Subscript) \
                        and isinstance(ann.slice, ast.Name) and ann.slice.id in self.abstract_kinds:
                    mk = self.abstract_kinds[ann.slice.id][0]  # typed empty list of abstract patterns
                    val = ListV(0, lambda i, mk=mk: mk(z3.IntVal(0)))
                elif isinstance(val, ListV) and z3.is_int_value(z3.simplify(val.n)) and z3.simplify(val.n).as_long() == 0 \
                        and isinstance(ann, ast.Subscript) and isinstance(ann.slice, ast.Subscript) \
                        and isinstance(ann.slice.value, ast.Name) and ann.slice.value.id == "Tuple" and isinstance(ann.slice.slice, ast.Tuple):
                    # Deque[Tuple[int, int]] / List[Tuple[int, ...]] on an empty collection: the element shape
                    ar_ = len(ann.slice.slice.elts)
                    dq_ = getattr(val, "is_deque", False)
                    val = ListV(0, lambda i, ar_=ar_: TupV([IntV(0)] * ar_))
                    if dq_:
                        val.is_deque = True
                self.assign(node.target, val, st)
            return [("fall", st, None)]
        if isinstance(node, ast.AugAssign):
            cur = self.ev(_load(node.target), st)
            val = self.binop(node.op, cur, self.ev(node.value, st), st)
            self.assign(node.target, val, st)
            return [("fall", st, None)]
        if isinstance(node, ast.Return):
            val = NONE if node.value is None else self.ev(node.value, st)
            return [("return", st, val)]
        if isinstance(node, ast.Assert):
            cond = self.ev_test(node.test, st)
            if self.concrete:
                cc = BoolV(cond).concrete()
                if cc is None:
                    raise Unsupported("concrete mode: symbolic assert")
                return [("fall", st, None)] if cc else [("raise", st, "AssertionError")]
            self.emit("assert", st, cond, f"@{node.lineno - self.func.lines[0]}")
            st.assume(cond)
            return [("fall", st, None)]
        if isinstance(node, ast.Raise):
            exc = node.exc
            name = "Exception"
            if isinstance(exc, ast.Call):
                exc = exc.func
            if isinstance(exc, ast.Name):
                name = exc.id
            elif isinstance(exc, ast.Attribute):
                name = exc.attr
            return [("raise", st, name)]
        if isinstance(node, ast.If):
            cond = self.ev_test(node.test, st)
            cc = BoolV(cond).concrete()
            out = []
            if cc is not False:
                s1 = st.fork() if cc is None else st
                s1.assume(cond)
                out += self.exec_block(node.body, s1)
            if cc is not True:
                s2 = st.fork() if cc is None else st
                s2.assume(z3.Not(cond))
                out += self.exec_block(node.orelse, s2) if node.orelse else [("fall", s2, None)]
            return out
        if isinstance(node, ast.For):
            return self.exec_for(node, st)
        if isinstance(node, ast.While):
            return self.exec_while(node, st)
        if isinstance(node, ast.Break):
            return [("break", st, None)]
        if isinstance(node, ast.Continue):
            return [("continue", st, None)]
        if isinstance(node, ast.FunctionDef):
            fv = FunV(node, st.env)
            inner = getattr(self.contract.cls, "inner", {}) if self.contract is not None else {}
            fv.contract = inner.get(node.name)
            st.env[node.name] = fv
            if fv.contract is not None and not self.concrete:
                self.verify_inner(node, fv.contract, st)
            return [("fall", st, None)]
        if isinstance(node, ast.Try):
            if node.finalbody or node.orelse:
                raise Unsupported("try with else/finally")
            outs = self.exec_block(node.body, st)
            if any(kind == "raise" for kind, _s, _v in outs):
                raise Unsupported("exception raised inside a try body (handlers are not modelled)")
            return outs
        raise Unsupported(f"statement {type(node).__name__}")

    def do_yield(self, node, st):
        out = st.env["__out__"]
        if isinstance(out, SetV):
            if isinstance(node, ast.Yield):
                v = self.ev(node.value, st)
                st.env["__out__"] = SetV(lambda x, out=out, v=v: z3.Or(B(out.contains(x)), veq(x, v)), out.arity)
            else:
                other = self.to_set(self.ev(node.value, st), st)
                st.env["__out__"] = SetV(lambda x, out=out, other=other: z3.Or(B(out.contains(x)), B(other.contains(x))), out.arity)
            return
        if isinstance(out, TupListV):
            if isinstance(node, ast.Yield):
                tau = as_T(self.ev(node.value, st), st.assume)
                self.row_registry.append(out.append(tau, st.assume))
            else:
                src = self.ev(node.value, st)
                if isinstance(src, TupListV):
                    src = src.snapshot()
                if not (isinstance(src, SeqV) and src.meta.get("rowfun") is not None):
                    raise Unsupported("yield from something that is not a list of integer tuples")
                self.row_registry.append(out.extend(src.n, src.meta["rowfun"], st.assume))
            return
        if isinstance(node, ast.Yield):
            v = NONE if node.value is None else self.ev(node.value, st)
            out.append(v)
        else:
            seq = self.as_seq(self.ev(node.value, st), st)
            out.extend(seq)

    def assign(self, tgt, val, st):
        if isinstance(tgt, ast.Name):
            for other_name, other in st.env.items():
                if other_name != tgt.id and isinstance(other, SeqV) and tgt.id in other.meta.get("captures", ()):
                    raise Unsupported(f"'{tgt.id}' is rebound while the lazy generator '{other_name}' that captures it is still live")
            st.env[tgt.id] = val
            return
        if isinstance(tgt, (ast.Tuple, ast.List)):
            items = self.unpack(val, len(tgt.elts), st)
            for t, v in zip(tgt.elts, items):
                self.assign(t, v, st)
            return
        if isinstance(tgt, ast.Attribute) and isinstance(tgt.value, ast.Name) and tgt.value.id == "self" and tgt.attr in self.memo_attrs():
            st.env[f"self.{tgt.attr}"] = val
            return
        if isinstance(tgt, ast.Subscript) and isinstance(tgt.value, ast.Attribute) and tgt.value.attr in self.memo_tables():
            # MEMO-TABLE: a store into the class-level memo dictionary (see method_call for `.get`)
            return
        if isinstance(tgt, ast.Subscript):
            base = self.ev(tgt.value, st)
            if not isinstance(base, ListV):
                raise Unsupported("subscript store on a non-list")
            idx = self.ev(tgt.slice, st)
            i = self.norm_index(idx, base.n, st, "store")
            base.store(i, val)
            return
        raise Unsupported(f"assignment target {type(tgt).__name__}")

    def unpack(self, val, k, st):
        if isinstance(val, TupV):
            if len(val) != k:
                raise Unsupported("tuple unpacking arity mismatch")
            return list(val.items)
        if isinstance(val, (SeqV, ListV)):
            n = val.n
            self.emit("unpack-arity", st, n == k)
            return [val.at(i) for i in range(k)]
        raise Unsupported(f"cannot unpack {val!r}")

    # ----------------------------------------------------------------- loops
    def exec_for(self, node, st):
        ordinal = node._ordinal
        it = self.ev(node.iter, st)
        if isinstance(it, TupV):
            return self.unroll_for(node, it.items, st)
        if isinstance(it, SetV):
            return self.set_accumulation_loop(node, it, st)
        seq = self.as_seq(it, st)
        n_c = z3.simplify(seq.n)
        if self.concrete:
            if not z3.is_int_value(n_c):
                raise Unsupported("concrete mode: loop over a sequence of symbolic length")
            return self.unroll_for(node, [seq.at(z3.IntVal(i)) for i in range(n_c.as_long())], st)
        if z3.is_int_value(n_c) and 0 <= n_c.as_long() <= 8 and self.contract.invariants.get(ordinal) is None:
            return self.unroll_for(node, [seq.at(z3.IntVal(i)) for i in range(n_c.as_long())], st)
        carried0 = assigned_names(node.body) - _target_names(node.target)
        if self.contract.invariants.get(ordinal) is None and carried0 and all(isinstance(st.env.get(nm), SetV) for nm in carried0 if nm in st.env) and any(nm in st.env for nm in carried0):
            probe = seq.at(fresh("pe"))
            ar = len(probe) if isinstance(probe, TupV) else 1

            def dom_contains(v, seq=seq):
                j = fresh("dj")
                return z3.Exists([j], z3.And(j >= 0, j < seq.n, veq(seq.at(j), v)))

            return self.set_accumulation_loop(node, SetV(dom_contains, ar), st)
        carried = sorted(assigned_names(node.body) - _target_names(node.target))
        inv = self.contract.invariants.get(ordinal)
        if inv is None:
            raise Unsupported(f"loop #{ordinal} has no invariant in the contract")
        c = dsl.SymCtx(self)

        def inv_formula(s, k):
            f = inv(c, _NS(dict(s.env, **{"__params__": self.params})), IntV(k) if not isinstance(k, IntV) else k)
            out = z3.And(B(f), *c.side) if c.side else B(f)
            c.side.clear()
            return out

        # init
        for j, conj in enumerate(_conjuncts(inv_formula(st, z3.IntVal(0)))):
            self.emit(f"inv-init#{ordinal}", st, conj, f".{j}")
        # arbitrary iteration
        body_st = st.fork()
        self.havoc(body_st, carried)
        k = fresh("k")
        body_st.env[f"__k{ordinal}__"] = IntV(k)  # the iteration index (a witness candidate for existential goals)
        body_st.assume(z3.And(k >= 0, k < seq.n))
        body_st.assume(inv_formula(body_st, k))
        self.assign(node.target, seq.at(k), body_st)
        results = []
        for kind, s, val in self.exec_block(node.body, body_st):
            if kind in ("fall", "continue"):
                for j, conj in enumerate(_conjuncts(inv_formula(s, k + 1))):
                    self.emit(f"inv-step#{ordinal}", s, conj, f".{j}")
            elif kind == "break":
                results.append(("fall", s, None))
            else:
                results.append((kind, s, val))
        # exit
        exit_st = st.fork()
        self.havoc(exit_st, carried)
        exit_st.assume(inv_formula(exit_st, seq.n))
        # loop target keeps its last value only if the sequence is non-empty: not modelled -> drop it
        for nm in _target_names(node.target):
            exit_st.env.pop(nm, None)
        if node.orelse:
            results += self.exec_block(node.orelse, exit_st)
        else:
            results.append(("fall", exit_st, None))
        return results

    def set_accumulation_loop(self, node, dom, st):
        """for e in S: <body that only adds to local sets>.  Iteration order is unspecified, so
        the only supported shape is a monotone accumulation:  A' = A | { v : exists e in S. body(e)
        adds v }.  The body is executed once for an arbitrary element with empty accumulators."""
        carried = sorted(assigned_names(node.body) - _target_names(node.target))
        live_after = carried  # conservatively: every carried name must be a set accumulator or a body-local
        accs = [nm for nm in carried if isinstance(st.env.get(nm), SetV)]
        for nm in carried:
            if nm not in accs and nm in st.env:
                raise Unsupported(f"loop over a set carries non-accumulator state '{nm}'")
        xs = [fresh("se") for _ in range(dom.arity)]
        elem = IntV(xs[0]) if dom.arity == 1 else TupV([IntV(x) for x in xs])
        s0 = st.fork()
        base_len = len(s0.pc)
        s0.assume(dom.contains(elem))
        old = {nm: st.env[nm] for nm in accs}
        for nm in accs:
            s0.env[nm] = SetV(lambda v: z3.BoolVal(False), old[nm].arity)
        self.assign(node.target, elem, s0)
        contrib = {nm: [] for nm in accs}
        for kind, s, _val in self.exec_block(node.body, s0):
            if kind not in ("fall", "continue"):
                raise Unsupported(f"loop over a set: body path ends in {kind}")
            path = z3.And(s.pc[base_len:]) if len(s.pc) > base_len else z3.BoolVal(True)
            for nm in accs:
                contrib[nm].append((path, s.env[nm]))
        for nm in accs:
            parts = contrib[nm]
            o = old[nm]

            def contains(v, parts=parts, o=o):
                alts = [z3.Exists(xs, z3.And(path, B(acc.contains(v)))) for path, acc in parts]
                return z3.Or(B(o.contains(v)), *alts)

            ar = o.arity
            for _p, acc in parts:
                ar = acc.arity or ar
            st.env[nm] = SetV(contains, ar)
        _ = live_after
        for nm in _target_names(node.target):
            st.env.pop(nm, None)
        if node.orelse:
            return self.exec_block(node.orelse, st)
        return [("fall", st, None)]

    def unroll_for(self, node, items, st):
        """A loop over a tuple of statically known arity (e.g. *others) is unrolled."""
        live = [st]
        done = []
        for item in items:
            nxt = []
            for s in live:
                self.assign(node.target, item, s)
                for kind, s2, val in self.exec_block(node.body, s):
                    if kind in ("fall", "continue"):
                        nxt.append(s2)
                    elif kind == "break":
                        done.append(("fall", s2, None))
                    else:
                        done.append((kind, s2, val))
            live = nxt
        for s in live:
            if node.orelse:
                done += self.exec_block(node.orelse, s)
            else:
                done.append(("fall", s, None))
        return done

    def exec_while_concrete(self, node, st):
        live = [st]
        done = []
        for _ in range(400):
            nxt = []
            for s in live:
                g = BoolV(self.ev_test(node.test, s)).concrete()
                if g is None:
                    raise Unsupported("concrete mode: symbolic loop guard")
                if not g:
                    done += self.exec_block(node.orelse, s) if node.orelse else [("fall", s, None)]
                    continue
                for kind, s2, val in self.exec_block(node.body, s):
                    if kind in ("fall", "continue"):
                        nxt.append(s2)
                    elif kind == "break":
                        done.append(("fall", s2, None))
                    else:
                        done.append((kind, s2, val))
            live = nxt
            if not live:
                return done
        raise Unsupported("concrete mode: loop did not finish within 400 iterations")

    def exec_while(self, node, st):
        if self.concrete:
            return self.exec_while_concrete(node, st)
        ordinal = node._ordinal
        carried = sorted(assigned_names(node.body))
        inv = self.contract.invariants.get(ordinal)
        if inv is None:
            raise Unsupported(f"while-loop #{ordinal} has no invariant in the contract")
        c = dsl.SymCtx(self)

        def inv_formula(s):
            f = inv(c, _NS(dict(s.env, **{"__params__": self.params})), None)
            out = z3.And(B(f), *c.side) if c.side else B(f)
            c.side.clear()
            return out

        for j, conj in enumerate(_conjuncts(inv_formula(st))):
            self.emit(f"inv-init#{ordinal}", st, conj, f".{j}")
        body_st = st.fork()
        self.havoc(body_st, carried)
        body_st.assume(inv_formula(body_st))
        guard = self.ev_test(node.test, body_st)
        body_st.assume(guard)
        results = []
        for kind, s, val in self.exec_block(node.body, body_st):
            if kind in ("fall", "continue"):
                for j, conj in enumerate(_conjuncts(inv_formula(s))):
                    self.emit(f"inv-step#{ordinal}", s, conj, f".{j}")
            elif kind == "break":
                results.append(("fall", s, None))
            else:
                results.append((kind, s, val))
        if isinstance(node.test, ast.Constant) and node.test.value is True:
            return results  # `while True`: the loop is only left through return / break / raise
        exit_st = st.fork()
        self.havoc(exit_st, carried)
        exit_st.assume(inv_formula(exit_st))
        g2 = self.ev_test(node.test, exit_st)
        exit_st.assume(z3.Not(g2))
        if node.orelse:
            results += self.exec_block(node.orelse, exit_st)
        else:
            results.append(("fall", exit_st, None))
        return results

    def havoc(self, st, names):
        for nm in names:
            cur = st.env.get(nm)
            if cur is None:
                continue
            st.env[nm] = self.fresh_like(cur, nm, st)

    def fresh_like(self, cur, nm, st):
        if isinstance(cur, bool) or isinstance(cur, BoolV):
            return BoolV(fresh(nm, "bool"))
        if isinstance(cur, (IntV, int)):
            return IntV(fresh(nm))
        if isinstance(cur, ListV):
            n = fresh(nm + "_n")
            st.assume(n >= 0)
            sample = cur.at(z3.IntVal(0))
            if isinstance(sample, TupV):
                funs = [fresh_fun(nm, z3.IntSort(), z3.IntSort()) for _ in sample.items]
                out_ = ListV(n, lambda i, funs=funs: TupV([IntV(f(i)) for f in funs]))
                if getattr(cur, "is_deque", False):
                    out_.is_deque = True
                return out_
            if isinstance(sample, ObjV) and callable(sample.fields.get("__mk__")):
                Fo = fresh_fun(nm, z3.IntSort(), z3.IntSort())
                mk_ = sample.fields["__mk__"]
                return ListV(n, lambda i, Fo=Fo, mk_=mk_: mk_(Fo(i)))
            if isinstance(sample, BoolV):
                Fb = fresh_fun(nm, z3.IntSort(), z3.BoolSort())
                return ListV(n, lambda i, Fb=Fb: BoolV(Fb(i)))
            F = fresh_fun(nm, z3.IntSort(), z3.IntSort())
            out_ = ListV(n, lambda i, F=F: IntV(F(i)))
            if getattr(cur, "is_deque", False):
                out_.is_deque = True
            return out_
        if isinstance(cur, TupListV):
            return self.fresh_tuplist(st)
        if isinstance(cur, SetV):
            ar_ = cur.arity or 1
            S_ = fresh_fun(nm, *([z3.IntSort()] * ar_ + [z3.BoolSort()]))
            out_ = SetV((lambda v, S_=S_: S_(Z(v))) if ar_ == 1 else (lambda v, S_=S_: S_(*[Z(x) for x in v])), ar_)
            out_.fun = S_
            return out_
        if isinstance(cur, TupV):
            return TupV([self.fresh_like(x, nm, st) for x in cur.items])
        if isinstance(cur, NoneV):
            raise Unsupported(f"loop-carried variable '{nm}' starts as None")
        if isinstance(cur, SeqV):
            n = fresh(nm + "_n")
            st.assume(n >= 0)
            F = fresh_fun(nm, z3.IntSort(), z3.IntSort())
            return SeqV(n, lambda i, F=F: IntV(F(i)), cur.kind)
        raise Unsupported(f"cannot havoc loop-carried variable '{nm}' of shape {type(cur).__name__}")

    # ------------------------------------------------------------ expressions
    def ev_test(self, node, st):
        """value of an expression in a TEST position (if / while / assert / conditional expression): only its
        truthiness is used, so  `xs and cond`  is the conjunction of the operands' truth values"""
        saved, self._test_node = getattr(self, "_test_node", None), node
        try:
            v = self.ev(node, st)
        finally:
            self._test_node = saved
        return self.truth(v, st)

    def truth(self, v, st):
        """Python truthiness as a z3 Bool."""
        if isinstance(v, bool):
            return z3.BoolVal(v)
        if isinstance(v, BoolV):
            return v.t
        if isinstance(v, (IntV, int)):
            return Z(v) != 0
        if isinstance(v, NoneV):
            return z3.BoolVal(False)
        if isinstance(v, (SeqV, ListV)):
            return v.n > 0
        if isinstance(v, TupV):
            return z3.BoolVal(len(v) > 0)
        if isinstance(v, ObjV) and v.cls == "AbstractPatt":
            if v.fields["__kind__"] == "Perm":
                return Z(v.fields["__len__"]) > 0  # a Perm is a tuple: truthy iff non-empty
            return v.fields["__truth__"].t  # MeshPatt.__bool__: has points or shading (abstract)
        raise Unsupported(f"truthiness of {v!r}")

    def as_seq(self, v, st):
        if isinstance(v, ObjV) and v.cls == "iterator":
            return self.iterator_take(v, None)
        if isinstance(v, SeqV):
            return v
        if isinstance(v, ListV):
            return v.snapshot()
        if isinstance(v, TupV):
            items = v.items
            n = len(items)

            def at(i, items=items):
                out = items[-1] if items else IntV(0)
                for k in range(n - 2, -1, -1):
                    out = vite(i == k, items[k], out)
                return out

            return SeqV(n, at, "tuple")
        raise Unsupported(f"not iterable as a sequence: {v!r}")

    def norm_index(self, idx, n, st, what="index"):
        """Index term in [0, n) after Python's negative-index rule; emits the bounds obligation."""
        if isinstance(idx, (int,)) and not isinstance(idx, bool):
            i = z3.IntVal(idx) if idx >= 0 else n + idx
        elif isinstance(idx, IntV):
            c = idx.concrete()
            if c is not None and c < 0:
                i = n + c
            else:
                i = idx.t
                # symbolic index: Python would wrap negatives; we demand 0 <= i < n
        else:
            raise Unsupported(f"index {idx!r}")
        if self.concrete:
            okb = BoolV(z3.And(i >= 0, i < n)).concrete()
            if okb is None:
                raise Unsupported("concrete mode: symbolic index")
            if not okb:
                raise _PyRaise("IndexError")
            return z3.simplify(i)
        self.emit("index-bounds", st, z3.And(i >= 0, i < n), f"@{what}")
        return i

    def ev(self, node, st):
        m = getattr(self, "ev_" + type(node).__name__, None)
        if m is None:
            raise Unsupported(f"expression {type(node).__name__}")
        return m(node, st)

    def ev_Constant(self, node, st):
        v = node.value
        if v is None:
            return NONE
        if isinstance(v, bool):
            return BoolV(v)
        if isinstance(v, int):
            return IntV(v)
        if isinstance(v, str):
            return str_literal(v)
        raise Unsupported(f"constant {v!r}")

    def ev_Name(self, node, st):
        if node.id in st.env:
            return st.env[node.id]
        if node.id in ("True", "False"):
            return BoolV(node.id == "True")
        if node.id == "NotImplemented":
            return ObjV("NotImplemented", {})
        const = self.module_constant(node.id)
        if const is not None:
            return const
        if node.id in self.repo.classes or node.id in BUILTIN_NAMES:
            return ObjV("type", {"name": node.id})
        raise Unsupported(f"unknown name {node.id}")

    def module_constant(self, name):
        mods = [self.func.module] if self.func else []
        for mod in mods + ["permuta.misc"]:
            tree = self.repo.modules.get(mod)
            if tree is None:
                continue
            for n in tree.body:
                if isinstance(n, ast.Assign) and len(n.targets) == 1 and isinstance(n.targets[0], ast.Name) and n.targets[0].id == name:
                    if isinstance(n.value, ast.Constant) and isinstance(n.value.value, int):
                        return IntV(n.value.value)
                    if isinstance(n.value, ast.Constant) and isinstance(n.value.value, str):
                        return str_literal(n.value.value)
                    if isinstance(n.value, ast.UnaryOp) and isinstance(n.value.op, ast.USub) and isinstance(n.value.operand, ast.Constant):
                        return IntV(-n.value.operand.value)
        return None

    def ev_Tuple(self, node, st):
        items = []
        for e in node.elts:
            if isinstance(e, ast.Starred):
                v = self.ev(e.value, st)
                if not isinstance(v, TupV):
                    raise Unsupported("* of a sequence of unknown arity in a tuple display")
                items.extend(v.items)
            else:
                items.append(self.ev(e, st))
        return TupV(items)

    def ev_List(self, node, st):
        items = [self.ev(e, st) for e in node.elts]
        if not items:
            return ListV(0, lambda i: IntV(0))

        def fn(j, items=items):
            out = items[-1]
            for k in range(len(items) - 2, -1, -1):
                out = vite(j == k, items[k], out)
            return out

        return ListV(len(items), fn)

    def ev_Attribute(self, node, st):
        memo = self.memo_attrs()
        if node.attr in memo and isinstance(node.value, ast.Name) and node.value.id == "self":
            # MEMO-ATTRIBUTE: the attribute caches a value that depends only on the (immutable) object -
            # established by the structural obligation memo-invariant (pyvc.frames); the function is verified
            # on its cold path (attribute unset), the warm path returns the same value by that invariant
            self.rules_used.add(f"memo-attribute self.{node.attr} (cold path verified; warm path by the memo-invariant obligation)")
            return st.env.get(f"self.{node.attr}", NONE)
        base = self.ev(node.value, st)
        if isinstance(base, ObjV) and node.attr in base.fields:
            return base.fields[node.attr]
        if isinstance(base, ObjV) and base.cls == "type":
            info = self.repo.classes.get(base.fields["name"])
            if info is not None and "Enum" in info["bases"]:
                # Enum member with an integer value: modelled by that value (members of one Enum are
                # distinct objects exactly when their values are distinct)
                for n_ in info["node"].body:
                    if isinstance(n_, ast.Assign) and len(n_.targets) == 1 and isinstance(n_.targets[0], ast.Name) and n_.targets[0].id == node.attr \
                            and isinstance(n_.value, ast.Constant) and isinstance(n_.value.value, int):
                        return IntV(n_.value.value)
            return ObjV("attr", {"of": base, "name": node.attr})
        if node.attr == "__class__":
            if isinstance(base, SeqV) and base.kind == "Perm":
                return ObjV("type", {"name": "Perm"})
            if isinstance(base, ObjV) and base.cls in self.repo.classes:
                return ObjV("type", {"name": base.cls})
        raise Unsupported(f"attribute .{node.attr} of {base!r}")

    def ev_UnaryOp(self, node, st):
        v = self.ev(node.operand, st)
        if isinstance(node.op, ast.Not):
            return BoolV(z3.Not(self.truth(v, st)))
        if isinstance(node.op, ast.USub):
            return IntV(-Z(v))
        if isinstance(node.op, ast.UAdd):
            return IntV(Z(v))
        raise Unsupported(f"unary {type(node.op).__name__}")

    def ev_BinOp(self, node, st):
        return self.binop(node.op, self.ev(node.left, st), self.ev(node.right, st), st)

    def binop(self, op, a, b, st):
        if isinstance(op, ast.Mult) and isinstance(a, ListV) and isinstance(b, (IntV, int)):
            # [x] * n
            c = z3.simplify(a.n)
            if z3.is_int_value(c) and c.as_long() == 1:
                x = a.at(z3.IntVal(0))
                n = Z(b)
                self.emit("list-repeat-nonneg", st, n >= 0)
                return ListV(n, lambda i, x=x: x)
            raise Unsupported("list repetition of a non-singleton")
        if isinstance(op, ast.Mult) and isinstance(a, TupV) and isinstance(b, (IntV, int)):
            k_ = b.concrete() if isinstance(b, IntV) else b
            if k_ is None or k_ < 0:
                raise Unsupported("tuple repetition by a symbolic count")
            return TupV(list(a.items) * k_)  # (x, ...) * k with a literal k
        if isinstance(op, ast.Add) and isinstance(a, (SeqV, ListV, TupV)) and isinstance(b, (SeqV, ListV, TupV)):
            sa, sb = self.as_seq(a, st), self.as_seq(b, st)
            out = SeqV(sa.n + sb.n, lambda i: vite(i < sa.n, sa.at(i), sb.at(i - sa.n)), "list" if isinstance(a, ListV) else sa.kind)
            return ListV(out.n, out._at) if isinstance(a, ListV) else out
        if isinstance(a, (SetV,)) and isinstance(b, SetV) and isinstance(op, (ast.BitOr, ast.BitAnd, ast.Sub)):
            if isinstance(op, ast.BitOr):
                return SetV(lambda v: z3.Or(B(a.contains(v)), B(b.contains(v))), a.arity)
            if isinstance(op, ast.BitAnd):
                return SetV(lambda v: z3.And(B(a.contains(v)), B(b.contains(v))), a.arity)
            return SetV(lambda v: z3.And(B(a.contains(v)), z3.Not(B(b.contains(v)))), a.arity)
        x, y = Z(a), Z(b)
        if isinstance(op, ast.Add):
            return IntV(x + y)
        if isinstance(op, ast.Sub):
            return IntV(x - y)
        if isinstance(op, ast.Mult):
            return IntV(x * y)
        if isinstance(op, (ast.FloorDiv, ast.Mod)):
            yc = z3.simplify(y)
            if z3.is_int_value(yc):
                k = yc.as_long()
                if k <= 0:
                    raise Unsupported("division by a non-positive constant")
                # z3 div/mod with a positive constant divisor coincide with Python's floor semantics
                return IntV(x / yc) if isinstance(op, ast.FloorDiv) else IntV(x % yc)
            # symbolic divisor: explicit quotient (axiomatised functions), requires y > 0
            self.emit("divisor-positive", st, y > 0)
            return IntV(QUO(x, y)) if isinstance(op, ast.FloorDiv) else IntV(REM(x, y))
        if isinstance(op, ast.LShift):
            yc = z3.simplify(y)
            if z3.is_int_value(yc) and 0 <= yc.as_long() <= 62:
                return IntV(x * (2 ** yc.as_long()))
        raise Unsupported(f"binary operator {type(op).__name__} on unbounded ints")

    def ev_BoolOp(self, node, st):
        vals = []
        saved = len(st.pc)
        guards = []
        try:
            for e in node.values:
                v = self.ev(e, st)
                t = self.truth(v, st)
                vals.append((v, t))
                tc = BoolV(t).concrete()
                if tc is (False if isinstance(node.op, ast.And) else True):
                    break  # Python's short circuit: the remaining operands are not evaluated
                gd = t if isinstance(node.op, ast.And) else z3.Not(t)
                guards.append(gd)
                st.pc.append(gd)
        finally:
            _retract_guards(st, saved, guards)
        if all(isinstance(v, (BoolV, bool)) for v, _ in vals):
            ts = [t for _, t in vals]
            return BoolV(z3.And(ts) if isinstance(node.op, ast.And) else z3.Or(ts))
        if node is getattr(self, "_test_node", None):
            ts = [t for _, t in vals]
            return BoolV(z3.And(ts) if isinstance(node.op, ast.And) else z3.Or(ts))
        raise Unsupported("and/or returning a non-boolean operand")

    def ev_Compare(self, node, st):
        left = self.ev(node.left, st)
        parts = []
        saved = len(st.pc)
        guards = []
        try:
            for op, rn in zip(node.ops, node.comparators):
                right = self.ev(rn, st)
                t = self.compare(op, left, right, st)
                parts.append(t)
                if self.concrete and BoolV(t).concrete() is False:
                    break  # chained comparison short-circuits
                guards.append(t)
                st.pc.append(t)
                left = right
        finally:
            _retract_guards(st, saved, guards)
        return BoolV(z3.And(parts) if len(parts) > 1 else parts[0])

    def compare(self, op, a, b, st):
        if isinstance(op, (ast.Is, ast.IsNot)):
            if isinstance(b, NoneV) or isinstance(a, NoneV):
                same = isinstance(a, NoneV) and isinstance(b, NoneV)
                return z3.BoolVal(same if isinstance(op, ast.Is) else not same)
            if isinstance(a, ObjV) and a.cls == "type" and isinstance(b, ObjV) and b.cls == "type":
                same = a.fields["name"] == b.fields["name"]  # classes are singletons: `type(x) is int`
                return z3.BoolVal(same if isinstance(op, ast.Is) else not same)
            raise Unsupported("'is' on non-None values")
        if isinstance(op, (ast.In, ast.NotIn)):
            t = self.contains(b, a, st)
            return t if isinstance(op, ast.In) else z3.Not(t)
        if isinstance(op, ast.Eq):
            return veq(a, b)
        if isinstance(op, ast.NotEq):
            return z3.Not(veq(a, b))
        if isinstance(a, TupV) and isinstance(b, TupV) and len(a) == len(b):
            return self.lex(op, a.items, b.items, st)
        x, y = Z(a), Z(b)
        if isinstance(op, ast.Lt):
            return x < y
        if isinstance(op, ast.LtE):
            return x <= y
        if isinstance(op, ast.Gt):
            return x > y
        if isinstance(op, ast.GtE):
            return x >= y
        raise Unsupported(f"comparison {type(op).__name__}")

    def lex(self, op, xs, ys, st):
        if not xs:
            return z3.BoolVal(isinstance(op, (ast.LtE, ast.GtE)))
        strict = {ast.Lt: ast.Lt, ast.LtE: ast.Lt, ast.Gt: ast.Gt, ast.GtE: ast.Gt}[type(op)]()
        head_lt = self.compare(strict, xs[0], ys[0], st)
        head_eq = veq(xs[0], ys[0])
        return z3.Or(head_lt, z3.And(head_eq, self.lex(op, xs[1:], ys[1:], st)))

    def contains(self, coll, v, st):
        if isinstance(coll, SetV):
            return B(coll.contains(v))
        if isinstance(coll, SeqV) and coll.meta.get("literal") is not None and isinstance(v, (IntV, int)):
            lit = coll.meta["literal"]  # character in "....": one of these codes
            return z3.Or([Z(v) == ord(ch) for ch in lit]) if lit else z3.BoolVal(False)
        if isinstance(coll, (SeqV, ListV)):
            if self.concrete:
                n_c = z3.simplify(coll.n)
                if z3.is_int_value(n_c):
                    alts = [veq(coll.at(z3.IntVal(jj)), v) for jj in range(n_c.as_long())]
                    return z3.Or(alts) if alts else z3.BoolVal(False)
            j = fresh("m")
            return z3.Exists([j], z3.And(j >= 0, j < coll.n, veq(coll.at(j), v)))
        if isinstance(coll, TupV):
            return z3.Or([veq(x, v) for x in coll.items]) if coll.items else z3.BoolVal(False)
        if isinstance(coll, BagV):
            return B(coll.to_set(1 if isinstance(v, (IntV, int)) else len(v)).contains(v))
        if isinstance(coll, ObjV) and callable(coll.fields.get("__contains__")):
            return B(coll.fields["__contains__"](v))  # opaque container with a ghost membership predicate
        raise Unsupported(f"'in' on {coll!r}")

    def ev_IfExp(self, node, st):
        cond = self.ev_test(node.test, st)
        if self.concrete:
            cc0 = BoolV(cond).concrete()
            if cc0 is not None:
                return self.ev(node.body if cc0 else node.orelse, st)
        saved = len(st.pc)
        st.pc.append(cond)
        try:
            a = self.ev(node.body, st)
        finally:
            _retract_guards(st, saved, [cond])
        saved = len(st.pc)
        ncond = z3.Not(cond)
        st.pc.append(ncond)
        try:
            b = self.ev(node.orelse, st)
        finally:
            _retract_guards(st, saved, [ncond])
        cc = BoolV(cond).concrete()
        if cc is True:
            return a
        if cc is False:
            return b
        return vite(cond, a, b)

    def ev_Subscript(self, node, st):
        base = self.ev(node.value, st)
        if isinstance(node.slice, ast.Slice):
            return self.slice(base, node.slice, st)
        idx = self.ev(node.slice, st)
        if isinstance(base, TupV):
            c = idx.concrete() if isinstance(idx, IntV) else idx
            if c is None:
                raise Unsupported("symbolic index into a fixed tuple")
            return base.items[c]
        if isinstance(base, (SeqV, ListV)):
            i = self.norm_index(idx, base.n, st, "load")
            return base.at(i)
        raise Unsupported(f"subscript of {base!r}")

    def slice(self, base, sl, st):
        seq = self.as_seq(base, st)
        if sl.step is not None:
            raise Unsupported("slice with a step")
        n = seq.n

        def clamp(v, default):
            if v is None:
                return default
            t = Z(self.ev(v, st))
            if t.eq(n):
                return n  # s[a:len(s)]: the length is non-negative, nothing to clamp
            tc = z3.simplify(t)
            if z3.is_int_value(tc) and tc.as_long() >= 0:
                return z3.simplify(z3.If(tc > n, n, tc))
            t = z3.If(t < 0, t + n, t)
            return z3.If(t < 0, z3.IntVal(0), z3.If(t > n, n, t))

        lo = clamp(sl.lower, z3.IntVal(0))
        hi = clamp(sl.upper, n)
        ln = z3.If(hi > lo, hi - lo, z3.IntVal(0))
        lo_c = z3.simplify(lo)
        at = (lambda i: seq.at(i)) if (z3.is_int_value(lo_c) and lo_c.as_long() == 0) else (lambda i: seq.at(lo + i))
        named = getattr(self.contract.cls, "named_slices", False) if self.contract is not None else False
        probe = fresh("slp")
        if named and not self.concrete and not (z3.is_int_value(lo_c) and lo_c.as_long() == 0) and isinstance(seq.at(probe), IntV) and dsl._pat_ok(Z(seq.at(probe))):
            # NAMED SLICE (opt-in per contract): the shifted window is a fresh function with its definition stated
            # in both directions, so that facts about the window and facts about the base trigger each other
            # (E-matching does not see that  base(lo + i)  and  base(j)  are the same term for j = lo + i)
            new = fresh_fun("slice", z3.IntSort(), z3.IntSort())
            m = fresh("sm")
            st.assume(z3.ForAll([m], z3.Implies(z3.And(m >= 0, m < ln), new(m) == Z(seq.at(lo + m))), patterns=[new(m)], qid="named-slice"))
            st.assume(z3.ForAll([m], z3.Implies(z3.And(m >= lo, m < lo + ln), Z(seq.at(m)) == new(m - lo)), patterns=[Z(seq.at(m))], qid="named-slice-back"))
            at = lambda i, new=new: IntV(new(Z(i)))  # noqa: E731
        if isinstance(base, ListV):
            return ListV(ln, at)  # a slice of a list is a new list
        return SeqV(ln, at, seq.kind if seq.kind in ("tuple", "list") else "tuple")

    def ev_Lambda(self, node, st):
        return FunV(node, st.env)

    # -------------------------------------------------------- comprehensions
    def ev_GeneratorExp(self, node, st):
        return self.comprehension(node.elt, node.generators, st, "gen")

    def _mapped_tuple(self, node, st):
        """[P[x] for x in T] with T a tuple term and P a named sequence: the tuple term thru_P(T)"""
        if self.concrete or len(node.generators) != 1:
            return None
        g = node.generators[0]
        e = node.elt
        if g.ifs or not isinstance(g.target, ast.Name) or not (isinstance(e, ast.Subscript) and isinstance(e.value, ast.Name)
                                                                and isinstance(e.slice, ast.Name) and e.slice.id == g.target.id):
            return None
        if not isinstance(g.iter, ast.Name):
            return None
        src = st.env.get(g.iter.id)
        base = st.env.get(e.value.id)
        if not (isinstance(src, SeqV) and src.meta.get("tterm") is not None and isinstance(base, SeqV) and base.meta.get("fun") is not None):
            return None
        # every element of T must be a valid index of P: the usual bounds obligation, for an arbitrary position
        j = fresh("mj")
        self.emit("index-bounds", st, z3.ForAll([j], z3.Implies(z3.And(j >= 0, j < src.n), z3.And(Z(src.at(j)) >= 0, Z(src.at(j)) < base.n))), "@load")
        return from_T(self.map_through(base, src.meta["tterm"]))

    def ev_ListComp(self, node, st):
        mt = self._mapped_tuple(node, st)
        if mt is not None:
            return mt
        out = self.comprehension(node.elt, node.generators, st, "list")
        if isinstance(out, SeqV):
            return ListV(out.n, out._at)
        return out

    def ev_SetComp(self, node, st):
        out = self.comprehension(node.elt, node.generators, st, "gen")
        return self.to_set(out, st)

    def comprehension(self, elt, gens, st, kind):
        if len(gens) != 1:
            return self.nested_comprehension(elt, gens, st, kind)
        g = gens[0]
        src = self.ev(g.iter, st)
        if isinstance(src, SetV):
            names = [n.id for n in ast.walk(g.target) if isinstance(n, ast.Name)]
            nvars = len(names)
            env0 = dict(st.env)

            def bind(xs):
                s2 = State(dict(env0), list(st.pc))
                val = IntV(xs[0]) if src.arity == 1 else TupV([IntV(x) for x in xs])
                self.assign(g.target, val, s2)
                return s2

            if g.ifs:
                dom0 = src

                def dom_contains(v, dom0=dom0):
                    xs = [Z(v)] if dom0.arity == 1 else [Z(t) for t in v]
                    s2 = bind(xs)
                    conds = [self.truth(self.ev(c_, s2), s2) for c_ in g.ifs]
                    return z3.And(B(dom0.contains(v)), *conds)

                dom = SetV(dom_contains, src.arity)
            else:
                dom = src

            def eltf(xs):
                s2 = bind(xs)
                return self.ev(elt, s2)

            return BagV(dom, src.arity, eltf)
        if isinstance(src, TupV):
            outs = []
            for item in src.items:
                s2 = st.child(forward=True)
                self.assign(g.target, item, s2)
                keep = [self.truth(self.ev(c_, s2), s2) for c_ in g.ifs]
                if keep:
                    raise Unsupported("filtered comprehension over a fixed tuple")
                outs.append(self.ev(elt, s2))
            return TupV(outs)
        seq = self.as_seq(src, st)
        # Snapshot of the environment at creation.  A real generator expression looks its free
        # variables up lazily; the two coincide unless a captured name is rebound before the
        # generator is consumed - `assign` refuses that case (Unsupported) for generators kept in
        # a local.
        env0 = {k: (v.copy() if isinstance(v, ListV) else v) for k, v in st.env.items()}
        pc0 = list(st.pc)
        eng = self
        captures = {n.id for part in [elt] + list(g.ifs) for n in ast.walk(part) if isinstance(n, ast.Name)} - _target_names(g.target)

        def elem_state(i):
            s2 = State(dict(env0), list(pc0))
            s2.pc.append(z3.And(i >= 0, i < seq.n))
            eng.assign(g.target, seq.at(i), s2)
            return s2

        if not g.ifs:
            # bounds obligations inside the element expression: check once for an arbitrary index
            if not self.concrete:
                probe = fresh("ci")
                s_probe = elem_state(probe)
                self.ev(elt, s_probe)

            def at(i):
                s2 = elem_state(i)
                mark = len(eng.obls)
                v = eng.ev(elt, s2)
                del eng.obls[mark:]  # already emitted for the arbitrary index
                return v

            meta = {"captures": captures} if kind == "gen" else {}
            if isinstance(seq, SeqV) and seq.meta.get("lazy_tag") is not None:
                if kind != "gen":
                    raise Unsupported("a view of a stateful iterator is consumed eagerly by a comprehension")
                meta["lazy_tag"] = seq.meta["lazy_tag"]
            flt0 = (seq.meta.get("filter") or seq.meta.get("eq_filter")) if isinstance(seq, SeqV) else None
            if flt0 is not None and not self.concrete:
                # a map over (a sequence equal to) a filter: remembered for the FILTER-SUM rule of sum()
                def at_base(k, flt0=flt0):
                    s2 = State(dict(env0), list(pc0))
                    s2.pc.append(z3.And(k >= 0, k < flt0["n"], flt0["pred"](k)))
                    eng.assign(g.target, flt0["val"](k), s2)
                    mark = len(eng.obls)
                    v = eng.ev(elt, s2)
                    del eng.obls[mark:]
                    return v

                meta["map_filter"] = {"n": flt0["n"], "pred": flt0["pred"], "val": at_base}
            arg = getattr(src, "argsort", None)
            if arg is not None and isinstance(elt, ast.Name) and isinstance(g.target, ast.Tuple) and isinstance(g.target.elts[0], ast.Name) \
                    and g.target.elts[0].id == elt.id and arg[2].meta.get("enumerate_start") == 0:
                # rule ARGSORT-PROJECTION: the first components of a stably sorted enumerate(...) are
                # sigma(0..n-1), a permutation of range(n) whose inverse is the ghost tau
                tau = arg[1]
                meta["ginv"] = lambda v, tau=tau: IntV(tau(Z(v)))
                self.rules_used.add("argsort-projection")
            return SeqV(seq.n, at, kind, meta)
        # filtered: prefix-count characterisation
        out = self.filtered(seq, g, elt, st, kind, elem_state)
        if kind == "gen":
            out.meta["captures"] = captures
        return out

    def filtered(self, seq, g, elt, st, kind, elem_state):
        eng = self

        def pred(i):
            s2 = elem_state(i)
            mark = len(eng.obls)
            ts = []
            for c_ in g.ifs:
                t = eng.truth(eng.ev(c_, s2), s2)
                ts.append(t)
                s2.pc.append(t)
            del eng.obls[mark:]
            return z3.And(ts) if len(ts) > 1 else ts[0]

        def val(i):
            s2 = elem_state(i)
            for c_ in g.ifs:
                s2.pc.append(eng.truth(eng.ev(c_, s2), s2))
            mark = len(eng.obls)
            v = eng.ev(elt, s2)
            del eng.obls[mark:]
            return v

        # obligations of predicate / element for an arbitrary index
        if not self.concrete:
            probe = fresh("ci")
            s_probe = elem_state(probe)
            for c_ in g.ifs:
                s_probe.pc.append(self.truth(self.ev(c_, s_probe), s_probe))
            self.ev(elt, s_probe)
        return self.make_filter(seq.n, pred, val, st, kind)

    def make_filter_concrete(self, n, pred, val, kind):
        n_c = z3.simplify(n)
        if not z3.is_int_value(n_c):
            raise Unsupported("concrete mode: filter over a symbolic range")
        items = []
        for i in range(n_c.as_long()):
            keep = BoolV(pred(z3.IntVal(i))).concrete()
            if keep is None:
                raise Unsupported("concrete mode: symbolic filter predicate")
            if keep:
                items.append(val(z3.IntVal(i)))
        return self.as_seq(TupV(items), None).with_kind(kind) if items else SeqV(0, lambda i: IntV(0), kind)

    def make_filter(self, n, pred, val, st, kind):
        """[val(i) for i in range(n) if pred(i)] through cnt/sel (prefix count and
        selector).  The axioms below are the complete characterisation of a filter;
        their consistency (existence of cnt, sel) is the TRUSTED 'filter = subsequence'
        fact, generic lemmas about them are proved once in pyvc/lemmas.py."""
        if self.concrete:
            return self.make_filter_concrete(n, pred, val, kind)
        cnt = fresh_fun("cnt", z3.IntSort(), z3.IntSort())
        sel = fresh_fun("sel", z3.IntSort(), z3.IntSort())
        i, j = fresh("fi"), fresh("fj")
        ax = [
            cnt(0) == 0,
            z3.ForAll([i], z3.Implies(z3.And(i >= 0, i < n), cnt(i + 1) == cnt(i) + z3.If(pred(i), 1, 0)), patterns=[cnt(i + 1)]),
            z3.ForAll([i], z3.Implies(z3.And(i >= 0, i <= n), z3.And(cnt(i) >= 0, cnt(i) <= i, cnt(i) <= cnt(n))), patterns=[cnt(i)]),
            z3.ForAll([i], z3.Implies(z3.And(i >= 0, i < n, pred(i)), z3.And(sel(cnt(i)) == i, cnt(i) < cnt(n))), patterns=[cnt(i)]),
            z3.ForAll([j], z3.Implies(z3.And(j >= 0, j < cnt(n)), z3.And(sel(j) >= 0, sel(j) < n, pred(sel(j)), cnt(sel(j)) == j)), patterns=[sel(j)]),
            z3.ForAll([i, j], z3.Implies(z3.And(i >= 0, i < j, j < cnt(n)), sel(i) < sel(j)), patterns=[z3.MultiPattern(sel(i), sel(j))]),
        ]
        self.filter_registry.append(cnt)
        for a in ax:
            st.assume(a)
            self.definitional[a.get_id()] = (cnt.name(), sel.name())
        out = SeqV(cnt(n), lambda k: val(sel(k)), kind, {"filter": {"n": n, "pred": pred, "val": val, "cnt": cnt, "sel": sel}})
        return out

    def nested_comprehension(self, elt, gens, st, kind):
        """Several for-clauses: only the *collection of values* is modelled (BagV over the product
        of the index domains) - enough for set(...) / frozenset(...) / any / all consumers."""
        if len(gens) == 2 and not gens[0].ifs and not gens[1].ifs and isinstance(gens[1].target, ast.Name) and isinstance(elt, ast.Name) and elt.id == gens[1].target.id:
            # {x for item in FIXED_TUPLE for x in f(item)} with set-valued f(item): the union of those sets
            outer = self.ev(gens[0].iter, st)
            if isinstance(outer, TupV):
                parts = []
                for item in outer.items:
                    s2 = st.child(forward=True)
                    self.assign(gens[0].target, item, s2)
                    inner = self.ev(gens[1].iter, s2)
                    if not (isinstance(inner, SetV) and inner.arity == 1):
                        parts = None
                        break
                    parts.append(inner)
                if parts is not None:
                    return SetV(lambda v, parts=parts: z3.Or([B(p_.contains(v)) for p_ in parts]) if parts else z3.BoolVal(False), 1)
        env0 = {k: (v.copy() if isinstance(v, ListV) else v) for k, v in st.env.items()}
        pc0 = list(st.pc)
        eng = self
        nv = len(gens)

        def bind(xs, emit_obligations):
            s2 = State(dict(env0), list(pc0))
            guards = []
            mark = len(eng.obls)
            for k, g in enumerate(gens):
                src = eng.ev(g.iter, s2)
                if isinstance(src, (SetV, BagV)):
                    raise Unsupported("nested comprehension over a non-sequence")
                seq = eng.as_seq(src, s2)
                x = xs[k]
                if seq.kind == "range" and "lo" in seq.meta:
                    dom = z3.And(x >= seq.meta["lo"], x < seq.meta["hi"])
                    val = IntV(x)
                else:
                    dom = z3.And(x >= 0, x < seq.n)
                    val = seq.at(x)
                guards.append(dom)
                s2.pc.append(dom)
                eng.assign(g.target, val, s2)
                for cnd in g.ifs:
                    t = eng.truth(eng.ev(cnd, s2), s2)
                    guards.append(t)
                    s2.pc.append(t)
            v = eng.ev(elt, s2)
            if not emit_obligations:
                del eng.obls[mark:]
            return z3.And(guards), v

        probe = [fresh("nc") for _ in range(nv)]
        bind(probe, True)  # obligations for arbitrary indices, once

        def dom_contains(t):
            xs = [Z(t)] if nv == 1 else [Z(u) for u in t]
            return bind(xs, False)[0]

        def eltf(xs):
            return bind(xs, False)[1]

        return BagV(SetV(dom_contains, nv), nv, eltf)

    def to_set(self, v, st, arity=None):
        if isinstance(v, SetV):
            return v
        if isinstance(v, BagV):
            probe = v.elt([fresh("p") for _ in range(v.nvars)])
            ar = len(probe) if isinstance(probe, TupV) else 1
            return v.to_set(ar)
        if isinstance(v, SeqV) and v.kind == "range" and "lo" in v.meta and "hi" in v.meta:
            lo_, hi_ = v.meta["lo"], v.meta["hi"]
            out_ = SetV(lambda x, lo_=lo_, hi_=hi_: z3.And(Z(x) >= lo_, Z(x) < hi_), 1)  # set(range(lo, hi))
            if self.concrete:
                l0, h0 = z3.simplify(lo_), z3.simplify(hi_)
                if z3.is_int_value(l0) and z3.is_int_value(h0):
                    out_.elements = [IntV(k_) for k_ in range(l0.as_long(), h0.as_long())]
            return out_
        if isinstance(v, (SeqV, ListV, TupV)):
            seq = self.as_seq(v, st)
            sample = seq.at(fresh("s"))
            ar = len(sample) if isinstance(sample, TupV) else 1
            win = seq.meta.get("window_of") if isinstance(seq, SeqV) else None

            def contains(x, seq=seq):
                if self.concrete:
                    n_c = z3.simplify(seq.n)
                    if z3.is_int_value(n_c):
                        alts = [veq(seq.at(z3.IntVal(jj)), x) for jj in range(n_c.as_long())]
                        return z3.Or(alts) if alts else z3.BoolVal(False)
                j = fresh("m")
                slow = z3.Exists([j], z3.And(j >= 0, j < seq.n, veq(seq.at(j), x)))
                if win is not None:
                    # PERM-WINDOW: for a bijection p with two-sided inverse g,  x in p[lo:hi]  <=>  0 <= x < n and
                    # lo <= g(x) < hi.  Stated conditionally on the bijection formula itself, so it is sound
                    # whether or not that formula is known in the context.
                    g_ = win.meta["ginv"]
                    gx = Z(g_(x))
                    fast = z3.And(Z(x) >= 0, Z(x) < win.n, gx >= seq.meta["lo"], gx < seq.meta["hi"])
                    self.rules_used.add("perm-window membership via the ghost inverse")
                    return z3.If(dsl.perm_formula(win, g_), fast, slow)
                return slow

            out_ = SetV(contains, ar)
            n_e = z3.simplify(seq.n)
            if z3.is_int_value(n_e) and n_e.as_long() == 0:
                out_.is_empty = True
            if self.concrete:
                n_c0 = z3.simplify(seq.n)
                if z3.is_int_value(n_c0):
                    out_.elements = [seq.at(z3.IntVal(jj)) for jj in range(n_c0.as_long())]
            return out_
        raise Unsupported(f"set() of {v!r}")

    # ------------------------------------------------------------------ calls
    def ev_Call(self, node, st):
        from . import builtins_model as bm

        return bm.call(self, node, st)

    def apply_fun(self, fv, args, st):
        node = fv.node
        if isinstance(node, ast.Lambda):
            env = dict(fv.env)
            for a, v in zip(node.args.args, args):
                env[a.arg] = v
            s2 = State(env, st.pc)
            return self.ev(node.body, s2)
        if isinstance(node, ast.FunctionDef):
            if self.concrete:
                return self.inline_nested(fv, args, st)
            if getattr(fv, "contract", None) is not None:
                return self.call_inner(fv, args, st)
        raise Unsupported("call of a nested def without an inner contract")

    # ---------------------------------------------------- one stateful iterator shared by several lazy views
    def iterator_take(self, it, k):
        """ITERATOR-SPLIT: `it = iter(seq)`; islice(it, k) and a later use of `it` itself are LAZY views that
        take the next k / all remaining items WHEN CONSUMED.  The views are numbered in creation order; they
        may only be consumed by one itertools.chain(...) call that lists all of them in that order (checked
        there) - then consumption order equals creation order and the windows below are what CPython yields."""
        seq = it.fields["seq"]
        pos = Z(it.fields["pos"])
        n = seq.n
        if k is None:
            hi = n
        else:
            kk = Z(k)
            hi = z3.If(pos + kk > n, n, pos + kk)
        ln = z3.If(hi > pos, hi - pos, z3.IntVal(0))
        order = len(it.fields["views"])
        view = SeqV(ln, lambda i, seq=seq, pos=pos: seq.at(pos + i), "gen", {"lazy_tag": (id(it), order)})
        it.fields["views"].append(order)
        it.fields["pos"] = IntV(hi)
        self.rules_used.add("iterator-split (views of one iterator consumed in creation order by a single chain)")
        return view

    # ---------------------------------------------------- tuples mapped through a sequence, counts
    def map_through(self, seq, tau):
        """the tuple (seq[e] for e in t) as a TERM: one function symbol per mapping sequence, defined
        pointwise (definitional axiom).  Used for `[patt[i] for i in indices]`."""
        F_ = seq.meta.get("fun") if isinstance(seq, SeqV) else None
        if F_ is None:
            raise Unsupported("mapping a tuple through a sequence that is not a named parameter")
        key = F_.get_id()
        if not hasattr(self, "_map_funs"):
            self._map_funs = {}
        if key not in self._map_funs:
            M_ = fresh_fun("thru", TUP, TUP)
            t_ = z3.Const(f"thru_t!{next(_SK)}", TUP)
            j_ = fresh("tj")
            self.global_axioms.append(z3.ForAll([t_], TLEN(M_(t_)) == TLEN(t_), patterns=[M_(t_)], qid="thru-len"))
            self.global_axioms.append(z3.ForAll([t_, j_], TEL(M_(t_), j_) == F_(TEL(t_, j_)), patterns=[TEL(M_(t_), j_), z3.MultiPattern(M_(t_), TEL(t_, j_))], qid="thru-el"))
            self._map_funs[key] = M_
        return self._map_funs[key](tau)

    def count_below(self, tau, v, upto=None):
        if not getattr(self, "_clt_on", False):
            self._clt_on = True
            self.global_axioms.extend(clt_axioms())
        return IntV(CLT(tau, Z(v), TLEN(tau) if upto is None else Z(upto)))

    # ---------------------------------------------------- nested functions under an inner contract
    def fresh_tuplist(self, st, empty=False):
        row = fresh_fun("row", z3.IntSort(), TUP)
        self.row_registry.append(row)
        if empty:
            return TupListV(0, row)
        n = fresh("rows_n")
        st.assume(n >= 0)
        return TupListV(n, row)

    def _inner_params(self, node):
        a = node.args
        if a.vararg or a.kwarg or a.kwonlyargs or a.defaults:
            raise Unsupported("nested def with defaults / varargs")
        return [x.arg for x in a.args]

    def _havoc_mutated(self, IK, st):
        """The lists a nested function may store into (declared in its inner contract, and checked:
        a store to any other closure list is refused) get arbitrary content of the same length."""
        for nm in getattr(IK, "mutates", ()):
            cur = st.env.get(nm)
            if not isinstance(cur, ListV):
                raise Unsupported(f"inner contract: '{nm}' is not a local list")
            F_ = fresh_fun(nm, z3.IntSort(), z3.IntSort())
            st.env[nm] = ListV(cur.n, lambda j, F_=F_: IntV(F_(j)))

    def _snapshot_env(self, st, IK):
        env = dict(st.env)
        for nm in getattr(IK, "mutates", ()):
            env[nm] = st.env[nm].snapshot()
        return env

    def verify_inner(self, node, IK, st):
        """The nested function is verified as a unit of its own against its inner contract: arbitrary
        arguments, arbitrary content of the closure lists it may mutate, every other closure variable
        as bound (and never rebound afterwards: checked) at the definition."""
        names = self._inner_params(node)
        body_assigned = assigned_names(node.body)
        local_names = set(names) | {n_ for n_ in body_assigned if n_ not in st.env or n_ in names}
        for nm in body_assigned - local_names - {"__out__"}:
            if nm not in getattr(IK, "mutates", ()):
                raise Unsupported(f"nested def {node.name} assigns/mutates closure variable '{nm}' not declared in the inner contract")
        outer_rest = self.func.body[self.func.body.index(node) + 1:] if node in self.func.body else None
        if outer_rest is None:
            raise Unsupported("inner contract on a def that is not a top-level statement of the function")
        captured = {n_.id for n_ in ast.walk(node) if isinstance(n_, ast.Name)} & set(st.env)
        rebound = assigned_names(outer_rest) & captured
        if rebound:
            raise Unsupported(f"closure variables rebound after the nested def: {sorted(rebound)}")
        s = st.fork()
        s.env[node.name] = st.env[node.name]
        self._havoc_mutated(IK, s)
        args = []
        for nm in names:
            v = IntV(fresh(nm))
            s.env[nm] = v
            args.append(v)
        c = dsl.SymCtx(self)
        entry = self._snapshot_env(s, IK)
        entry_ns = _NS(dict(entry, **{"__params__": self.params}))
        s.env["__entry__"] = _NS(dict(entry))
        pre = IK.requires(c, entry_ns, *args)
        s.assume(pre)
        for f in c.side:
            s.assume(f)
        c.side.clear()
        is_gen = any(isinstance(n_, (ast.Yield, ast.YieldFrom)) for n_ in ast.walk(node))
        if is_gen:
            s.env["__out__"] = self.fresh_tuplist(s, empty=True)
        saved_func, saved_ret = self.func, self.ret_ordinal
        outer = self.func

        class _Shim:
            qualname = f"{outer.qualname}.<{node.name}>"
            module = outer.module
            lines = outer.lines
            body = node.body
            cls = getattr(outer, "cls", None)
            kind = "nested"

        self.func = _Shim
        self.ret_ordinal = 0
        try:
            for kind, s2, val in self.exec_block(node.body, s):
                if kind == "raise":
                    self.emit("no-raise", s2, z3.BoolVal(False), f"[{val}]")
                    continue
                if kind not in ("fall", "return"):
                    raise Unsupported(f"{kind} outside a loop in nested def")
                self.ret_ordinal += 1
                tag = f"#{self.ret_ordinal}"
                self.obls.append(Obligation(f"{_Shim.qualname}:cover{tag}", "cover", _Shim.qualname, s2.pc, z3.BoolVal(True), expect="sat"))
                if is_gen:
                    res = s2.env["__out__"].snapshot("gen")
                else:
                    res = NONE if kind == "fall" else val
                exit_ns = _NS(dict(self._snapshot_env(s2, IK), **{"__params__": self.params}))
                goal = IK.ensures(c, entry_ns, *args, res, exit_ns)
                hy = State(s2.env, list(s2.pc))
                for f in c.side:
                    hy.assume(f)
                c.side.clear()
                for j, conj in enumerate(_conjuncts(B(goal))):
                    self.emit("post@return", hy, conj, f"{tag}.{j}")
        finally:
            self.func, self.ret_ordinal = saved_func, saved_ret

    def call_inner(self, fv, args, st):
        """Call of a nested function by its inner contract (also the recursive calls inside it)."""
        IK = fv.contract
        c = dsl.SymCtx(self)
        entry = self._snapshot_env(st, IK)
        entry_ns = _NS(dict(entry, **{"__params__": self.params}))
        pre = IK.requires(c, entry_ns, *args)
        for f in c.side:
            st.assume(f)
        c.side.clear()
        for j, conj in enumerate(_conjuncts(B(pre))):
            self.emit("pre@callsite", st, conj, f"[<{fv.node.name}>].{j}")
        self._havoc_mutated(IK, st)
        is_gen = any(isinstance(n_, (ast.Yield, ast.YieldFrom)) for n_ in ast.walk(fv.node))
        if is_gen:
            res_l = self.fresh_tuplist(st)
            res = res_l.snapshot("gen")
        else:
            raise Unsupported("nested non-generator functions under contract")
        exit_ns = _NS(dict(self._snapshot_env(st, IK), **{"__params__": self.params}))
        post = IK.ensures(c, entry_ns, *args, res, exit_ns)
        st.assume(post)
        for f in c.side:
            st.assume(f)
        c.side.clear()
        self.rules_used.add("nested-function-by-inner-contract (partial correctness: termination of the recursion is not verified)")
        return res

    def inline_nested(self, fv, args, st):
        """Concrete mode (CPython differential check): the nested def is executed at the call site on
        the caller's environment (closure lists are shared objects, as in Python)."""
        node = fv.node
        names = self._inner_params(node)
        is_gen = any(isinstance(n_, (ast.Yield, ast.YieldFrom)) for n_ in ast.walk(node))
        # the callee's frame: its parameters and every name it binds by plain assignment (a store
        # through a subscript mutates the shared closure object and is NOT part of the frame)
        plain = set()
        for n_ in ast.walk(ast.Module(body=node.body, type_ignores=[])):
            if isinstance(n_, (ast.Assign, ast.AugAssign, ast.AnnAssign, ast.For)):
                for t_ in (n_.targets if isinstance(n_, ast.Assign) else [n_.target]):
                    for e_ in ast.walk(t_):
                        if isinstance(e_, ast.Name) and isinstance(e_.ctx, ast.Store):
                            plain.add(e_.id)
        frame = list(dict.fromkeys(names + sorted(plain) + ["__out__"]))
        saved = {nm: st.env.get(nm) for nm in frame}
        local_extra = []
        for nm, v in zip(names, args):
            st.env[nm] = v
        if is_gen:
            st.env["__out__"] = self.fresh_tuplist(st, empty=True) if isinstance(saved["__out__"], TupListV) else ListV(0, lambda i: IntV(0))
        outs = self.exec_block(node.body, st)
        if len(outs) != 1:
            raise Unsupported("concrete mode: nested def forked")
        kind, s2, val = outs[0]
        if kind == "raise":
            raise _PyRaise(val)
        res = s2.env["__out__"].snapshot("gen") if is_gen else (NONE if kind == "fall" else val)
        for nm, v in saved.items():
            if v is None:
                st.env.pop(nm, None)
            else:
                st.env[nm] = v
        for nm in local_extra:
            st.env.pop(nm, None)
        return res

    def inline_call(self, F, args, st):
        """Symbolically execute the body of a small uncontracted helper at the call site
        (only for functions listed in the caller contract's `inline`)."""
        env = {}
        names = list(F.params)
        fixed = args[: len(names)]
        for nm, v in zip(names, fixed):
            env[nm] = v
        if len(fixed) < len(names):
            raise Unsupported(f"inline call of {F.qualname}: missing arguments")
        if F.vararg:
            env[F.vararg] = TupV(args[len(names):])
        elif len(args) > len(names):
            raise Unsupported(f"inline call of {F.qualname}: too many arguments")
        saved_ord = {}
        k_ord = 1000
        for n_ in ast.walk(ast.Module(body=F.body, type_ignores=[])):
            if isinstance(n_, (ast.For, ast.While)):
                saved_ord[n_] = getattr(n_, "_ordinal", None)
                n_._ordinal = k_ord
                k_ord += 1
        is_gen = any(isinstance(n_, (ast.Yield, ast.YieldFrom)) for n_ in ast.walk(ast.Module(body=F.body, type_ignores=[])))
        if is_gen:
            env["__out__"] = ListV(0, lambda i: IntV(0))
        s0 = State(env, list(st.pc))
        outs = self.exec_block(F.body, s0)
        vals = []
        for kind, s, val in outs:
            if is_gen and kind in ("return", "fall"):
                vals.append((s, s.env["__out__"].snapshot("gen")))
            elif kind == "return":
                vals.append((s, val))
            elif kind == "fall":
                vals.append((s, NONE))
            elif kind == "raise" and self.concrete:
                raise _PyRaise(val)
            else:
                raise Unsupported(f"inline call of {F.qualname}: path ends in {kind}")
        self.inlined.add(F.qualname)
        if len(vals) == 1:
            for f in vals[0][0].pc[len(st.pc):]:
                st.assume(f)
            return vals[0][1]
        base = len(st.pc)
        out = vals[-1][1]
        for s, v in reversed(vals[:-1]):
            cond = z3.And(s.pc[base:]) if len(s.pc) > base else z3.BoolVal(True)
            out = vite(cond, v, out)
        return out

    def call_by_contract(self, name, args, ctx=None, st=None, kwargs=None):
        if self.concrete and st is not None:
            K0 = self.contracts.get(name) or self.contracts.get(f"{name}@{len(args)}")
            if K0 is not None and K0.assumed and getattr(self, "concrete_oracle", None) is not None:
                # a callee whose contract is ASSUMED (outside the subset): the differential check uses the
                # real function as the oracle for its value
                return self.concrete_oracle(K0, list(args))
            F = self.repo.get(name.split("@")[0])
            if F is None:
                raise Unsupported(f"concrete mode: {name} not found")
            full = list(args)
            if F.kind == "classmethod" and full and isinstance(full[0], NoneV):
                full = full[1:]  # the contract-level `cls` placeholder
            # fill defaults from the function signature
            names = [p for p in F.params]
            if F.kind == "classmethod":
                names = names[1:]
            defaults = F.defaults
            kwargs = kwargs or {}
            while len(full) < len(names):
                nm = names[len(full)]
                k_from_end = len(names) - len(full)
                if nm in kwargs:
                    full.append(kwargs[nm])
                elif k_from_end <= len(defaults):
                    full.append(self.ev(defaults[len(defaults) - k_from_end], State()))
                else:
                    raise Unsupported(f"concrete mode: missing argument {nm} of {name}")
            if F.kind == "classmethod":
                full = [ObjV("type", {"name": F.cls})] + full
            saved = self.func
            self.func = F
            try:
                return self.inline_call(F, full, st)
            finally:
                self.func = saved
        K = self.contracts.get(name)
        if K is not None and len(args) > len(K.params):
            K = None  # more positional arguments than this variant models: the arity variant must exist
        if K is None:
            K = self.contracts.get(f"{name}@{len(args)}")
        if K is None:
            F = self.repo.get(name)
            if F is not None and self.contract is not None and name in getattr(self.contract.cls, "inline", ()) and st is not None:
                return self.inline_call(F, list(args), st)
            raise Unsupported(f"call to {name} which has no contract")
        self.used_contracts.add(name)
        c = ctx or dsl.SymCtx(self)
        if st is None and getattr(c, "state", None) is not None:
            st = c.state
        names = list(K.params)
        vals = list(args)
        kwargs = kwargs or {}
        while len(vals) < len(names):
            nm = names[len(vals)]
            if nm in kwargs:
                vals.append(kwargs[nm])
            elif nm in K.defaults:
                d = K.defaults[nm]
                vals.append(NONE if d is None else IntV(d) if isinstance(d, int) and not isinstance(d, bool) else BoolV(d))
            else:
                raise Unsupported(f"call to {name}: missing argument '{nm}'")
        if st is not None and K.raises is not None:
            cond = K.raises(c, *vals)
            exc = K.raises_type if isinstance(K.raises_type, str) else (K.raises_type or ("Exception",))[0]
            if isinstance(cond, bool):
                if cond:
                    raise _PyRaise(exc)
            else:
                bt = B(cond)
                cc = BoolV(bt).concrete()
                if cc is True:
                    raise _PyRaise(exc)
                if cc is None:
                    known = st.decided.get(bt.get_id())
                    if known is None:
                        raise _ForkNeeded(bt)
                    if known:
                        raise _PyRaise(exc)
        if st is not None and K.requires:
            pre = K.requires(c, *vals)
            for f in c.side:
                st.assume(f)
            c.side.clear()
            for j, conj in enumerate(_conjuncts(B(pre))):
                self.emit("pre@callsite", st, conj, f"[{name}].{j}")
        # a contracted function is a function of its arguments (frames: modifies == ()): the same
        # callee applied to the same argument values denotes the same result
        def _ident(a):
            if isinstance(a, SeqV):
                f_ = a.meta.get("fun")
                return ("seq", f_.get_id() if f_ is not None else id(a))
            if isinstance(a, ObjV):
                return ("obj", a.cls, tuple(_ident(v) for v in a.fields.values()))
            if isinstance(a, SetV):
                f_ = getattr(a, "fun", None)
                return ("set", f_.get_id() if f_ is not None else id(a))
            if isinstance(a, (IntV, BoolV)):
                return ("t", a.t.get_id())
            if isinstance(a, TupV):
                return ("tup", tuple(_ident(v) for v in a.items))
            if isinstance(a, ListV):
                # a mutable list: the same object with other content is another argument value
                return ("list", id(a), id(a.fn), a.n.get_id())
            return ("py", repr(a))

        if K.value is not None:
            # functional contract: the callee's result IS this expression of the arguments (checked
            # against `ensures` by the obligation value-consistent of the callee); usable under binders
            out = K.value(c, *vals)
            if st is not None:
                for f in c.side:
                    st.assume(f)
                c.side.clear()
            return out if isinstance(out, V) else (BoolV(out) if isinstance(out, bool) else IntV(out))
        mkey = (name, (getattr(self.contract.cls, "use_views", None) or {}).get(K.name) if self.contract is not None else None) + tuple(_ident(v) for v in vals)
        if mkey in self.call_memo:
            res, facts, _g = self.call_memo[mkey]
        else:
            tmp = State()
            res = self.fresh_result(K, tmp)
            # GHOST OUTPUTS: functions the callee's postcondition speaks about in addition to the result (e.g. where
            # each input position went); for the caller they are fresh symbols constrained by that postcondition
            gfuns = {g: fresh_fun("gout_" + g, z3.IntSort(), z3.IntSort()) for g in (getattr(K.cls, "ghost_outputs", None) or ())}
            c._gout = {g: (lambda x, f_=f_: IntV(f_(Z(x)))) for g, f_ in gfuns.items()}
            view = (getattr(self.contract.cls, "use_views", None) or {}).get(K.name) if self.contract is not None else None
            if view is not None:
                # the caller asked for a named VIEW of the callee's postcondition: a weaker formula that the
                # callee's own verification proves in addition to `ensures` (obligation post-view[...])
                post = K.cls.views[view](c, *vals, res)
                facts = tmp.pc + [B(post)] + c.side
                c.side = []
            elif K.ensures:
                if isinstance(res, SeqV):
                    res.meta["fresh_result"] = True
                post = K.ensures(c, *vals, res)
                facts = tmp.pc + [B(post)] + c.side
                c.side = []
                if isinstance(res, SeqV):
                    res.meta.pop("fresh_result", None)
                    cand = res.meta.pop("eq_filter_candidate", None)
                    if cand is not None and all(any(cj.eq(want) for cj in _conjuncts(B(post))) for want in _conjuncts(cand[1])):
                        # the postcondition ASSUMED for this result says: it is (element-wise) this filter
                        res.meta["eq_filter"] = cand[0]
            else:
                facts = tmp.pc
            if K.derived is not None:
                facts = facts + [B(K.derived(c, *vals, res))] + c.side
                c.side = []
                self.rules_used.add(f"{K.derived_rule} (derived facts of {K.name})")
            self.call_memo[mkey] = (res, list(facts), c._gout)
            c._gout = None
        gout = self.call_memo[mkey][2]
        if st is not None and gout:
            st.env["__ghost_calls__"] = tuple(st.env.get("__ghost_calls__", ())) + (dict(gout, __callee__=K.name),)
        if st is not None:
            for f in facts:
                st.assume(f)
        else:
            c.side.extend(facts)
        if isinstance(res, ListV):
            res = res.copy()  # every call returns its own list object: mutating one result leaves the other alone
        return res

    def fresh_result(self, K, st):
        r = K.returns
        if r == "Perm":
            return self.fresh_perm("res", st, assume=False)
        if r == "List":  # a fresh mutable list of integers (the caller may go on appending to it)
            n = fresh("res_n")
            st.assume(n >= 0)
            F = fresh_fun("res", z3.IntSort(), z3.IntSort())
            return ListV(n, lambda i: IntV(F(i)))
        if r in ("Seq", "IntList", "gen"):
            n = fresh("res_n")
            st.assume(n >= 0)
            F = fresh_fun("res", z3.IntSort(), z3.IntSort())
            return SeqV(n, lambda i: IntV(F(i)), "tuple" if r != "gen" else "gen")
        if r == "int":
            return IntV(fresh("res"))
        if r == "bool":
            return BoolV(fresh("res", "bool"))
        if r in ("Mesh", "MeshPatt"):
            return self.fresh_mesh("res", st, assume=False)
        if r is None or r == "none":
            return NONE
        if r in ("IntSet", "IntSetGen"):
            S1 = fresh_fun("res_set", z3.IntSort(), z3.BoolSort())
            out = SetV(lambda v: S1(Z(v)), 1)
            out.fun = S1
            return out
        if r == "CellSet":
            S_ = fresh_fun("res_cells", z3.IntSort(), z3.IntSort(), z3.BoolSort())
            out = SetV(lambda v: S_(Z(v[0]), Z(v[1])), 2)
            out.fun = S_
            return out
        if r == "int+IntList":  # (an integer, a list of integers)
            n = fresh("res_n")
            st.assume(n >= 0)
            F = fresh_fun("res", z3.IntSort(), z3.IntSort())
            return TupV([IntV(fresh("res")), SeqV(n, lambda i: IntV(F(i)), "list")])
        if r.startswith("bool*"):
            return TupV([BoolV(fresh("res", "bool")) for _ in range(int(r[5:]))])
        if r == "TupleList":
            return self.fresh_tuplist(st).snapshot("gen")
        if r.startswith("Seq[int*"):
            k_ = int(r[8:-1])
            n = fresh("res_n")
            st.assume(n >= 0)
            funs = [fresh_fun("res", z3.IntSort(), z3.IntSort()) for _ in range(k_)]
            self.seed_funs.append(funs[0])
            return SeqV(n, lambda i, funs=funs: TupV([IntV(f(i)) for f in funs]), "list")
        raise Unsupported(f"result sort {r}")


BUILTIN_NAMES = {"str", "float", "numbers", "tee", "len", "range", "enumerate", "zip", "reversed", "sum", "all", "any", "min", "max", "abs", "set", "frozenset", "tuple", "list", "sorted", "isinstance", "int", "itertools", "islice", "chain", "divmod", "next", "iter", "map", "filter", "bool"}


def _inst(q):
    """Body of quantifier q with its bound variables replaced by fresh constants."""
    k = q.num_vars()
    cs = [z3.Const(f"sk!{q.var_name(i)}!{next(_SK)}", q.var_sort(i)) for i in range(k)]
    return z3.substitute_vars(q.body(), *reversed(cs)), [c_ for c_ in cs if z3.is_int(c_) or c_.sort() == TUP]


def _hyp_skolem(h, consts, depth=0):
    """Existential content of a hypothesis is opened with fresh constants (sound: the constants
    are new names for the witnesses)."""
    if depth > 6:
        return [h]
    if z3.is_quantifier(h) and h.is_exists():
        body, cs = _inst(h)
        consts.extend(cs)
        return _hyp_skolem(body, consts, depth + 1)
    if z3.is_not(h) and z3.is_quantifier(h.arg(0)) and h.arg(0).is_forall():
        body, cs = _inst(h.arg(0))
        consts.extend(cs)
        return _hyp_skolem(z3.Not(body), consts, depth + 1)
    if z3.is_and(h):
        out = []
        for ch in h.children():
            out += _hyp_skolem(ch, consts, depth + 1)
        return out
    if z3.is_not(h) and z3.is_not(h.arg(0)):
        return _hyp_skolem(h.arg(0).arg(0), consts, depth + 1)
    return [h]


def skolemize(hyps, goal):
    """hyps |- goal  with goal = A => forall x. B  becomes  hyps, A |- B[x := fresh];  existential
    antecedents are opened,  not exists x. B  is treated as  forall x. not B."""
    consts = []
    for _ in range(16):
        if z3.is_implies(goal):
            hyps.extend(_hyp_skolem(goal.arg(0), consts))
            goal = goal.arg(1)
        elif z3.is_quantifier(goal) and goal.is_forall():
            goal, cs = _inst(goal)
            consts.extend(cs)
        elif z3.is_not(goal) and z3.is_quantifier(goal.arg(0)) and goal.arg(0).is_exists():
            body, cs = _inst(goal.arg(0))
            consts.extend(cs)
            goal = z3.Not(body)
        elif z3.is_not(goal) and z3.is_and(goal.arg(0)) and goal.arg(0).num_args() >= 1:
            # not (a and b and ...)  ==  a and ... => not last
            parts = goal.arg(0).children()
            for a_ in parts[:-1]:
                hyps.extend(_hyp_skolem(a_, consts))
            goal = z3.Not(parts[-1])
        elif z3.is_not(goal) and z3.is_not(goal.arg(0)):
            goal = goal.arg(0).arg(0)
        else:
            break
    return hyps, goal, consts


import itertools as _it  # noqa: E402

_SK = _it.count()


def _decl_ids(fs):
    """ids of the function symbols occurring in the formulas"""
    out, seen, todo = set(), set(), list(fs)
    while todo:
        e = todo.pop()
        i = e.get_id()
        if i in seen:
            continue
        seen.add(i)
        if z3.is_quantifier(e):
            todo.append(e.body())
        elif z3.is_app(e):
            out.add(e.decl().get_id())
            todo.extend(e.children())
    return out


def _has_pos_exists(g, depth=0):
    if depth > 5:
        return False
    if z3.is_quantifier(g):
        return g.is_exists() and g.num_vars() == 1 and g.var_sort(0) == z3.IntSort()
    if z3.is_and(g) or z3.is_or(g):
        return any(_has_pos_exists(ch, depth + 1) for ch in g.children())
    return False


def _offer_witnesses(g, cands, depth=0):
    """exists j. body (positive position) becomes body[c1] or ... or body[ck] or exists j. body (equivalent);
    nested existentials get the last few candidates only (the formula grows with the product)"""
    if depth > 5 or not cands:
        return g
    if z3.is_quantifier(g) and g.is_exists() and g.num_vars() == 1 and g.var_sort(0) == z3.IntSort():
        inner = cands[-3:]
        inst = [_offer_witnesses(z3.substitute_vars(g.body(), t_), inner, depth + 1) for t_ in cands]
        return z3.Or(inst + [g])
    if z3.is_and(g):
        return z3.And([_offer_witnesses(ch, cands, depth + 1) for ch in g.children()])
    if z3.is_or(g):
        return z3.Or([_offer_witnesses(ch, cands, depth + 1) for ch in g.children()])
    return g


def _has_quant(f, depth=0):
    if z3.is_quantifier(f):
        return True
    if depth > 8 or not z3.is_app(f):
        return False
    return any(_has_quant(ch, depth + 1) for ch in f.children())


def _conjuncts(f):
    if z3.is_and(f):
        out = []
        for ch in f.children():
            out += _conjuncts(ch)
        return out
    return [f]


def _load(tgt):
    import copy

    t = copy.deepcopy(tgt)
    for n in ast.walk(t):
        if hasattr(n, "ctx"):
            n.ctx = ast.Load()
    return t


def _bound_names(tgt):
    """Names bound or mutated by an assignment target: a subscript / attribute store mutates its
    root object, the index expression binds nothing."""
    if isinstance(tgt, ast.Name):
        return {tgt.id}
    if isinstance(tgt, (ast.Tuple, ast.List)):
        out = set()
        for e in tgt.elts:
            out |= _bound_names(e)
        return out
    if isinstance(tgt, ast.Starred):
        return _bound_names(tgt.value)
    if isinstance(tgt, (ast.Subscript, ast.Attribute)):
        root = tgt.value
        while isinstance(root, (ast.Subscript, ast.Attribute)):
            root = root.value
        return {root.id} if isinstance(root, ast.Name) else set()
    return set()


def _target_names(tgt):
    return {n.id for n in ast.walk(tgt) if isinstance(n, ast.Name)}
