"""Discharge obligations: z3 first (E-matching, then MBQI), cvc5 on z3's unknowns."""
import os
import subprocess
import tempfile
import time

import z3

Z3_MS = int(os.environ.get("PYVC_Z3_MS", "12000"))
CVC5_MS = int(os.environ.get("PYVC_CVC5_MS", "6000"))
CVC5 = "/usr/bin/cvc5"


def _solver(hyps, goal, mbqi, timeout_ms, seed=None, relevancy=None):
    s = z3.Solver()
    s.set("timeout", timeout_ms)
    if relevancy is not None:
        s.set("relevancy", relevancy)
    if seed is not None:
        s.set("random_seed", seed)
        s.set("smt.random_seed", seed)
    s.set("auto_config", False)
    s.set("mbqi", mbqi)
    for h in hyps:
        s.add(h)
    if goal is not None:
        s.add(z3.Not(goal))
    return s


def discharge(ob):
    """-> dict(name, kind, status, backend, ms, model?) ; status in
    discharged / refuted / undecided / vacuous."""
    global Z3_MS
    own = getattr(ob, "budget_ms", None)
    saved = Z3_MS
    if own:
        Z3_MS = max(Z3_MS, int(own))
    try:
        alt = getattr(ob, "alt_goal", None)
        if alt is not None and ob.expect != "sat":
            # quick attempt with ALL witness candidates offered (trigger-based, short budget) ...
            t_a = time.time()
            for rel_ in (None, 0):
                s_a = _solver(ob.hyps, alt, False, Z3_MS // 4, relevancy=rel_)
                if s_a.check() == z3.unsat:
                    return {"name": ob.name, "kind": ob.kind, "function": ob.func, "status": "discharged",
                            "backend": "z3(e-matching, all witness candidates)", "ms": round((time.time() - t_a) * 1000, 1)}
        # ... then the usual pipeline with the basic candidates, then with all of them
        rec = _discharge(ob)
        if rec["status"] == "undecided" and alt is not None:
            # the same goal with more witness candidates offered (an equivalent formula)
            first_goal, ob.goal = ob.goal, alt
            try:
                rec2 = _discharge(ob)
            finally:
                ob.goal = first_goal
            if rec2["status"] == "discharged":
                rec2["backend"] += " +more witness candidates"
                rec2["ms"] = round(rec2["ms"] + rec["ms"], 1)
                return rec2
        return rec
    finally:
        Z3_MS = saved


def _discharge(ob):
    t0 = time.time()
    rec = {"name": ob.name, "kind": ob.kind, "function": ob.func}
    if ob.expect == "sat":  # cover: the path must be feasible
        s = _solver(ob.hyps, None, True, 1500)
        r = s.check()
        rec["backend"] = "z3"
        rec["ms"] = round((time.time() - t0) * 1000, 1)
        rec["status"] = "vacuous" if r == z3.unsat else "discharged"
        rec["note"] = "cover: path condition " + ("UNSATISFIABLE" if r == z3.unsat else str(r))
        return rec
    # pass 0: a goal that asks for a WITNESS (positive existential) is not what trigger-based
    # instantiation is good at; model-based instantiation first, with the full budget
    if _wants_witness(ob.goal):
        for rel_, ms_ in ((None, Z3_MS // 4), (0, Z3_MS // 4)):
            t1 = time.time()
            s = _solver(ob.hyps, ob.goal, False, ms_, relevancy=rel_)
            r = s.check()
            if r == z3.unsat:
                rec.update(status="discharged", backend="z3(e-matching)" if rel_ is None else "z3(e-matching,relevancy=0)")
                rec["ms"] = round((time.time() - t0) * 1000, 1)
                return rec
            if time.time() - t1 > 1.0:
                break  # not a quick saturation: the relevancy filter is not the problem
        s = _solver(ob.hyps, ob.goal, True, Z3_MS)
        r = s.check()
        if r == z3.unsat:
            rec.update(status="discharged", backend="z3(mbqi,witness goal)")
            rec["ms"] = round((time.time() - t0) * 1000, 1)
            return rec
    # pass 1: E-matching only (decides every obligation of the unchanged tree in milliseconds)
    s = _solver(ob.hyps, ob.goal, False, Z3_MS)
    r = s.check()
    backend = "z3(e-matching)"
    model_solver = s
    if r == z3.unknown:
        # Trigger-based instantiation is sensitive to the search order: z3's relevancy filter (matching
        # only on terms of currently relevant atoms) can make it saturate without the needed instance, and
        # an unlucky case split can run into a long chain of irrelevant instances.  A small portfolio of
        # (relevancy, seed) restarts with short budgets decides these cases; every attempt is the same
        # sound procedure, so "unsat" from any of them is a proof.
        quick = time.time() - t0 < 2.0
        plan = [(0, None, Z3_MS // 2), (2, 1, Z3_MS // 4), (2, 2, Z3_MS // 4), (0, 3, Z3_MS // 4)] if quick else [(2, 1, Z3_MS // 4), (2, 2, Z3_MS // 4), (0, 3, Z3_MS // 4)]
        for rel_, seed_, ms_ in plan:
            s1 = _solver(ob.hyps, ob.goal, False, ms_, seed=seed_, relevancy=rel_)
            if s1.check() == z3.unsat:
                r, s, model_solver, backend = z3.unsat, s1, s1, f"z3(e-matching,relevancy={rel_},seed={seed_})"
                break
    if r == z3.unknown:
        # pass 2: look for a *small* counter-model (lengths <= 2, 3; integers in [-6, 6]).  Adding
        # constraints can only lose models, so a model found here is a genuine refutation.
        # definitional axioms (cnt/sel of a filter) whose symbols do not occur in the goal are a
        # conservative extension: dropping them keeps every model extendable
        # (their symbols must occur neither in the goal nor in any other hypothesis)
        def is_dm(h):
            return "dm_x" in h.sexpr()[:200]

        gtxt = ob.goal.sexpr() + " ".join(h.sexpr() for h in ob.hyps if h.get_id() not in ob.definitional and not is_dm(h))
        light = [h for h in ob.hyps if not (h.get_id() in ob.definitional and all(nm not in gtxt for nm in ob.definitional[h.get_id()]))]
        # the div/mod axiom is definitional as well (py_quo/py_rem are total functions)
        others = gtxt + " ".join(h.sexpr() for h in light if not is_dm(h))
        if "py_rem" not in others and "py_quo" not in others:
            light = [h for h in light if not is_dm(h)]
        for bound in (2, 3):
            sb = _solver(light, ob.goal, True, 3000)
            for t in ob.size_terms:
                is_len = str(t).endswith("_n") or "_n!" in str(t)
                sb.add(t <= (bound if is_len else 6), t >= -6)
            if sb.check() == z3.sat:
                r, backend, model_solver = z3.sat, "z3(mbqi,bounded-model)", sb
                break
    if r == z3.unknown:
        # pass 3: model-based quantifier instantiation, unbounded
        s = _solver(ob.hyps, ob.goal, True, Z3_MS // 2)
        r = s.check()
        backend = "z3(mbqi)"
        model_solver = s
        if r == z3.unknown:
            # MBQI is sensitive to the search order: one retry with another seed
            s2 = _solver(ob.hyps, ob.goal, True, Z3_MS // 2, seed=11)
            r2_ = s2.check()
            if r2_ != z3.unknown:
                r, s, model_solver, backend = r2_, s2, s2, "z3(mbqi,seed 11)"
    if r == z3.unsat:
        rec.update(status="discharged", backend=backend)
    elif r == z3.sat:
        rec.update(status="refuted", backend=backend, model=_model(model_solver.model(), ob.model_vars))
    else:
        r2 = _cvc5(s)
        if r2 == "unsat":
            rec.update(status="discharged", backend="cvc5")
        else:
            rec.update(status="undecided", backend=f"z3:unknown({s.reason_unknown()}) cvc5:{r2}")
    rec["ms"] = round((time.time() - t0) * 1000, 1)
    return rec


def _wants_witness(g, depth=0):
    if depth > 4:
        return False
    if z3.is_quantifier(g):
        return g.is_exists()
    if z3.is_and(g) or z3.is_or(g):
        return any(_wants_witness(ch, depth + 1) for ch in g.children())
    if z3.is_implies(g):
        return _wants_witness(g.arg(1), depth + 1)
    return False


def _cvc5(solver):
    if not os.path.exists(CVC5):
        return "absent"
    text = "(set-logic ALL)\n" + solver.to_smt2()
    with tempfile.NamedTemporaryFile("w", suffix=".smt2", delete=False) as fh:
        fh.write(text)
        path = fh.name
    try:
        out = subprocess.run([CVC5, "--lang", "smt2", f"--tlimit={CVC5_MS}", path], capture_output=True, text=True, timeout=CVC5_MS / 1000 + 10)
        first = (out.stdout.strip().splitlines() or ["?"])[0]
        return first if first in ("sat", "unsat", "unknown") else f"error:{(out.stderr or out.stdout)[:80]}"
    except subprocess.TimeoutExpired:
        return "timeout"
    finally:
        os.unlink(path)


def _model(model, model_vars):
    """Concretise the parameters listed in model_vars: name -> ('int', term) |
    ('seq', len_term, fun) | ('cells', fun, bound_term)."""
    out = {}
    for name, spec in model_vars.items():
        try:
            if spec[0] == "int":
                out[name] = model.eval(spec[1], model_completion=True).as_long()
            elif spec[0] == "tuple":
                out[name] = tuple(model.eval(t, model_completion=True).as_long() for t in spec[1])
            elif spec[0] == "bool":
                out[name] = bool(z3.is_true(model.eval(spec[1], model_completion=True)))
            elif spec[0] == "seq":
                n = model.eval(spec[1], model_completion=True).as_long()
                n = max(0, min(n, 12))
                out[name] = [model.eval(spec[2](z3.IntVal(i)), model_completion=True).as_long() for i in range(n)]
            elif spec[0] == "cells":
                n = model.eval(spec[2], model_completion=True).as_long()
                n = max(0, min(n, 12))
                out[name] = [
                    (x, y)
                    for x in range(n + 1)
                    for y in range(n + 1)
                    if z3.is_true(model.eval(spec[1](z3.IntVal(x), z3.IntVal(y)), model_completion=True))
                ]
        except Exception as exc:  # noqa: BLE001
            out[name] = f"<not concretised: {exc}>"
    return out
