"""C08 - deductive obligations on equality, hashing and ordering.

The bodies of the comparison / hash methods are read from /repo's AST on every run and
executed symbolically over ABSTRACT values: the content of a permutation (an element of an
uninterpreted sort with a strict total order `tlt` - the lexicographic order of tuples - and a
length function), the shaded-cell set (uninterpreted sort; `sorted(.)` is an injective key into a
sort with a strict total order `llt`).  Python's rich-comparison protocol is modelled for the
closed class set read from the AST: reflected-operand priority for proper subclasses that
override the reflected method, NotImplemented fall-through, TypeError when both decline,
identity fall-back for == .  `hash` of a tuple / frozenset / permutation is an uninterpreted
function of the *value*; `hash` of any other object (e.g. a `super()` proxy) is a fresh integer per
evaluation.  Everything not understood makes the obligation UNDECIDED.
"""
import ast
import itertools
import time

import z3

from . import extract
from .values import Unsupported

PV = z3.DeclareSort("PermContent")
SV = z3.DeclareSort("ShadingSet")
LV = z3.DeclareSort("SortedCells")
plen = z3.Function("plen", PV, z3.IntSort())
tlt = z3.Function("tuple_lt", PV, PV, z3.BoolSort())
llt = z3.Function("list_lt", LV, LV, z3.BoolSort())
skey = z3.Function("sorted_key", SV, LV)
skey_inv = z3.Function("sorted_key_inv", LV, SV)
H_perm = z3.Function("hash_tuple_value", PV, z3.IntSort())
H_set = z3.Function("hash_frozenset_value", SV, z3.IntSort())
H_pair = z3.Function("hash_pair", z3.IntSort(), z3.IntSort(), z3.IntSort())

MESH = ["MeshPatt", "BivincularPatt", "VincularPatt", "CovincularPatt"]
_n = itertools.count()


def axioms():
    a, b, c = z3.Consts("ax_a ax_b ax_c", PV)
    x, y, w = z3.Consts("ax_x ax_y ax_w", LV)
    s = z3.Const("ax_s", SV)
    return [
        z3.ForAll([a], z3.Not(tlt(a, a))),
        z3.ForAll([a, b, c], z3.Implies(z3.And(tlt(a, b), tlt(b, c)), tlt(a, c))),
        z3.ForAll([a, b], z3.Or(tlt(a, b), a == b, tlt(b, a))),
        z3.ForAll([x], z3.Not(llt(x, x))),
        z3.ForAll([x, y, w], z3.Implies(z3.And(llt(x, y), llt(y, w)), llt(x, w))),
        z3.ForAll([x, y], z3.Or(llt(x, y), x == y, llt(y, x))),
        z3.ForAll([s], skey_inv(skey(s)) == s),  # sorted(.) is injective on sets
        z3.ForAll([a], plen(a) >= 0),
    ]


# ------------------------------------------------------------------ values
class Obj:
    """An object of the closed world: a class name + abstract fields."""

    def __init__(self, cls, **fields):
        self.cls = cls
        self.f = fields
        self.ident = z3.Int(f"id!{next(_n)}")  # object identity


class Abs:
    def __init__(self, sort, term):
        self.sort = sort  # 'perm' (a Perm object used as a value), 'tuple', 'fset', 'slist'
        self.term = term


class NotImpl:
    pass


NOTIMPL = NotImpl()


class Raised(Exception):
    def __init__(self, exc):
        self.exc = exc


def perm_obj(term):
    return Obj("Perm", content=term)


def mesh_obj(cls, p, s):
    return Obj(cls, pattern=perm_obj(p), shading=Abs("fset", s))


def basis_obj(cls, term):
    return Obj(cls, content=term)


# --------------------------------------------------------------- interpreter
class Interp:
    def __init__(self, repo_index):
        self.repo = repo_index
        self.fresh_hashes = []

    def mro(self, cls):
        out = self.repo.mro(cls)
        if cls in ("Perm", "Basis", "MeshBasis") or "tuple" in sum((self.repo.classes[c]["bases"] for c in out if c in self.repo.classes), []):
            out = out + ["tuple"]
        return out + ["object"]

    def find(self, cls, name, after=None):
        chain = self.mro(cls)
        if after is not None:
            chain = chain[chain.index(after) + 1:]
        for c in chain:
            if c in self.repo.classes and name in self.repo.classes[c]["methods"]:
                return c, self.repo.classes[c]["methods"][name]
            if c in ("tuple", "object"):
                return c, None
        return "object", None

    def is_subclass(self, c, d):
        return d in self.mro(c)

    # builtin methods of tuple / object on our abstract objects
    def builtin(self, owner, name, a, b=None):
        if owner == "tuple":
            if name == "__eq__":
                if isinstance(b, Obj) and "tuple" in self.mro(b.cls):
                    return a.f["content"] == b.f["content"]
                return NOTIMPL
            if name == "__hash__":
                return H_perm(a.f["content"])
            if name in ("__lt__", "__le__", "__gt__", "__ge__"):
                if isinstance(b, Obj) and "tuple" in self.mro(b.cls):
                    x, y = a.f["content"], b.f["content"]
                    return {"__lt__": tlt(x, y), "__le__": z3.Or(tlt(x, y), x == y), "__gt__": tlt(y, x), "__ge__": z3.Or(tlt(y, x), x == y)}[name]
                return NOTIMPL
        if owner == "object":
            if name == "__eq__":
                return NOTIMPL  # object.__eq__ declines unless identical; identity handled by the protocol
            if name == "__hash__":
                h = z3.Int(f"idhash!{next(_n)}")
                return h
            if name in ("__lt__", "__le__", "__gt__", "__ge__"):
                return NOTIMPL
        raise Unsupported(f"builtin {owner}.{name}")

    def call_method(self, obj, name, args, after=None):
        owner, fn = self.find(obj.cls, name, after)
        if fn is None:
            return self.builtin(owner, name, obj, *(args[:1]))
        env = {}
        params = fn.params
        env[params[0]] = obj
        for p, v in zip(params[1:], args):
            env[p] = v
        env["__class__"] = owner
        return self.exec_body(fn.body, env)

    def exec_body(self, stmts, env):
        """-> value (z3 term / Obj / Abs / NOTIMPL) ; if-statements on concrete conditions only"""
        for st in stmts:
            if isinstance(st, ast.Return):
                return self.ev(st.value, env)
            if isinstance(st, ast.If):
                cond = self.ev(st.test, env)
                if isinstance(cond, bool):
                    r = self.exec_body(st.body if cond else st.orelse, env)
                    if r is not None:
                        return r
                    continue
                raise Unsupported("branch on a symbolic condition in a comparison method")
            if isinstance(st, ast.Expr) and isinstance(st.value, ast.Constant):
                continue
            if isinstance(st, ast.Pass):
                continue
            raise Unsupported(f"statement {type(st).__name__} in a comparison method")
        return None

    def truth(self, v):
        if isinstance(v, bool):
            return z3.BoolVal(v)
        if isinstance(v, NotImpl):
            return z3.BoolVal(True)  # bool(NotImplemented) is True (deprecated) - a leak, reported by the caller
        if z3.is_expr(v) and z3.is_bool(v):
            return v
        raise Unsupported("truth value of a non-boolean")

    def ev(self, node, env):
        if isinstance(node, ast.Constant):
            if isinstance(node.value, bool):
                return node.value
            raise Unsupported("constant")
        if isinstance(node, ast.Name):
            if node.id == "NotImplemented":
                return NOTIMPL
            if node.id in env:
                return env[node.id]
            if node.id in self.repo.classes or node.id in ("tuple", "object"):
                return ("class", node.id)
            raise Unsupported(f"name {node.id}")
        if isinstance(node, ast.Attribute):
            base = self.ev(node.value, env)
            if isinstance(base, Obj):
                if node.attr == "__class__":
                    return ("class", base.cls)
                if node.attr in base.f:
                    return base.f[node.attr]
                return ("bound", base, node.attr, None)
            if isinstance(base, tuple) and base[0] == "class":
                return ("unbound", base[1], node.attr)
            if isinstance(base, tuple) and base[0] == "super":
                return ("bound", base[1], node.attr, base[2])
            raise Unsupported(f"attribute {node.attr}")
        if isinstance(node, ast.Tuple):
            return ("tup", [self.ev(e, env) for e in node.elts])
        if isinstance(node, ast.UnaryOp) and isinstance(node.op, ast.Not):
            v = self.ev(node.operand, env)
            return (not v) if isinstance(v, bool) else z3.Not(self.truth(v))
        if isinstance(node, ast.BoolOp):
            vals = [self.ev(e, env) for e in node.values]
            if all(isinstance(v, bool) for v in vals):
                return all(vals) if isinstance(node.op, ast.And) else any(vals)
            ts = [self.truth(v) for v in vals]
            return z3.And(ts) if isinstance(node.op, ast.And) else z3.Or(ts)
        if isinstance(node, ast.Compare):
            left = self.ev(node.left, env)
            parts = []
            for op, rn in zip(node.ops, node.comparators):
                right = self.ev(rn, env)
                parts.append(self.compare(op, left, right))
                left = right
            if all(isinstance(p, bool) for p in parts):
                return all(parts)
            return z3.And([self.truth(p) for p in parts]) if len(parts) > 1 else parts[0]
        if isinstance(node, ast.Call):
            return self.call(node, env)
        raise Unsupported(f"expression {type(node).__name__}")

    def call(self, node, env):
        f = node.func
        if isinstance(f, ast.Name):
            args = [self.ev(a, env) for a in node.args]
            if f.id == "isinstance":
                obj, cls = args
                names = [c[1] for c in (cls[1] if cls[0] == "tup" else [cls])]
                if isinstance(obj, Obj):
                    return any(n in self.mro(obj.cls) for n in names)
                return False
            if f.id == "hash":
                return self.hash_of(args[0])
            if f.id == "sorted":
                v = args[0]
                if isinstance(v, Abs) and v.sort == "fset":
                    return Abs("slist", skey(v.term))
                raise Unsupported("sorted of a non-shading")
            if f.id == "len":
                v = args[0]
                if isinstance(v, Obj) and "content" in v.f:
                    return plen(v.f["content"])
                if isinstance(v, Obj) and "pattern" in v.f:
                    return plen(v.f["pattern"].f["content"])
                raise Unsupported("len")
            if f.id == "tuple":
                v = args[0]
                if isinstance(v, Obj) and "content" in v.f:
                    return Abs("tuple", v.f["content"])
                raise Unsupported("tuple()")
            if f.id == "super":
                if args:
                    raise Unsupported("super with arguments")
                self_obj = env[list(env)[0]]
                return ("super", self_obj, env["__class__"])
            raise Unsupported(f"call of {f.id}")
        fn = self.ev(f, env)
        args = [self.ev(a, env) for a in node.args]
        if isinstance(fn, tuple) and fn[0] == "bound":
            _t, obj, name, after = fn
            return self.call_method(obj, name, args, after)
        if isinstance(fn, tuple) and fn[0] == "unbound":
            _t, cls, name = fn
            obj = args[0]
            if cls == "tuple":
                return self.builtin("tuple", name, obj, *args[1:2])
            owner, mfn = self.find(cls, name)
            if mfn is None:
                return self.builtin(owner, name, obj, *args[1:2])
            env2 = dict(zip(mfn.params, [obj] + args[1:]))
            env2["__class__"] = owner
            return self.exec_body(mfn.body, env2)
        raise Unsupported("call")

    def hash_of(self, v):
        if isinstance(v, tuple) and v[0] == "tup":
            hs = [self.hash_of(x) for x in v[1]]
            out = hs[0]
            for h in hs[1:]:
                out = H_pair(out, h)
            return out
        if isinstance(v, Abs) and v.sort == "fset":
            return H_set(v.term)
        if isinstance(v, Abs) and v.sort == "tuple":
            return H_perm(v.term)
        if isinstance(v, Obj):
            return self.call_method(v, "__hash__", [])
        # anything else (e.g. a super() proxy): identity hash of a temporary
        return z3.Int(f"idhash!{next(_n)}")

    # rich comparison of two values as Python would do it
    OPS = {ast.Lt: "__lt__", ast.LtE: "__le__", ast.Gt: "__gt__", ast.GtE: "__ge__", ast.Eq: "__eq__", ast.NotEq: "__ne__"}
    REFL = {"__lt__": "__gt__", "__le__": "__ge__", "__gt__": "__lt__", "__ge__": "__le__", "__eq__": "__eq__", "__ne__": "__ne__"}

    def compare(self, op, a, b):
        if isinstance(op, (ast.Is, ast.IsNot)):
            raise Unsupported("is")
        name = self.OPS[type(op)]
        if isinstance(a, tuple) and a[0] == "tup" and isinstance(b, tuple) and b[0] == "tup":
            return self.tuple_compare(name, a[1], b[1])
        if isinstance(a, Abs) and isinstance(b, Abs) and a.sort == b.sort:
            x, y = a.term, b.term
            if name == "__eq__":
                return x == y
            if name == "__ne__":
                return x != y
            lt = {"tuple": tlt, "slist": llt}.get(a.sort)
            if lt is None:
                raise Unsupported(f"ordering of {a.sort}")
            return {"__lt__": lt(x, y), "__le__": z3.Or(lt(x, y), x == y), "__gt__": lt(y, x), "__ge__": z3.Or(lt(y, x), x == y)}[name]
        if z3.is_expr(a) and z3.is_expr(b) and z3.is_int(a):
            return {"__lt__": a < b, "__le__": a <= b, "__gt__": a > b, "__ge__": a >= b, "__eq__": a == b, "__ne__": a != b}[name]
        if isinstance(a, Obj) and isinstance(b, Obj):
            return self.rich(name, a, b)
        raise Unsupported("comparison of unsupported values")

    def tuple_compare(self, name, xs, ys):
        """CPython: find the first index where the items differ (==), then apply the operator there."""
        if len(xs) != len(ys):
            raise Unsupported("tuples of different arity")
        if name in ("__eq__", "__ne__"):
            eqs = [self.truth(self.compare(ast.Eq(), x, y)) for x, y in zip(xs, ys)]
            return z3.And(eqs) if name == "__eq__" else z3.Not(z3.And(eqs))
        opnode = {"__lt__": ast.Lt(), "__le__": ast.LtE(), "__gt__": ast.Gt(), "__ge__": ast.GtE()}[name]
        out = z3.BoolVal(name in ("__le__", "__ge__"))
        for x, y in reversed(list(zip(xs, ys))):
            eq = self.truth(self.compare(ast.Eq(), x, y))
            out = z3.If(eq, out, self.truth(self.compare(opnode, x, y)))
        return out

    def rich(self, name, a, b):
        if name == "__ne__":
            owner, fn = self.find(a.cls, "__ne__")
            if fn is None and owner in ("tuple",):
                r = self.builtin("tuple", "__eq__", a, b)
                if not isinstance(r, NotImpl):
                    return z3.Not(r)
            e = self.rich("__eq__", a, b)
            return (not e) if isinstance(e, bool) else z3.Not(self.truth(e))
        refl = self.REFL[name]
        first_reflected = a.cls != b.cls and self.is_subclass(b.cls, a.cls) and self.find(b.cls, refl)[0] != self.find(a.cls, refl)[0]
        order = [(b, refl, a), (a, name, b)] if first_reflected else [(a, name, b), (b, refl, a)]
        for x, m, y in order:
            r = self.call_method(x, m, [y])
            if not isinstance(r, NotImpl):
                return r
        if name == "__eq__":
            return a.ident == b.ident
        raise Raised("TypeError")


# ------------------------------------------------------------- obligations
def _prove(name, hyps, goal, recs, func="C08"):
    t0 = time.time()
    s = z3.Solver()
    s.set("timeout", 8000)
    for h in axioms() + hyps:
        s.add(h)
    s.add(z3.Not(goal))
    r = s.check()
    status = "discharged" if r == z3.unsat else "refuted" if r == z3.sat else "undecided"
    note = ""
    if r == z3.sat:
        note = "counter-model: " + str(s.model())[:300]
    recs.append({"name": name, "kind": "dunder", "function": func, "status": status, "backend": "z3", "ms": round((time.time() - t0) * 1000, 1), "note": note})


def _guard(name, recs, fn):
    try:
        fn()
    except Unsupported as exc:
        recs.append({"name": name, "kind": "dunder", "function": "C08", "status": "undecided", "backend": "pyvc.dunder", "ms": 0.0, "note": f"Unsupported: {exc}"})
    except Raised as r:
        recs.append({"name": name, "kind": "dunder", "function": "C08", "status": "refuted", "backend": "pyvc.dunder", "ms": 0.0,
                     "note": f"the comparison raises {r.exc}: both operands return NotImplemented"})


def run():
    idx = extract.Repo()
    I = Interp(idx)
    recs = []
    classes = [c for c in MESH if c in idx.classes]
    pa, pb, pc = z3.Consts("pa pb pc", PV)
    sa, sb, sc = z3.Consts("sa sb sc", SV)

    def bool_result(v):
        if isinstance(v, NotImpl):
            raise Raised("NotImplemented leaking as a result")
        return I.truth(v)

    for C1 in classes:
        def hash_stable(C1=C1):
            a = mesh_obj(C1, pa, sa)
            h1, h2 = I.call_method(a, "__hash__", []), I.call_method(a, "__hash__", [])
            _prove(f"hash-stable@{C1}", [], h1 == h2, recs, f"{C1}.__hash__")

        _guard(f"hash-stable@{C1}", recs, hash_stable)
        for C2 in classes:
            tag = f"({C1},{C2})"

            def eq_view(C1=C1, C2=C2, tag=tag):
                a, b = mesh_obj(C1, pa, sa), mesh_obj(C2, pb, sb)
                same = z3.And(pa == pb, sa == sb)
                _prove(f"eq-is-view-equality@{tag}", [a.ident != b.ident], bool_result(I.rich("__eq__", a, b)) == same, recs)
                _prove(f"ne-is-negation@{tag}", [a.ident != b.ident], bool_result(I.rich("__ne__", a, b)) == z3.Not(same), recs)

            def hash_view(C1=C1, C2=C2, tag=tag):
                a, b = mesh_obj(C1, pa, sa), mesh_obj(C2, pb, sb)
                _prove(f"eq-implies-hash-eq@{tag}", [pa == pb, sa == sb], I.call_method(a, "__hash__", []) == I.call_method(b, "__hash__", []), recs)

            def order(C1=C1, C2=C2, tag=tag):
                a, b = mesh_obj(C1, pa, sa), mesh_obj(C2, pb, sb)
                lt, le = bool_result(I.rich("__lt__", a, b)), bool_result(I.rich("__le__", a, b))
                gt, ge = bool_result(I.rich("__gt__", a, b)), bool_result(I.rich("__ge__", a, b))
                lt_r, le_r = bool_result(I.rich("__lt__", b, a)), bool_result(I.rich("__le__", b, a))
                same = z3.And(pa == pb, sa == sb)
                one = z3.PbEq([(lt, 1), (same, 1), (lt_r, 1)], 1)
                _prove(f"order-trichotomy@{tag}", [], one, recs)
                _prove(f"order-consistent-with-eq@{tag}", [], z3.And(le == z3.Or(lt, same), gt == lt_r, ge == le_r), recs)

            _guard(f"eq-is-view-equality@{tag}", recs, eq_view)
            _guard(f"eq-implies-hash-eq@{tag}", recs, hash_view)
            _guard(f"order-defined@{tag}", recs, order)
            if not any(r["name"] == f"order-defined@{tag}" for r in recs):
                recs.append({"name": f"order-defined@{tag}", "kind": "dunder", "function": "C08", "status": "discharged", "backend": "pyvc.dunder", "ms": 0.0,
                             "note": "all four operators return a boolean for this class pair (no TypeError, no NotImplemented leak)"})
            for C3 in classes:
                def trans(C1=C1, C2=C2, C3=C3):
                    a, b, c = mesh_obj(C1, pa, sa), mesh_obj(C2, pb, sb), mesh_obj(C3, pc, sc)
                    ab, bc, ac = bool_result(I.rich("__lt__", a, b)), bool_result(I.rich("__lt__", b, c)), bool_result(I.rich("__lt__", a, c))
                    _prove(f"order-transitive@({C1},{C2},{C3})", [], z3.Implies(z3.And(ab, bc), ac), recs)

                _guard(f"order-transitive@({C1},{C2},{C3})", recs, trans)

    # permutations: (length, lexicographic) order, tuple equality / hash
    def perms():
        a, b, c = perm_obj(pa), perm_obj(pb), perm_obj(pc)
        key_lt = z3.Or(plen(pa) < plen(pb), z3.And(plen(pa) == plen(pb), tlt(pa, pb)))
        lt, le = bool_result(I.rich("__lt__", a, b)), bool_result(I.rich("__le__", a, b))
        gt, ge = bool_result(I.rich("__gt__", a, b)), bool_result(I.rich("__ge__", a, b))
        lt_r, le_r = bool_result(I.rich("__lt__", b, a)), bool_result(I.rich("__le__", b, a))
        _prove("perm-order-is-length-then-lexicographic", [], lt == key_lt, recs, "Perm.__lt__")
        _prove("perm-order-consistent", [], z3.And(le == z3.Or(lt, pa == pb), gt == lt_r, ge == le_r), recs, "Perm.__le__")
        _prove("perm-order-trichotomy", [], z3.PbEq([(lt, 1), (pa == pb, 1), (lt_r, 1)], 1), recs, "Perm.__lt__")
        bc, ac = bool_result(I.rich("__lt__", b, c)), bool_result(I.rich("__lt__", a, c))
        _prove("perm-order-transitive", [], z3.Implies(z3.And(lt, bc), ac), recs, "Perm.__lt__")
        _prove("perm-eq-is-content-equality", [a.ident != b.ident], bool_result(I.rich("__eq__", a, b)) == (pa == pb), recs, "Perm.__eq__")
        _prove("perm-eq-implies-hash-eq", [pa == pb], I.call_method(a, "__hash__", []) == I.call_method(b, "__hash__", []), recs, "Perm.__hash__")

    _guard("perm-order", recs, perms)

    def perm_vs_mesh():
        for C in classes:
            a, m = perm_obj(pa), mesh_obj(C, pb, sb)
            _prove(f"perm-never-equals-mesh@{C}", [a.ident != m.ident], z3.And(z3.Not(bool_result(I.rich("__eq__", a, m))), z3.Not(bool_result(I.rich("__eq__", m, a)))), recs)

    _guard("perm-vs-mesh", recs, perm_vs_mesh)

    def bases():
        for K in ("Basis", "MeshBasis"):
            a, b = basis_obj(K, pa), basis_obj(K, pb)
            _prove(f"basis-eq-is-content-equality@{K}", [a.ident != b.ident], bool_result(I.rich("__eq__", a, b)) == (pa == pb), recs, f"{K}.__eq__")
            _prove(f"basis-eq-implies-hash-eq@{K}", [pa == pb], I.call_method(a, "__hash__", []) == I.call_method(b, "__hash__", []), recs, f"{K}.__hash__")
        a, b = basis_obj("Basis", pa), basis_obj("MeshBasis", pb)
        _prove("basis-kinds-never-equal", [a.ident != b.ident], z3.And(z3.Not(bool_result(I.rich("__eq__", a, b))), z3.Not(bool_result(I.rich("__eq__", b, a)))), recs)

    _guard("bases", recs, bases)
    return recs


if __name__ == "__main__":
    rs = run()
    bad = [r for r in rs if r["status"] != "discharged"]
    for r in bad:
        print(r["status"].upper(), r["name"], r["note"][:200])
    print(len(rs), "obligations,", len(rs) - len(bad), "discharged")
