"""Semantics of the CPython builtins / itertools used by the verified functions, and
dispatch of method calls to contracts.  Each clause below is an axiom of the trusted
base (DESIGN.md section 6): it states what the builtin returns.
"""
import ast

import z3

from . import dsl
from .values import (
    NONE,
    B,
    BagV,
    BoolV,
    IntV,
    ListV,
    NoneV,
    ObjV,
    SeqV,
    SetV,
    TupListV,
    TupV,
    Unsupported,
    as_T,
    V,
    Z,
    fresh,
    fresh_fun,
    veq,
    vite,
)


def _fname(node):
    f = node.func
    if isinstance(f, ast.Name):
        return f.id
    if isinstance(f, ast.Attribute) and isinstance(f.value, ast.Name) and f.value.id in ("itertools", "collections", "math", "operator", "bisect"):
        return f"{f.value.id}.{f.attr}"
    return None


def call(eng, node, st):
    from .engine import FunV, State

    name = _fname(node)
    if any(isinstance(a, ast.Starred) for a in node.args):
        return call_starred(eng, node, st)
    kwargs = {}
    if name is not None and name in st.env and isinstance(st.env[name], FunV):
        args = [eng.ev(a, st) for a in node.args]
        return eng.apply_fun(st.env[name], args, st)
    if name == "super" and not node.args and not node.keywords:
        # super() inside a method: the next class in the MRO of the DEFINING class, bound to the first parameter
        F_ = eng.func
        cls_ = getattr(F_, "cls", None)
        first = (list(F_.params) or [None])[0] if hasattr(F_, "params") else None
        if cls_ is None or first is None or first not in st.env:
            raise Unsupported("super() outside a method")
        return ObjV("super", {"cls": cls_, "self": st.env[first]})
    if name == "sum" and len(node.args) == 1 and not eng.concrete:
        cb = _count_below_shape(eng, node.args[0], st)
        if cb is not None:
            return cb
    if name == "sum" and len(node.args) == 1 and not node.keywords and not eng.concrete and isinstance(node.args[0], ast.ListComp) and len(node.args[0].generators) == 1:
        # sum([...]) of a temporary list: the list is consumed at once, so it is summed as the immutable sequence it is
        # when created (keeps the filter structure for the FILTER-SUM rule)
        tmp_seq = eng.comprehension(node.args[0].elt, node.args[0].generators, st, "list")
        if isinstance(tmp_seq, SeqV):
            return b_sum(eng, st, [tmp_seq], {})
        return b_sum(eng, st, [tmp_seq], {})
    if name in ("all", "any") and len(node.args) == 1 and isinstance(node.args[0], (ast.GeneratorExp, ast.ListComp)):
        return quant_genexp(eng, node.args[0], st, name == "all")
    if name == "type" and len(node.args) == 1 and not node.keywords:
        # type(x) of a modelled value: integers are `int` (the sorts "Seq" / "Perm" hold plain ints), booleans `bool`
        v = eng.ev(node.args[0], st)
        if isinstance(v, BoolV) or isinstance(v, bool):
            return ObjV("type", {"name": "bool"})
        if isinstance(v, (IntV, int)):
            return ObjV("type", {"name": "int"})
        if isinstance(v, SeqV) and v.kind == "Perm":
            return ObjV("type", {"name": "Perm"})
        raise Unsupported(f"type() of {v!r}")
    if name == "max" and len(node.args) == 1:
        am = _argmax_enumerate_shape(eng, node, st)
        if am is not None:
            return am
    if name in SIMPLE:
        args = [eng.ev(a, st) for a in node.args]
        for kw in node.keywords:
            kwargs[kw.arg] = eng.ev(kw.value, st)
        return SIMPLE[name](eng, st, args, kwargs)
    if name is not None and (name in eng.repo.classes or (name == "cls")):
        cls = name
        if name == "cls":
            cv = st.env.get("cls")
            cls = cv.fields["name"] if isinstance(cv, ObjV) and cv.cls == "type" else None
        args = [eng.ev(a, st) for a in node.args]
        return construct(eng, st, cls, args)
    if isinstance(node.func, ast.Attribute):
        return method_call(eng, node, st)
    if name is not None:
        # module-level function of the repository with a contract
        q = f"{eng.func.module}:{name}"
        if q in eng.contracts:
            args = [eng.ev(a, st) for a in node.args]
            return eng.call_by_contract(q, args, st=st)
    raise Unsupported(f"call of {ast.dump(node.func)[:80]}")


def _argmax_enumerate_shape(eng, node, st):
    """max(enumerate(S), key=lambda pe: pe[1])  =  (i, S[i]) with i the FIRST position of a maximal entry of S
    (CPython's max keeps the first of equal keys); ValueError on an empty S is an obligation."""
    a0 = node.args[0]
    if not (isinstance(a0, ast.Call) and _fname(a0) == "enumerate" and len(a0.args) == 1 and not a0.keywords):
        return None
    if len(node.keywords) != 1 or node.keywords[0].arg != "key":
        return None
    lam = node.keywords[0].value
    if not (isinstance(lam, ast.Lambda) and len(lam.args.args) == 1 and isinstance(lam.body, ast.Subscript)
            and isinstance(lam.body.value, ast.Name) and lam.body.value.id == lam.args.args[0].arg
            and isinstance(lam.body.slice, ast.Constant) and lam.body.slice.value == 1):
        return None
    seq = eng.as_seq(eng.ev(a0.args[0], st), st)
    eng.rules_used.add("argmax-enumerate (max(enumerate(S), key=second) = first position of a maximal entry, with the entry)")
    if eng.concrete:
        n_c = z3.simplify(seq.n)
        if not z3.is_int_value(n_c):
            raise Unsupported("concrete mode: max over a symbolic range")
        if n_c.as_long() == 0:
            from .engine import _PyRaise
            raise _PyRaise("ValueError")
        bi, bv = z3.IntVal(0), Z(seq.at(z3.IntVal(0)))
        for ii in range(1, n_c.as_long()):
            t = Z(seq.at(z3.IntVal(ii)))
            bi, bv = z3.If(t > bv, z3.IntVal(ii), bi), z3.If(t > bv, t, bv)
        return TupV([IntV(z3.simplify(bi)), IntV(z3.simplify(bv))])
    eng.emit("minmax-nonempty", st, seq.n > 0)
    i, k = fresh("amx"), fresh("xk")
    st.assume(z3.And(i >= 0, i < seq.n))
    v = Z(seq.at(i))
    sk = Z(seq.at(k))
    pats = [sk] if dsl._pat_ok(sk) else None
    st.assume(z3.ForAll([k], z3.Implies(z3.And(k >= 0, k < seq.n), z3.And(sk <= v, z3.Implies(k < i, sk < v))), **({"patterns": pats} if pats else {})))
    return TupV([IntV(i), IntV(v)])


def _count_below_shape(eng, g, st):
    """sum(1 for x in T if x < V) with T a tuple term: the number of entries of T below V, i.e. the
    recursive spec function clt(T, V, len(T))  (same meaning as the filter encoding; chosen here because
    contracts can speak about the same count under quantifiers)"""
    if not (isinstance(g, ast.GeneratorExp) and len(g.generators) == 1 and isinstance(g.elt, ast.Constant) and g.elt.value == 1):
        return None
    gen = g.generators[0]
    if len(gen.ifs) != 1 or not isinstance(gen.target, ast.Name) or not isinstance(gen.iter, ast.Name):
        return None
    cond = gen.ifs[0]
    if not (isinstance(cond, ast.Compare) and len(cond.ops) == 1 and isinstance(cond.ops[0], ast.Lt)
            and isinstance(cond.left, ast.Name) and cond.left.id == gen.target.id):
        return None
    if any(isinstance(n_, ast.Name) and n_.id == gen.target.id for n_ in ast.walk(cond.comparators[0])):
        return None
    src = st.env.get(gen.iter.id)
    if not (isinstance(src, SeqV) and src.meta.get("tterm") is not None):
        return None
    bound = eng.ev(cond.comparators[0], st)
    eng.rules_used.add("count-below (sum(1 for x in T if x < V) = clt(T, V, len T))")
    return eng.count_below(src.meta["tterm"], bound)


def call_starred(eng, node, st):
    """f(*others) where others is a fixed-arity TupV."""
    # patt.avoids(*list) / patt.contains(*list) on ABSTRACT patterns: the variadic contract
    # "for every p in the list: p does not occur / occurs in patt" (the fixed-arity instances are
    # verified from the body of Perm.avoids / contains; the any-arity form is the same statement)
    if isinstance(node.func, ast.Attribute) and node.func.attr in ("avoids", "contains") and len(node.args) == 1 and isinstance(node.args[0], ast.Starred):
        base = eng.ev(node.func.value, st)
        lst = eng.ev(node.args[0].value, st)
        if isinstance(base, ObjV) and base.cls == "AbstractPatt" and isinstance(lst, (ListV, SeqV)):
            c = dsl.SymCtx(eng)
            seq = eng.as_seq(lst, st)
            t = fresh("av")
            le = B(c.ghost("LE", seq.at(t).fields["__id__"], base.fields["__id__"]) == 1)
            eng.rules_used.add("variadic-avoids-on-abstract-patterns")
            if node.func.attr == "avoids":
                return BoolV(z3.ForAll([t], z3.Implies(z3.And(t >= 0, t < seq.n), z3.Not(le))))
            return BoolV(z3.ForAll([t], z3.Implies(z3.And(t >= 0, t < seq.n), le)))
    args = []
    for a in node.args:
        if isinstance(a, ast.Starred):
            v = eng.ev(a.value, st)
            if not isinstance(v, TupV):
                raise Unsupported("*args of unknown arity")
            args.extend(v.items)
        else:
            args.append(eng.ev(a, st))
    if isinstance(node.func, ast.Attribute):
        return method_call(eng, node, st, preargs=args)
    raise Unsupported("starred call of a plain function")


def quant_genexp(eng, gen, st, universal):
    """all(...) / any(...) over a generator expression = nested bounded quantifiers; `if`
    clauses are guards; a for-clause over a tuple of known arity is unrolled.  Bounds obligations
    inside are emitted for arbitrary indices."""
    from .engine import State

    def rec(k, s2):
        if k == len(gen.generators):
            return eng.truth(eng.ev(gen.elt, s2), s2)
        g = gen.generators[k]
        # the outermost iterable is evaluated in the enclosing scope (facts assumed while evaluating
        # it, e.g. a callee's postcondition, belong to the enclosing state)
        src = eng.ev(g.iter, st if k == 0 else s2)

        def after_bind(s3):
            guards = []
            for cnd in g.ifs:
                t = eng.truth(eng.ev(cnd, s3), s3)
                guards.append(t)
                s3.pc.append(t)
            inner = rec(k + 1, s3)
            if not guards:
                return inner
            return z3.Implies(z3.And(guards), inner) if universal else z3.And(*guards, inner)

        if isinstance(src, TupV):
            parts = []
            for item in src.items:
                s3 = s2.child(forward=True)
                eng.assign(g.target, item, s3)
                parts.append(after_bind(s3))
            if not parts:
                return z3.BoolVal(universal)
            return z3.And(parts) if universal else z3.Or(parts)
        if isinstance(src, BagV):
            raise Unsupported("quantifier over an image collection")
        if eng.concrete and not isinstance(src, SetV):
            seq = eng.as_seq(src, s2)
            n_c = z3.simplify(seq.n)
            if not z3.is_int_value(n_c):
                raise Unsupported("concrete mode: quantifier over a symbolic range")
            parts = []
            for ii in range(n_c.as_long()):
                s3 = State(dict(s2.env), list(s2.pc))
                eng.assign(g.target, seq.at(z3.IntVal(ii)), s3)
                parts.append(after_bind(s3))
            if not parts:
                return z3.BoolVal(universal)
            return z3.And(parts) if universal else z3.Or(parts)
        s3 = s2.child(forward=False)
        if isinstance(src, SetV):
            xs = [fresh("qx") for _ in range(src.arity)]
            val = IntV(xs[0]) if src.arity == 1 else TupV([IntV(x) for x in xs])
            dom = B(src.contains(val))
        elif isinstance(src, SeqV) and src.kind == "range" and "lo" in src.meta:
            # quantify over the VALUE of a range element directly (no index offset arithmetic)
            i = fresh("qv")
            xs = [i]
            dom = z3.And(i >= src.meta["lo"], i < src.meta["hi"])
            val = IntV(i)
        else:
            seq = eng.as_seq(src, s2)
            i = fresh("qi")
            xs = [i]
            dom = z3.And(i >= 0, i < seq.n)
            idm = seq.meta.get("idmark") if isinstance(seq, SeqV) else None
            if idm is not None:
                # idmark(i) >= 0 is a consequence of the (global) axiom on the trigger-only function idmark:
                # the conjunct changes nothing, but gives the quantifier over the element index a trigger
                dom = z3.And(dom, idm(i) >= 0)
            val = seq.at(i)
        s3.pc.append(dom)
        eng.assign(g.target, val, s3)
        inner = after_bind(s3)
        return z3.ForAll(xs, z3.Implies(dom, inner)) if universal else z3.Exists(xs, z3.And(dom, inner))

    return BoolV(rec(0, st.child(forward=True)))


# --------------------------------------------------------------- constructors
def construct(eng, st, cls, args):
    if cls == "Perm":
        if not args:
            return SeqV(0, lambda i: IntV(0), "Perm")
        src = args[0]
        if isinstance(src, BagV):
            raise Unsupported("Perm() of an unordered collection")
        seq = eng.as_seq(src, st)
        return SeqV(seq.n, seq._at, "Perm", {k: v for k, v in seq.meta.items() if k in ("filter", "ginv")})
    if cls in ("MeshPatt",):
        patt = args[0] if args else SeqV(0, lambda i: IntV(0), "Perm")
        sh = args[1] if len(args) > 1 else SetV(lambda v: z3.BoolVal(False), 2)
        if isinstance(patt, TupV):
            patt = eng.as_seq(patt, st)
        shading = eng.to_set(sh, st) if not isinstance(sh, SetV) else sh
        if shading.arity != 2:
            raise Unsupported("shading is not a set of pairs")
        # MeshPatt.__init__ asserts 0 <= x, y <= len(pattern) for every cell: obligation at the call site
        x, y = fresh("cx"), fresh("cy")
        cell = TupV([IntV(x), IntV(y)])
        rng = z3.ForAll([x, y], z3.Implies(B(shading.contains(cell)), z3.And(x >= 0, x <= patt.n, y >= 0, y <= patt.n)))
        if eng.concrete:
            # concrete differential run: the constructor's assertion is evaluated (cells within a margin of the grid)
            n_c = z3.simplify(patt.n)
            if z3.is_int_value(n_c):
                k = n_c.as_long()
                for cx in range(-3, k + 6):
                    for cy in range(-3, k + 6):
                        if 0 <= cx <= k and 0 <= cy <= k:
                            continue
                        inside = z3.simplify(B(shading.contains(TupV([IntV(z3.IntVal(cx)), IntV(z3.IntVal(cy))]))))
                        if z3.is_true(inside):
                            from .engine import _PyRaise
                            raise _PyRaise("AssertionError")
        eng.emit("assert[MeshPatt.__init__ cells in range]", st, rng)
        return ObjV("MeshPatt", {"pattern": patt, "shading": shading})
    raise Unsupported(f"constructor {cls}")


# ------------------------------------------------------------------- methods
LIST_METHODS = {"append", "extend"}


def method_call(eng, node, st, preargs=None):
    f = node.func
    mname = f.attr
    if mname == "get" and isinstance(f.value, ast.Attribute) and f.value.attr in eng.memo_tables():
        # MEMO-TABLE: a class-level dictionary keyed by the (immutable) argument that caches a value depending
        # only on the key - established by the structural obligation memo-invariant[table] (pyvc.frames).  The
        # function is verified on its cold path (no entry: `.get` gives its default); on the warm path it returns
        # the same value by that invariant.
        eng.rules_used.add(f"memo-table {f.value.attr} (cold path verified; warm path by the memo-invariant obligation)")
        for a in node.args[:1]:
            eng.ev(a, st)
        return eng.ev(node.args[1], st) if len(node.args) > 1 else NONE
    # itertools.x handled in SIMPLE; here: obj.method(...)
    base = eng.ev(f.value, st)
    args = preargs if preargs is not None else [eng.ev(a, st) for a in node.args]
    kwargs = {kw.arg: eng.ev(kw.value, st) for kw in node.keywords}
    if isinstance(base, TupListV):
        if mname == "append":
            tau = as_T(args[0], st.assume)
            eng.row_registry.append(base.append(tau, st.assume))
            return NONE
        raise Unsupported(f"list-of-tuples.{mname}")
    if isinstance(base, ListV):
        if mname == "append":
            named = getattr(eng.contract.cls, "named_appends", False) if eng.contract is not None else False
            v0 = args[0]
            n0 = z3.simplify(base.n)
            if named and not eng.concrete and not (z3.is_int_value(n0)) and (isinstance(v0, (IntV, int)) or (isinstance(v0, TupV) and all(isinstance(x, (IntV, int)) for x in v0.items))):
                # NAMED APPEND (opt-in per contract): the new list is a fresh function (one per component) with
                # definitional axioms, so that quantified facts about it have triggers  new(m)  and the
                # term  new(len)  exists
                comps = list(v0.items) if isinstance(v0, TupV) else [v0]
                old_fn, n_ = base.fn, base.n
                news = [fresh_fun("app", z3.IntSort(), z3.IntSort()) for _ in comps]
                m = fresh("am")
                for k_, (nf, cv) in enumerate(zip(news, comps)):
                    old_k = (lambda j, k_=k_: Z(old_fn(j).items[k_])) if isinstance(v0, TupV) else (lambda j: Z(old_fn(j)))
                    body = z3.Implies(z3.And(m >= 0, m < n_), nf(m) == old_k(m))
                    pats = [nf(m)]
                    om = old_k(m)
                    if dsl._pat_ok(om):
                        pats.append(om)
                    st.assume(z3.ForAll([m], body, patterns=pats, qid="named-append"))
                    st.assume(nf(n_) == Z(cv))
                if isinstance(v0, TupV):
                    base.fn = lambda j, news=news: TupV([IntV(nf(j)) for nf in news])
                else:
                    base.fn = lambda j, news=news: IntV(news[0](j))
                base.n = n_ + 1
                return NONE
            base.append(args[0])
            return NONE
        if mname == "extend":
            src = args[0]
            base.extend(eng.as_seq(src, st))
            return NONE
        if mname == "clear":
            base.n = z3.IntVal(0)
            return NONE
        if mname == "appendleft" and getattr(base, "is_deque", False):
            old, v0 = base.fn, args[0]
            n0 = z3.simplify(base.n)
            if z3.is_int_value(n0) and n0.as_long() == 0:
                base.fn = lambda j, v0=v0: v0
            else:
                base.fn = lambda j, old=old, v0=v0: vite(j == 0, v0, old(j - 1))
            base.n = base.n + 1
            return NONE
        if mname == "popleft" and getattr(base, "is_deque", False):
            eng.emit("pop-nonempty", st, base.n > 0)
            old = base.fn
            first = old(z3.IntVal(0))
            named = getattr(eng.contract.cls, "named_appends", False) if eng.contract is not None else False
            if named and not eng.concrete and isinstance(first, IntV):
                # NAMED POPLEFT: new(j) = old(j+1), stated with triggers in both directions
                new = fresh_fun("popl", z3.IntSort(), z3.IntSort())
                m = fresh("pm")
                st.assume(z3.ForAll([m], z3.Implies(m >= 0, new(m) == Z(old(m + 1))), patterns=[new(m)], qid="named-popleft"))
                om = Z(old(m))
                if dsl._pat_ok(om):
                    st.assume(z3.ForAll([m], z3.Implies(m >= 1, om == new(m - 1)), patterns=[om], qid="named-popleft-back"))
                base.fn = lambda j, new=new: IntV(new(j))
            else:
                base.fn = lambda j, old=old: old(j + 1)
            base.n = base.n - 1
            return first
        if mname == "rotate" and getattr(base, "is_deque", False):
            k_ = args[0].concrete() if args and isinstance(args[0], IntV) else (args[0] if args else 1)
            if k_ not in (1, -1):
                raise Unsupported("deque.rotate by something other than +-1")
            old, n_ = base.fn, base.n
            if k_ == 1:   # the last element moves to the front
                base.fn = lambda j, old=old, n_=n_: vite(j == 0, old(n_ - 1), old(j - 1))
            else:         # the first element moves to the back
                base.fn = lambda j, old=old, n_=n_: vite(j == n_ - 1, old(z3.IntVal(0)), old(j + 1))
            return NONE
        raise Unsupported(f"list.{mname}")
    if isinstance(base, SetV) and mname in ("add", "update"):
        if not isinstance(f.value, ast.Name):
            raise Unsupported("mutation of a set that is not a local variable")
        old = base
        if mname == "add":
            new = args[0]
            st.env[f.value.id] = SetV(lambda v, old=old, new=new: z3.Or(B(old.contains(v)), veq(v, new)), old.arity if old.arity else 1)
            if isinstance(new, TupV):
                st.env[f.value.id].arity = len(new)
        else:
            other = eng.to_set(args[0], st)
            st.env[f.value.id] = SetV(lambda v, old=old, other=other: z3.Or(B(old.contains(v)), B(other.contains(v))), other.arity)
        return NONE
    if isinstance(base, SetV) and mname in ("intersection", "union", "difference"):
        other = eng.to_set(args[0], st)
        if mname == "intersection":
            return SetV(lambda v: z3.And(B(base.contains(v)), B(other.contains(v))), base.arity)
        if mname == "union":
            return SetV(lambda v: z3.Or(B(base.contains(v)), B(other.contains(v))), base.arity)
        return SetV(lambda v: z3.And(B(base.contains(v)), z3.Not(B(other.contains(v)))), base.arity)
    if isinstance(base, ObjV) and base.cls == "type" and base.fields["name"] == "tuple" and mname == "__new__":
        content = args[1] if len(args) > 1 else TupV([])
        seq = eng.as_seq(content, st)
        return SeqV(seq.n, seq._at, "tuple")
    if isinstance(base, ObjV) and base.cls == "super":
        mro = eng.repo.mro(base.fields["cls"])[1:]
        target = None
        for c_ in mro:
            target = eng.repo.resolve_method(c_, mname)
            if target is not None:
                break
        if target is None:
            raise Unsupported(f"super().{mname} not found")
        return eng.call_by_contract(target.qualname, [base.fields["self"]] + args, st=st, kwargs=kwargs)
    cls = None
    if isinstance(base, SeqV) and base.kind == "Perm":
        cls = "Perm"
    elif isinstance(base, ObjV) and base.cls in eng.repo.classes:
        cls = base.cls
    elif isinstance(base, ObjV) and base.cls == "type" and base.fields["name"] in eng.repo.classes:
        # Class.method(...) : static/class method or explicit self
        cname = base.fields["name"]
        target = eng.repo.resolve_method(cname, mname)
        if target is None:
            raise Unsupported(f"{cname}.{mname} not found")
        q = target.qualname
        if target.kind == "classmethod":
            return eng.call_by_contract(q, [NONE] + args, st=st, kwargs=kwargs)  # contract's first parameter is `cls`
        return eng.call_by_contract(q, args, st=st, kwargs=kwargs)
    if cls is None:
        raise Unsupported(f"method .{mname} on {base!r}")
    target = eng.repo.resolve_method(cls, mname)
    if target is None:
        raise Unsupported(f"{cls}.{mname} not found")
    return eng.call_by_contract(target.qualname, [base] + args, st=st, kwargs=kwargs)


# -------------------------------------------------------------------- builtins
def b_len(eng, st, a, kw):
    v = a[0]
    if isinstance(v, (SeqV, ListV)):
        return IntV(v.n)
    if isinstance(v, TupV):
        return IntV(len(v))
    if isinstance(v, SetV) and v.arity == 1 and eng.contract is not None and getattr(eng.contract.cls, "set_universe", None):
        # BOUNDED-SET-CARDINALITY: a set of integers inside a small stated range [lo, hi) (obligation) has as many
        # elements as there are members of the range in it
        lo, hi = eng.contract.cls.set_universe
        x = fresh("su")
        if not eng.concrete:
            eng.emit("set-universe", st, z3.ForAll([x], z3.Implies(B(v.contains(IntV(x))), z3.And(x >= lo, x < hi))))
        eng.rules_used.add(f"bounded-set-cardinality (a set of integers inside [{lo}, {hi}) has sum of memberships many elements)")
        return IntV(z3.Sum([z3.If(B(v.contains(IntV(z3.IntVal(k)))), 1, 0) for k in range(lo, hi)]))
    if isinstance(v, ObjV) and v.cls == "AbstractPatt":
        return v.fields["__len__"]
    if isinstance(v, ObjV) and "__len__" in v.fields:
        return v.fields["__len__"]  # opaque container whose size is a ghost (spec) value
    if isinstance(v, ObjV) and "pattern" in v.fields:
        return IntV(v.fields["pattern"].n)  # MeshPatt.__len__ = len(self.pattern)  (closed world: checked by frames.closed_world)
    raise Unsupported(f"len({v!r})")


def b_range(eng, st, a, kw):
    if len(a) == 1:
        lo, hi, step = z3.IntVal(0), Z(a[0]), 1
    elif len(a) == 2:
        lo, hi, step = Z(a[0]), Z(a[1]), 1
    else:
        lo, hi = Z(a[0]), Z(a[1])
        sc = a[2].concrete() if isinstance(a[2], IntV) else a[2]
        if sc not in (1, -1):
            raise Unsupported("range with a step other than +-1")
        step = sc
    if step == 1:
        n = z3.If(hi > lo, hi - lo, z3.IntVal(0))
        return SeqV(n, lambda i: IntV(lo + i), "range", {"lo": lo, "hi": hi})
    n = z3.If(lo > hi, lo - hi, z3.IntVal(0))
    return SeqV(n, lambda i: IntV(lo - i), "range")


def b_tee(eng, st, a, kw):
    # itertools.tee(iterable, n): n independent iterators over the same items (a re-iterable
    # sequence here; one-shot iterators are the bounded layer's business)
    n = a[1].concrete() if len(a) > 1 and isinstance(a[1], IntV) else 2
    return TupV([a[0]] * n)


def b_enumerate(eng, st, a, kw):
    if isinstance(a[0], TupV):
        start = (a[1].concrete() if len(a) > 1 and isinstance(a[1], IntV) else 0) or 0
        return TupV([TupV([IntV(start + k), item]) for k, item in enumerate(a[0].items)])
    seq = eng.as_seq(a[0], st)
    start = Z(a[1]) if len(a) > 1 else Z(kw.get("start", 0))
    s0 = z3.simplify(start)
    return SeqV(seq.n, lambda i: TupV([IntV(start + i), seq.at(i)]), "gen", {"enumerate_start": s0.as_long() if z3.is_int_value(s0) else None})


def b_zip(eng, st, a, kw):
    seqs = [eng.as_seq(x, st) for x in a]
    n = seqs[0].n
    for s in seqs[1:]:
        n = z3.If(s.n < n, s.n, n)
    return SeqV(n, lambda i: TupV([s.at(i) for s in seqs]), "gen")


def b_reversed(eng, st, a, kw):
    if isinstance(a[0], TupV):
        return TupV(list(reversed(a[0].items)))
    seq = eng.as_seq(a[0], st)
    return SeqV(seq.n, lambda i: seq.at(seq.n - 1 - i), "gen")


def b_iter(eng, st, a, kw):
    seq = eng.as_seq(a[0], st)
    return ObjV("iterator", {"seq": seq, "pos": IntV(0), "views": []})


def b_islice(eng, st, a, kw):
    if isinstance(a[0], ObjV) and a[0].cls == "iterator":
        if len(a) != 2 or isinstance(a[1], NoneV):
            raise Unsupported("islice(iterator, start, stop)")
        eng.emit("islice-nonneg", st, Z(a[1]) >= 0)
        return eng.iterator_take(a[0], a[1])
    seq = eng.as_seq(a[0], st)
    n = seq.n

    def bound(v, default):
        if isinstance(v, NoneV):
            return default
        t = Z(v)
        eng.emit("islice-nonneg", st, t >= 0)
        return z3.If(t > n, n, t)

    if len(a) == 2:
        lo, hi = z3.IntVal(0), bound(a[1], n)
    else:
        lo, hi = bound(a[1], z3.IntVal(0)), bound(a[2], n)
        if len(a) > 3 and not (isinstance(a[3], NoneV) or (isinstance(a[3], IntV) and a[3].concrete() == 1)):
            raise Unsupported("islice with a step")
    ln = z3.If(hi > lo, hi - lo, z3.IntVal(0))
    lo_s = z3.simplify(lo)
    at_ = (lambda i: seq.at(i)) if z3.is_int_value(lo_s) and lo_s.as_long() == 0 else (lambda i: seq.at(lo + i))
    meta = {"window_of": seq, "lo": lo, "hi": hi} if seq.meta.get("ginv") is not None else None
    return SeqV(ln, at_, "gen", meta)


def b_chain(eng, st, a, kw):
    seqs = [eng.as_seq(x, st) for x in a]
    tags = [s_.meta.get("lazy_tag") for s_ in seqs if isinstance(s_, SeqV) and s_.meta.get("lazy_tag") is not None]
    if tags:
        # views of a stateful iterator: all of them, once each, in creation order
        its = {t[0] for t in tags}
        if len(its) != 1 or [t[1] for t in tags] != list(range(len(tags))):
            raise Unsupported("views of a stateful iterator are not consumed in creation order")
        owner = [v_ for v_ in st.env.values() if isinstance(v_, ObjV) and v_.cls == "iterator" and id(v_) in its]
        if not owner or len(owner[0].fields["views"]) != len(tags):
            raise Unsupported("a view of the stateful iterator is consumed outside this chain")
    total = seqs[0].n
    for s in seqs[1:]:
        total = total + s.n

    def at(i):
        off = z3.IntVal(0)
        out = None
        pieces = []
        for s in seqs:
            pieces.append((off, s))
            off = off + s.n
        val = pieces[-1][1].at(i - pieces[-1][0])
        for off_k, s in reversed(pieces[:-1]):
            val = vite(i < off_k + s.n, s.at(i - off_k), val)
        return val

    return SeqV(total, at, "gen")


def b_tuple(eng, st, a, kw):
    if not a:
        return SeqV(0, lambda i: IntV(0), "tuple")
    if isinstance(a[0], TupV):
        return a[0]  # tuple() of a collection of statically known size
    seq = eng.as_seq(a[0], st)
    return SeqV(seq.n, seq._at, "tuple", dict(seq.meta))


def b_list(eng, st, a, kw):
    if not a:
        return ListV(0, lambda i: IntV(0))
    seq = eng.as_seq(a[0], st)
    return ListV(seq.n, seq._at)


def b_set(eng, st, a, kw):
    if not a:
        out = SetV(lambda v: z3.BoolVal(False), 1)
        out.is_empty = True
        return out
    return eng.to_set(a[0], st)


def _quant(eng, st, a, universal):
    src = a[0]
    if eng.concrete and not isinstance(src, (BagV, TupV)):
        seq = eng.as_seq(src, st)
        n_c = z3.simplify(seq.n)
        if not z3.is_int_value(n_c):
            raise Unsupported("concrete mode: quantifier over a symbolic range")
        ts = [eng.truth(seq.at(z3.IntVal(i)), st) for i in range(n_c.as_long())]
        return BoolV((z3.And(ts) if universal else z3.Or(ts)) if ts else z3.BoolVal(universal))
    if isinstance(src, BagV):
        xs = [fresh("bx") for _ in range(src.nvars)]
        dv = IntV(xs[0]) if src.nvars == 1 else TupV([IntV(x) for x in xs])
        body = eng.truth(src.elt(xs), st)
        dom = B(src.dom.contains(dv))
        return BoolV(z3.ForAll(xs, z3.Implies(dom, body)) if universal else z3.Exists(xs, z3.And(dom, body)))
    if isinstance(src, TupV):
        ts = [eng.truth(x, st) for x in src.items]
        return BoolV((z3.And(ts) if universal else z3.Or(ts)) if ts else z3.BoolVal(universal))
    seq = eng.as_seq(src, st)
    i = fresh("qi")
    body = eng.truth(seq.at(i), st)
    rng = z3.And(i >= 0, i < seq.n)
    return BoolV(z3.ForAll([i], z3.Implies(rng, body)) if universal else z3.Exists([i], z3.And(rng, body)))


def b_all(eng, st, a, kw):
    return _quant(eng, st, a, True)


def b_any(eng, st, a, kw):
    return _quant(eng, st, a, False)


def b_sum(eng, st, a, kw):
    if isinstance(a[0], TupV):
        tot = Z(a[1]) if len(a) > 1 else z3.IntVal(0)
        for x in a[0].items:
            tot = tot + Z(x)
        return IntV(tot)
    seq = eng.as_seq(a[0], st)
    if eng.concrete:
        n_c = z3.simplify(seq.n)
        if not z3.is_int_value(n_c):
            raise Unsupported("concrete mode: sum over a symbolic range")
        tot = Z(a[1]) if len(a) > 1 else z3.IntVal(0)
        for ii in range(n_c.as_long()):
            tot = tot + Z(seq.at(z3.IntVal(ii)))
        return IntV(tot)
    # sum of a filtered "1 for ..." comprehension is its length
    flt = seq.meta.get("filter") or seq.meta.get("map_filter")
    probe = seq.at(fresh("s"))
    if isinstance(probe, IntV) and probe.concrete() == 1:
        return IntV(seq.n)
    if flt is not None and len(a) == 1:
        # rule FILTER-SUM (generic lemma, induction on the base range; lemma:filter_sum): the sum of the selected values
        # of a filter over range(n) is the sum over the WHOLE range of "value if selected else 0"
        from .dsl import register_wsum

        eng.rules_used.add("filter-sum (sum of a filtered listing = sum over the base range of 'value if selected else 0'; lemma:filter_sum)")
        return register_wsum(eng, flt["n"], lambda k_: z3.If(flt["pred"](k_), Z(flt["val"](k_)), z3.IntVal(0)), st.assume)
    # general prefix sums
    ps = fresh_fun("psum", z3.IntSort(), z3.IntSort())
    i = fresh("si")
    st.assume(ps(0) == (Z(a[1]) if len(a) > 1 else 0))
    st.assume(z3.ForAll([i], z3.Implies(z3.And(i >= 0, i < seq.n), ps(i + 1) == ps(i) + Z(seq.at(i))), patterns=[ps(i + 1)]))
    _ = flt
    return IntV(ps(seq.n))


def b_minmax(is_max):
    def f(eng, st, a, kw):
        if len(a) >= 2:
            out = Z(a[0])
            for x in a[1:]:
                t = Z(x)
                out = z3.If(t > out, t, out) if is_max else z3.If(t < out, t, out)
            return IntV(out)
        seq = eng.as_seq(a[0], st)
        if eng.concrete:
            n_c = z3.simplify(seq.n)
            if not z3.is_int_value(n_c):
                raise Unsupported("concrete mode: min/max over a symbolic range")
            vals = [Z(seq.at(z3.IntVal(ii))) for ii in range(n_c.as_long())]
            if not vals:
                if "default" in kw:
                    return IntV(Z(kw["default"]))
                from .engine import _PyRaise
                raise _PyRaise("ValueError")
            out = vals[0]
            for t in vals[1:]:
                out = z3.If(t > out, t, out) if is_max else z3.If(t < out, t, out)
            return IntV(out)
        m = fresh("ext")
        j = fresh("xj")
        i = fresh("xi")
        if "default" in kw:
            d = Z(kw["default"])
            st.assume(z3.Implies(seq.n == 0, m == d))
        else:
            eng.emit("minmax-nonempty", st, seq.n > 0)
        st.assume(z3.Implies(seq.n > 0, z3.And(j >= 0, j < seq.n, Z(seq.at(j)) == m)))
        body = (Z(seq.at(i)) <= m) if is_max else (Z(seq.at(i)) >= m)
        st.assume(z3.ForAll([i], z3.Implies(z3.And(i >= 0, i < seq.n), body)))
        return IntV(m)

    return f


def b_abs(eng, st, a, kw):
    t = Z(a[0])
    return IntV(z3.If(t >= 0, t, -t))


def b_isinstance(eng, st, a, kw):
    obj, cls = a
    names = []
    for c in cls.items if isinstance(cls, TupV) else [cls]:
        if isinstance(c, ObjV) and c.cls == "type":
            names.append(c.fields["name"])
        elif isinstance(c, ObjV) and c.cls == "attr":
            names.append(c.fields["name"])
        else:
            raise Unsupported("isinstance against a non-class")
    if isinstance(obj, SeqV) and obj.kind == "Perm":
        mro = eng.repo.mro("Perm") + ["tuple", "Patt"]
        return BoolV(any(n in mro for n in names))
    if isinstance(obj, ObjV) and obj.cls in eng.repo.classes:
        mro = eng.repo.mro(obj.cls)
        return BoolV(any(n in mro for n in names))
    if isinstance(obj, (IntV, int)) and not isinstance(obj, bool):
        return BoolV(any(n in ("int", "Integral") for n in names))
    if isinstance(obj, NoneV):
        return BoolV(False)
    if isinstance(obj, (SeqV, ListV, TupV)):
        kind = "list" if isinstance(obj, ListV) else "tuple"
        return BoolV(kind in names)
    raise Unsupported(f"isinstance({obj!r}, ...)")


def b_frozenset(eng, st, a, kw):
    return b_set(eng, st, a, kw)


def b_sorted(eng, st, a, kw):
    """sorted(xs) of ints: a sorted rearrangement, stated with a ghost index bijection
    (sigma, tau two-sided inverse): out[i] = xs[sigma(i)], out non-decreasing."""
    key = kw.get("key")
    if "reverse" in kw or (key is not None and not (isinstance(key, ObjV) and key.cls == "itemgetter")):
        raise Unsupported("sorted with reverse / a key other than operator.itemgetter")
    if eng.concrete:
        return _concrete_sorted(eng, st, a[0], key)
    if key is not None:
        return stable_sort_by_item(eng, st, a[0], key.fields["k"])
    src = a[0]
    if isinstance(src, SetV):
        # TRUSTED axiom "sorted of a finite set of ints": a strictly increasing list with the same
        # members (idx_of is the ghost position of a member).  Finiteness of the set is the caller's
        # business (all sets built by the verified functions are subsets of a bounded range).
        if src.arity != 1:
            raise Unsupported("sorted(set of tuples)")
        n = fresh("sorted_n")
        out = fresh_fun("sorted", z3.IntSort(), z3.IntSort())
        pos = fresh_fun("idx_of", z3.IntSort(), z3.IntSort())
        i, j, v = fresh("so"), fresh("sp"), fresh("sv")
        st.assume(n >= 0)
        st.assume(z3.ForAll([i], z3.Implies(z3.And(i >= 0, i < n), B(src.contains(IntV(out(i))))), patterns=[out(i)]))
        st.assume(z3.ForAll([v], z3.Implies(B(src.contains(IntV(v))), z3.And(pos(v) >= 0, pos(v) < n, out(pos(v)) == v)), patterns=[pos(v)]))
        st.assume(z3.ForAll([i, j], z3.Implies(z3.And(i >= 0, i < j, j < n), out(i) < out(j)), patterns=[z3.MultiPattern(out(i), out(j))]))
        lv = ListV(n, lambda k: IntV(out(k)))
        lv.sorted_of = (src, pos)
        eng.seed_funs.append(pos)
        return lv
    seq = eng.as_seq(src, st)
    n = seq.n
    out = fresh_fun("sorted", z3.IntSort(), z3.IntSort())
    sg = fresh_fun("sigma", z3.IntSort(), z3.IntSort())
    tau = fresh_fun("tau", z3.IntSort(), z3.IntSort())
    i, j = fresh("so"), fresh("sp")
    st.assume(z3.ForAll([i], z3.Implies(z3.And(i >= 0, i < n), z3.And(sg(i) >= 0, sg(i) < n, tau(sg(i)) == i, out(i) == Z(seq.at(sg(i))))), patterns=[sg(i)]))
    st.assume(z3.ForAll([i], z3.Implies(z3.And(i >= 0, i < n), z3.And(tau(i) >= 0, tau(i) < n, sg(tau(i)) == i)), patterns=[tau(i)]))
    st.assume(z3.ForAll([i, j], z3.Implies(z3.And(i >= 0, i < j, j < n), out(i) <= out(j)), patterns=[z3.MultiPattern(out(i), out(j))]))
    eng.sort_registry.append((sg, tau, n))  # seed sigma / tau at the skolem constants of later goals
    return ListV(n, lambda k: IntV(out(k)))


def _concrete_sorted(eng, st, src, key):
    """concrete mode (differential check): the elements are known values, sort them"""
    if isinstance(src, SetV):
        els = getattr(src, "elements", None)
        if els is None:
            raise Unsupported("concrete mode: sorted(set without explicit elements)")
    else:
        seq = eng.as_seq(src, st)
        n_c = z3.simplify(seq.n)
        if not z3.is_int_value(n_c):
            raise Unsupported("concrete mode: sorted of a sequence of symbolic length")
        els = [seq.at(z3.IntVal(j)) for j in range(n_c.as_long())]

    def conc(v):
        if isinstance(v, TupV):
            return tuple(conc(x) for x in v.items)
        c_ = IntV(Z(v)).concrete()
        if c_ is None:
            raise Unsupported("concrete mode: sorted of symbolic values")
        return c_

    vals = [conc(e) for e in els]
    if isinstance(src, SetV):
        vals = sorted(set(vals))
    elif key is not None:
        k_ = key.fields["k"]
        k_ = k_.concrete() if isinstance(k_, IntV) else k_
        vals = sorted(vals, key=lambda t: t[k_])
    else:
        vals = sorted(vals)

    def back(v):
        return TupV([back(x) for x in v]) if isinstance(v, tuple) else IntV(v)

    items = [back(v) for v in vals]
    return ListV(len(items), lambda i, items=items: _pick_concrete(i, items))


def _pick_concrete(i, items):
    s_ = z3.simplify(Z(i))
    if z3.is_int_value(s_) and 0 <= s_.as_long() < len(items):
        return items[s_.as_long()]
    if not items:
        return IntV(0)
    out = items[-1]
    for k_ in range(len(items) - 2, -1, -1):
        out = vite(Z(i) == k_, items[k_], out)
    return out


def stable_sort_by_item(eng, st, src, k):
    """sorted(seq_of_tuples, key=operator.itemgetter(k)): TRUSTED axiom 'sorted is a stable sort':
    out[i] = seq[sigma(i)] for a bijection sigma of range(n) (ghost two-sided inverse tau), keys are
    non-decreasing, and equal keys keep their original relative order."""
    seq = eng.as_seq(src, st)
    n = seq.n
    sg = fresh_fun("sigma", z3.IntSort(), z3.IntSort())
    tau = fresh_fun("tau", z3.IntSort(), z3.IntSort())
    i, j = fresh("so"), fresh("sp")

    def keyat(t):
        el = seq.at(t)
        if not isinstance(el, TupV):
            raise Unsupported("itemgetter on non-tuples")
        return Z(el.items[k])

    st.assume(z3.ForAll([i], z3.Implies(z3.And(i >= 0, i < n), z3.And(sg(i) >= 0, sg(i) < n, tau(sg(i)) == i)), patterns=[sg(i)]))
    st.assume(z3.ForAll([i], z3.Implies(z3.And(i >= 0, i < n), z3.And(tau(i) >= 0, tau(i) < n, sg(tau(i)) == i)), patterns=[tau(i)]))
    st.assume(z3.ForAll([i, j], z3.Implies(z3.And(i >= 0, i < j, j < n),
                                          z3.And(keyat(sg(i)) <= keyat(sg(j)), z3.Implies(keyat(sg(i)) == keyat(sg(j)), sg(i) < sg(j)))),
                        patterns=[z3.MultiPattern(sg(i), sg(j))]))
    out = ListV(n, lambda t: seq.at(sg(t)))
    out.argsort = (sg, tau, seq)
    eng.perm_registry.append((sg, tau, n))  # seed sigma / tau at the skolem constants of later goals
    return out


def b_itemgetter(eng, st, a, kw):
    c = a[0].concrete() if isinstance(a[0], IntV) else a[0]
    if not isinstance(c, int):
        raise Unsupported("itemgetter with a symbolic index")
    return ObjV("itemgetter", {"k": c})


def b_int(eng, st, a, kw):
    return IntV(Z(a[0]))


def b_bool(eng, st, a, kw):
    return BoolV(eng.truth(a[0], st))


def b_deque(eng, st, a, kw):
    """collections.deque(): a list with the extra operations appendleft / rotate(+-1) (axioms of the
    trusted base: appendleft puts the element at index 0, rotate(1) moves the last element to the
    front, rotate(-1) the first to the back)"""
    if kw:
        raise Unsupported("deque with maxlen")
    out = b_list(eng, st, a, kw)
    out.is_deque = True
    return out


SIMPLE = {
    "collections.deque": b_deque,
    "deque": b_deque,
    "len": b_len,
    "iter": b_iter,
    "range": b_range,
    "enumerate": b_enumerate,
    "tee": b_tee,
    "itertools.tee": b_tee,
    "zip": b_zip,
    "reversed": b_reversed,
    "itertools.islice": b_islice,
    "islice": b_islice,
    "itertools.chain": b_chain,
    "chain": b_chain,
    "tuple": b_tuple,
    "list": b_list,
    "set": b_set,
    "frozenset": b_frozenset,
    "all": b_all,
    "any": b_any,
    "sum": b_sum,
    "min": b_minmax(False),
    "max": b_minmax(True),
    "abs": b_abs,
    "isinstance": b_isinstance,
    "sorted": b_sorted,
    "operator.itemgetter": b_itemgetter,
    "itemgetter": b_itemgetter,
    "int": b_int,
    "bool": b_bool,
}

_ = (dsl, veq, V)
