"""Definition-level oracles for permutation classes and bases (C02, C05, C07).

Everything works on the spec representation of specs/core.py:
classical pattern = tuple, mesh pattern = (tuple, frozenset of cells).
Nothing here calls permuta.

* level(n, patts)          the avoiders of length n, by filtering all of S_n
* first_k_problem(...)     is a listing a legal answer to "the first k of the class"
* patt_le(a, b)            pattern-inside-pattern containment (syntactic, the
                           standard definition for mesh patterns), used for
                           "no element of a basis contains another"
"""
import functools
import itertools

from specs import core as S


# ------------------------------------------------------------- containment
def contains_classical(perm, patt):
    """Same definition as core.contains (some subsequence is order-isomorphic to
    patt), evaluated as: the subsequence read in the order of patt's values is
    increasing.  Cross-checked against core.contains in `selfcheck`."""
    k = len(patt)
    if k > len(perm):
        return False
    by_value = sorted(range(k), key=patt.__getitem__)
    for sub in itertools.combinations(perm, k):
        prev = -1
        for j in by_value:
            v = sub[j]
            if v < prev:
                break
            prev = v
        else:
            return True
    return False


def contains(perm, patt):
    if S.is_mesh(patt):
        return S.contains(perm, patt)
    return contains_classical(perm, patt)


@functools.lru_cache(maxsize=None)
def _level(n, patts):
    return tuple(p for p in S.all_perms(n) if not any(contains(p, q) for q in patts))


def canon(patts):
    """Hashable, order- and repetition-free key of a collection of patterns."""
    return tuple(sorted(set(patts), key=lambda q: (S.is_mesh(q), S.patt_len(q), repr(q))))


def level(n, patts):
    """Av_n(patts) as a tuple of tuples in lexicographic order (brute force)."""
    return _level(n, canon(patts))


@functools.lru_cache(maxsize=None)
def _level_set(n, patts):
    return frozenset(_level(n, patts))


def level_set(n, patts):
    return _level_set(n, canon(patts))


def in_class(perm, patts):
    return not any(contains(perm, q) for q in patts)


def selfcheck():
    """The fast classical test agrees with the plain definition of core.py."""
    for patt in S.perms_upto(3):
        for perm in S.perms_upto(5):
            assert contains_classical(perm, patt) == S.contains(perm, patt), (perm, patt)
    assert [len(level(n, [(0, 1, 2)])) for n in range(7)] == [1, 1, 2, 5, 14, 42, 132]
    assert [len(level(n, [(0, 2, 1), (2, 0, 1)])) for n in range(7)] == [1, 1, 2, 4, 8, 16, 32]
    for basis in ([(0, 1, 2)], [(0, 2, 1), (3, 0, 1, 2)], [(0, 1)], [(0, 1, 2), (2, 1, 0)], [(1, 3, 0, 2), (2, 0, 3, 1)]):
        assert level_closed(6, basis) == level(6, basis), basis
    assert [len(level_closed(n, [(0, 1, 2, 3)])) for n in (6, 7, 8)] == [513, 2761, 15767]


@functools.lru_cache(maxsize=None)
def _level_closed(n, patts):
    if n <= 5:
        return _level(n, patts)
    below = _level_closed(n - 1, patts)
    out = []
    for p in below:
        for pos in range(n):
            cand = p[:pos] + (n - 1,) + p[pos:]
            if not any(contains_classical(cand, q) for q in patts):
                out.append(cand)
    return tuple(sorted(out))


def level_closed(n, patts):
    """Av_n for a CLASSICAL basis, still by the definition (every candidate is
    tested for containment by brute force), but candidates are restricted to the
    permutations whose deletion of the maximum lies in Av_{n-1}: a class defined
    by classical patterns is closed under deleting points, so nothing is lost.
    Used for lengths 7-8 where filtering all of S_n is too slow; equal to
    `level` on everything `selfcheck` compares."""
    key = canon(patts)
    assert not any(S.is_mesh(q) for q in key)
    return _level_closed(n, key)


@functools.lru_cache(maxsize=None)
def _level_closed_set(n, patts):
    return frozenset(_level_closed(n, patts))


def level_closed_set(n, patts):
    return _level_closed_set(n, canon(patts))


# ------------------------------------------------------------ "first k"
def has_gap(patts, upto):
    """Some level below `upto` is empty although a later level (<= upto) is not:
    the class is not downward closed in a way that matters for listing by length."""
    sizes = [len(level(n, patts)) for n in range(upto + 1)]
    return any(sizes[i] == 0 and any(sizes[i + 1:]) for i in range(upto + 1))


def first_k_problem(listing, k, patts, cap, classical):
    """None if `listing` (tuples) is a legal value of "the first k permutations of
    the class, by increasing length" (order inside a length is free), else a
    message.  `cap`: largest length the oracle enumerates.  For a classical basis
    the class is downward closed, so an empty level <= cap decides finiteness; for
    a mesh basis a listing shorter than k is accepted only if it contains every
    member of length <= cap (nothing can be said beyond the cap)."""
    if len(listing) > k:
        return f"{len(listing)} permutations for first({k})"
    if len(set(listing)) != len(listing):
        return "a permutation is listed twice"
    lens = [len(p) for p in listing]
    if lens != sorted(lens):
        return "not by increasing length"
    for p in listing:
        if not in_class(p, patts):
            return f"{p} is not in the class"
    got = set(listing)
    last = lens[-1] if lens else -1
    short = len(listing) < k
    # every level strictly below the last listed length must be complete; when the
    # listing is shorter than k, every level at all must be complete
    top = cap if short else min(last - 1, cap)
    for n in range(top + 1):
        lv = level(n, patts)
        missing = [p for p in lv if p not in got]
        if missing:
            return f"level {n} is incomplete (e.g. {missing[0]} missing) although the listing " + (
                f"stops after {len(listing)} < {k} permutations" if short else f"continues with length {last}"
            )
        if classical and short and not lv:
            return None  # downward closed: the class is finite and fully listed
    if short and classical:
        return f"only {len(listing)} permutations although the class has more (no empty level up to {cap})"
    return None


# ------------------------------------ pattern-inside-pattern containment (C05)
def as_mesh(p):
    return p if S.is_mesh(p) else (tuple(p), frozenset())


def patt_le(a, b):
    """a is contained in b as a pattern.  Classical in classical: the usual one.
    In general (a, b mesh patterns, a classical pattern = unshaded mesh pattern):
    there is an occurrence of a's underlying pattern among the points of b such
    that, for every shaded cell of a, the rectangle of b's grid it is stretched
    over is completely shaded in b and holds no point of b.  (Consequence, not
    used as definition: every permutation containing b contains a.)"""
    (pa, sa), (pb, sb) = as_mesh(a), as_mesh(b)
    k, n = len(pa), len(pb)
    for idx in S.occurrences(pa, pb):
        cols = [-1] + list(idx) + [n]
        rows = [-1] + sorted(pb[i] for i in idx) + [n]
        good = True
        for (x, y) in sa:
            if not (0 <= x <= k and 0 <= y <= k):
                continue
            for X in range(cols[x] + 1, cols[x + 1] + 1):
                for Y in range(rows[y] + 1, rows[y + 1] + 1):
                    if (X, Y) not in sb:
                        good = False
            for i in range(cols[x] + 1, cols[x + 1]):
                if rows[y] < pb[i] < rows[y + 1]:
                    good = False
            if not good:
                break
        if good:
            return True
    return False


@functools.lru_cache(maxsize=None)
def containers(patt, maxlen):
    return frozenset(p for p in S.perms_upto(maxlen) if contains(p, patt))


@functools.lru_cache(maxsize=None)
def universe(maxlen):
    return frozenset(S.perms_upto(maxlen))


def avoid_set(patts, maxlen):
    """All permutations of length <= maxlen avoiding every pattern."""
    out = universe(maxlen)
    for q in set(patts):
        out = out - containers(q, maxlen)
    return out
