"""Definition-level oracles for C16 (finitely many simple permutations).

Nothing here calls permuta.  Permutations are tuples over range(n).

Definitions (Brignall-Huczynska-Vatter, "Decomposing simple permutations"):
* interval: a set of contiguous positions whose values are contiguous; a permutation
  is simple when its only intervals have size 0, 1 or n;
* alternation: the plot is cut by a vertical (or horizontal) line into two halves,
  and going up (resp. right) the points come alternately from the two halves;
  it is *parallel* when both halves have the same direction and a *wedge*
  alternation when the directions are opposite and the two halves move apart
  (shapes < > v ^);
* wedge simple permutation: a wedge alternation with one additional point that
  makes it simple; this can be done in exactly two ways up to symmetry (types 1
  and 2), which is re-derived below by brute force (`simple_extensions`).
Every family is a chain: the member of size parameter m is contained in the member
of parameter m + 1, and every subpermutation with k points of a long member already
occurs in the member of parameter k + 1 (each chosen point costs at most one pair of
the alternation).  Hence  "Av(B) contains only finitely many members of the family"
<=> some b in B is contained in the member of parameter |b| + 1.
"""
from . import core as S


# ------------------------------------------------------------------ simplicity
def intervals(p):
    """All (start, length) with 2 <= length <= n - 1 such that the entries at
    positions start .. start+length-1 form a set of consecutive values."""
    n = len(p)
    out = []
    for i in range(n):
        for ln in range(2, n):
            if i + ln > n:
                break
            block = p[i:i + ln]
            if max(block) - min(block) == ln - 1:
                out.append((i, ln))
    return out


def is_simple(p):
    return not intervals(p)


def one_point_extensions(p):
    """All permutations obtained by adding one point: (perm, position, value)."""
    n = len(p)
    for i in range(n + 1):
        for v in range(n + 1):
            q = tuple(x + (x >= v) for x in p[:i]) + (v,) + tuple(x + (x >= v) for x in p[i:])
            yield q, i, v


# ------------------------------------------------------------ the base shapes
def parallel_alternation(m, odd_first=True):
    """Vertical axis, both halves increasing, 2m points.  odd_first: the left half
    carries the upper point of each consecutive pair (1 3 5 | 0 2 4, simple for
    m >= 2); otherwise 0 2 4 | 1 3 5 (same downward closure)."""
    lo = tuple(range(0, 2 * m, 2))
    hi = tuple(range(1, 2 * m, 2))
    return hi + lo if odd_first else lo + hi


def wedge_alternation(m, lowest_left=True):
    """Shape ^ : left half increasing, right half decreasing, alternating in value,
    2m points; the lowest point is the first (lowest_left) or the last one."""
    if lowest_left:
        return tuple(range(0, 2 * m, 2)) + tuple(range(2 * m - 1, 0, -2))
    return tuple(range(1, 2 * m, 2)) + tuple(range(2 * m - 2, -1, -2))


def is_alternation_vertical(p, m):
    """p (2m points) is cut by the vertical line after m points and going up the
    points alternate between the halves."""
    if len(p) != 2 * m:
        return False
    side = [None] * (2 * m)
    for i, v in enumerate(p):
        side[v] = i < m
    return all(side[v] != side[v + 1] for v in range(2 * m - 1))


def wedge_centre(m):
    """Wedge alternation ^ with 2m points plus a point between the two apex points
    (horizontally), below everything: 1 3 5 | 0 | 6 4 2."""
    w = wedge_alternation(m, True)
    return tuple(x + 1 for x in w[:m]) + (0,) + tuple(x + 1 for x in w[m:])


def wedge_side(m):
    """Wedge alternation ^ with 2m points (lowest point leftmost) plus a point to the
    left of everything whose value separates the two apex points: 5 | 0 2 4 | 6 3 1."""
    w = wedge_alternation(m, True)
    v = 2 * m - 1
    return (v,) + tuple(x + (x >= v) for x in w)


FAMILIES = {
    "parallel": lambda m: parallel_alternation(m, True),
    "wedge_centre": wedge_centre,
    "wedge_side": wedge_side,
}


def member(family, sym, m):
    return S.sym_perm(sym, FAMILIES[family](m))


def orientations(family, m=4):
    """One symmetry name per distinct symmetric copy of the family."""
    seen, out = set(), []
    for s in S.SYMS:
        q = member(family, s, m)
        if q not in seen:
            seen.add(q)
            out.append(s)
    return out


# --------------------------------------------------------------- the oracles
def finitely_many(basis, family):
    """Av(basis) contains only finitely many members of every symmetric copy of the
    family (chain argument of the module docstring)."""
    basis = [tuple(b) for b in basis]
    for s in orientations(family):
        if not any(S.contains(member(family, s, len(b) + 1), b) for b in basis):
            return False
    return True


def finitely_many_special(basis):
    """Only finitely many parallel alternations and wedge simples of both types."""
    return all(finitely_many(basis, fam) for fam in FAMILIES)


def simple_extensions(m):
    """All simple one-point extensions of the two ^-shaped wedge alternations with
    2m points, classified geometrically: 'centre' = the new point lies horizontally
    between the two apex points, 'side' = it does not."""
    out = []
    for lowest_left in (True, False):
        w = wedge_alternation(m, lowest_left)
        for q, i, v in one_point_extensions(w):
            if is_simple(q):
                out.append((q, "centre" if i == m else "side", lowest_left, i, v))
    return out
