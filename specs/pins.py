"""Pin words: definition-level oracles (C14, C15), written from the property
statements.  Nothing here imports permuta or automata-lib.

A pin word is a word over {1,2,3,4,U,L,D,R}.  Reading it places pins p1, p2, ...
in the plane, starting from an origin p0:

* a numeral q places an *independent* pin: strictly outside the bounding box of
  all pins placed so far (origin included), in the corner region named by q
  (1 = up-right, 2 = up-left, 3 = down-left, 4 = down-right);
* a direction letter d places a *separating* pin: beyond the bounding box of all
  pins so far on the side d, and - in the other coordinate - strictly between
  the previous pin and every earlier pin (origin included).  This is possible
  only when the previous pin is extreme in that other coordinate, which is what
  rules out UU, UD, DU, DD, LL, LR, RL, RR and a leading direction letter.

Representation (own design, no coordinates): the pins are the integers
0 (origin), 1, 2, ...; the decoder maintains the two linear orders "left to
right" and "bottom to top" as Python lists of pin numbers.  A pin beyond the
bounding box is appended at an end of a list; a separating pin is inserted
next to the previous pin, on its inner side.  `coords()` turns the two orders
into exact rational coordinates for readers who prefer points.
"""
import itertools
from fractions import Fraction

NUMERALS = "1234"
DIRECTIONS = "ULDR"
ALPHABET = NUMERALS + DIRECTIONS
VERTICAL = "UD"
HORIZONTAL = "LR"

# quadrant -> (x side, y side); +1 = right / up, -1 = left / down
QUADRANT_SIDES = {"1": (+1, +1), "2": (-1, +1), "3": (-1, -1), "4": (+1, -1)}
SIDES_QUADRANT = {v: k for k, v in QUADRANT_SIDES.items()}
# direction letter -> (axis moved along: 0 = x, 1 = y ; side)
DIRECTION_SIDE = {"U": (1, +1), "D": (1, -1), "L": (0, -1), "R": (0, +1)}


class NotAPinWord(ValueError):
    pass


def _axis(letter):
    return "V" if letter in VERTICAL else "H"


# ------------------------------------------------------------------ decoding
def place(word):
    """Return (xorder, yorder): the pins 0..len(word) sorted left-to-right and
    bottom-to-top.  Raises NotAPinWord when a letter cannot be placed."""
    orders = [[0], [0]]  # orders[0] = by x, orders[1] = by y

    def beyond(axis, side, pin):
        if side > 0:
            orders[axis].append(pin)
        else:
            orders[axis].insert(0, pin)

    for k, letter in enumerate(word):
        pin = k + 1
        if letter in QUADRANT_SIDES:
            sx, sy = QUADRANT_SIDES[letter]
            beyond(0, sx, pin)
            beyond(1, sy, pin)
        elif letter in DIRECTION_SIDE:
            if pin == 1:
                raise NotAPinWord(f"{word!r}: a direction letter cannot separate the origin from nothing")
            axis, side = DIRECTION_SIDE[letter]
            other = 1 - axis
            prev = pin - 1
            line = orders[other]
            # the previous pin must have every earlier pin on one side in the
            # other coordinate; the new pin goes between it and its neighbour
            if line[-1] == prev:
                line.insert(len(line) - 1, pin)
            elif line[0] == prev:
                line.insert(1, pin)
            else:
                raise NotAPinWord(f"{word!r}: letter {k} ({letter}) cannot separate pin {prev} from the earlier pins")
            beyond(axis, side, pin)
        else:
            raise NotAPinWord(f"{word!r}: letter {letter!r} is not in the alphabet")
    return orders[0], orders[1]


def decode(word):
    """The permutation of the pins p1..pn (origin excluded), as a tuple."""
    xorder, yorder = place(word)
    height = {pin: r for r, pin in enumerate(p for p in yorder if p != 0)}
    return tuple(height[pin] for pin in xorder if pin != 0)


def coords(word):
    """Exact rational points realising the placement (origin at (0, 0)); pins are
    spread at integer ranks relative to the origin.  For display and for the
    self-check `geometric_ok`."""
    xorder, yorder = place(word)
    x0, y0 = xorder.index(0), yorder.index(0)
    xs = {pin: Fraction(i - x0) for i, pin in enumerate(xorder)}
    ys = {pin: Fraction(i - y0) for i, pin in enumerate(yorder)}
    return [(xs[p], ys[p]) for p in range(len(word) + 1)]


def geometric_ok(word):
    """Check the *definition* on the points of `coords(word)` directly (used to
    validate the order-list decoder against the statement, pin by pin)."""
    pts = coords(word)
    for k, letter in enumerate(word):
        new = pts[k + 1]
        earlier = pts[: k + 1]
        lo = (min(p[0] for p in earlier), min(p[1] for p in earlier))
        hi = (max(p[0] for p in earlier), max(p[1] for p in earlier))
        if letter in QUADRANT_SIDES:
            for axis, side in enumerate(QUADRANT_SIDES[letter]):
                if not (new[axis] > hi[axis] if side > 0 else new[axis] < lo[axis]):
                    return False
        else:
            axis, side = DIRECTION_SIDE[letter]
            other = 1 - axis
            if not (new[axis] > hi[axis] if side > 0 else new[axis] < lo[axis]):
                return False
            prev = pts[k][other]
            rest = [p[other] for p in pts[:k]]
            if not rest:
                return False
            between = all(prev < new[other] < r for r in rest) or all(r < new[other] < prev for r in rest)
            if not between:
                return False
    return True


def quadrant_of_pin(word, index):
    """Quadrant ('1'..'4') of the pin placed by word[index] relative to the origin."""
    xorder, yorder = place(word)
    pin = index + 1
    sx = +1 if xorder.index(pin) > xorder.index(0) else -1
    sy = +1 if yorder.index(pin) > yorder.index(0) else -1
    return SIDES_QUADRANT[(sx, sy)]


def pins_pattern(word, indices):
    """Standardisation of the pins placed by the letters word[i], i in indices."""
    xorder, yorder = place(word)
    chosen = {i + 1 for i in indices}
    height = {pin: r for r, pin in enumerate(p for p in yorder if p in chosen)}
    return tuple(height[pin] for pin in xorder if pin in chosen)


# --------------------------------------------------------------- enumeration
def is_pinword(word):
    """Syntactic definition: letters from the alphabet, no direction letter first,
    no two consecutive letters of the same axis (UU UD DU DD LL LR RL RR)."""
    if any(c not in ALPHABET for c in word):
        return False
    if word and word[0] in DIRECTIONS:
        return False
    for a, b in zip(word, word[1:]):
        if a in DIRECTIONS and b in DIRECTIONS and _axis(a) == _axis(b):
            return False
    return True


def pinwords(length):
    """All pin words of the length, by filtering every word over the alphabet."""
    return ["".join(t) for t in itertools.product(ALPHABET, repeat=length) if is_pinword("".join(t))]


def is_strict(word):
    """Strict pin word: one numeral followed by direction letters only (a pin
    word).  The empty word has no numeral; the code under test calls it strict and
    the property does not speak about it, see props/c14."""
    return bool(word) and is_pinword(word) and word[0] in NUMERALS and all(c in DIRECTIONS for c in word[1:])


def strict_pinwords(length):
    """A numeral followed by an alternating direction word (same set as filtering
    `pinwords(length)` with `is_strict`; generated directly so that long words are
    affordable)."""
    if length == 0:
        return []
    return [q + m for q in NUMERALS for m in m_words(length - 1)]


def in_m(word):
    """M: words over {U,L,D,R} in which vertical and horizontal letters alternate."""
    if any(c not in DIRECTIONS for c in word):
        return False
    return all(_axis(a) != _axis(b) for a, b in zip(word, word[1:]))


def m_words(length):
    """All words of M of the length: choose the axis of the first letter, then one of
    the two letters of the due axis at every position (same set as filtering all
    4^n direction words with `in_m`)."""
    if length == 0:
        return [""]
    out = []
    for first in (VERTICAL, HORIZONTAL):
        second = HORIZONTAL if first == VERTICAL else VERTICAL
        axes = [first if i % 2 == 0 else second for i in range(length)]
        out.extend("".join(t) for t in itertools.product(*axes))
    return out


def all_direction_words(length):
    return ["".join(t) for t in itertools.product(DIRECTIONS, repeat=length)]


# ------------------------------------------------------- factors, M <-> SP
def factors(word):
    """Strong numeral-led factorisation: cut in front of every numeral."""
    out = []
    for c in word:
        if c in NUMERALS or not out:
            out.append(c)
        else:
            out[-1] += c
    return out


def quadrant_pair(q):
    """The two direction letters naming the sides of quadrant q (horizontal, vertical)."""
    sx, sy = QUADRANT_SIDES[q]
    return ("R" if sx > 0 else "L"), ("U" if sy > 0 else "D")


def m_to_strict(word):
    """A word of M of length >= 2 encodes the pin sequence whose first pin lies in
    the quadrant named by its first two letters (one horizontal, one vertical, in
    either order) and whose further pins are the separating pins named by the
    remaining letters."""
    if len(word) < 2 or not in_m(word):
        raise ValueError(word)
    first = set(word[:2])
    for q in NUMERALS:
        if set(quadrant_pair(q)) == first:
            return q + word[2:]
    raise ValueError(word)


def strict_to_m(word):
    """All words of M encoding the strict pin word: replace the numeral by the two
    sides of its quadrant, in the order(s) that keep(s) the letters alternating."""
    if not is_strict(word):
        raise ValueError(word)
    h, v = quadrant_pair(word[0])
    return tuple(c for c in (h + v + word[1:], v + h + word[1:]) if in_m(c))


def decode_m(word):
    """Permutation encoded by a word of M (length >= 2)."""
    return decode(m_to_strict(word))


_NONPIN = {}


def nonpin_perms(n):
    """the permutations of length n that are the decoding of no pin word of length n (none for n <= 5, 56 for
    n = 6), by this module's own enumerator and decoder"""
    import itertools

    if n not in _NONPIN:
        have = {tuple(decode(w)) for w in pinwords(n)}
        _NONPIN[n] = [p for p in itertools.permutations(range(n)) if p not in have]
    return list(_NONPIN[n])
