"""Definition-level oracles for C19 (enumeration strategies).

Nothing here calls permuta.  Permutations are tuples over range(n).

Sources.  The hypotheses of the core strategies are those of the corollaries of
Bean, Nadeau, Ulfarsson, "Enumeration of permutation classes and weighted labelled
independent sets" (arXiv:1912.07503) as quoted in the docstrings of
permuta/enumeration_strategies/core_strategies.py: a class Av(R u (1 (+) P)) where R
is the set of required patterns (R_U = 2314, C_U = 3124, R_D = 2413, C_D = 3142,
2134, 2143) and every other basis element is "1 (+) p" with p of a prescribed shape
("skew-indecomposable", "sum-indecomposable", any).  For the corollaries whose
docstring is only "TODO" (5.4 - 10.5) the shape is the one named by the helper the
strategy calls, restated here in words with independent definitions of the
ingredients; the property statement fixes that *every* such element is of the form
"one plus ...".
The strategy applies to B when the hypothesis holds for B or one of its eight
symmetric images g.B:  every required pattern is excluded from Av(g.B) (i.e. contains
an element of g.B), and every element of g.B that is not itself a required pattern
has the prescribed form.
"""
from . import core as S
from . import growth as G
from . import simples as X

R_U = (1, 2, 0, 3)   # 2314
C_U = (2, 0, 1, 3)   # 3124
R_D = (1, 3, 0, 2)   # 2413
C_D = (2, 0, 3, 1)   # 3142
P2134 = (1, 0, 2, 3)
P2143 = (1, 0, 3, 2)


# ------------------------------------------------------- sums and components
def direct_sum(a, b):
    return tuple(a) + tuple(x + len(a) for x in b)


def skew_sum(a, b):
    return tuple(x + len(b) for x in a) + tuple(b)


def sum_decomposable(p):
    """p = a (+) b with a, b non-empty."""
    n = len(p)
    return any(sorted(p[:k]) == list(range(k)) for k in range(1, n))


def skew_decomposable(p):
    """p = a (-) b with a, b non-empty."""
    n = len(p)
    return any(sorted(p[:k]) == list(range(n - k, n)) for k in range(1, n))


def sum_components(p):
    """The unique decomposition p = c1 (+) ... (+) cr into sum-indecomposable,
    non-empty blocks (standardised)."""
    n = len(p)
    cuts = [0] + [k for k in range(1, n) if sorted(p[:k]) == list(range(k))] + [n]
    return [S.std(p[cuts[i]:cuts[i + 1]]) for i in range(len(cuts) - 1) if cuts[i] < cuts[i + 1]]


def skew_components(p):
    n = len(p)
    cuts = [0] + [k for k in range(1, n) if sorted(p[:k]) == list(range(n - k, n))] + [n]
    return [S.std(p[cuts[i]:cuts[i + 1]]) for i in range(len(cuts) - 1) if cuts[i] < cuts[i + 1]]


def one_plus(q):
    return direct_sum((0,), q)


def plus_one(q):
    return direct_sum(q, (0,))


def strip_one_plus(p):
    """q if p = 1 (+) q, else None."""
    if len(p) >= 1 and p[0] == 0:
        return tuple(x - 1 for x in p[1:])
    return None


def strip_plus_one(p):
    """q if p = q (+) 1, else None."""
    if len(p) >= 1 and p[-1] == len(p) - 1:
        return tuple(p[:-1])
    return None


# ------------------------------------------------------- the shape helpers
def spec_fstrip(p):
    q = strip_one_plus(p)
    return tuple(p) if q is None else q


def spec_bstrip(p):
    q = strip_plus_one(p)
    return tuple(p) if q is None else q


def one_plus_skewind(p):
    q = strip_one_plus(p)
    return q is not None and not skew_decomposable(q)


def one_plus_sumind(p):
    q = strip_one_plus(p)
    return q is not None and not sum_decomposable(q)


def one_plus_any(p):
    return strip_one_plus(p) is not None


def spec_last_sum_component(p):
    return sum_components(p)[-1]


def spec_last_skew_component(p):
    return skew_components(p)[-1]


def top_two_adjacent(q, order):
    """The largest and the second largest entry of q are adjacent, in the order
    'max first' (order = 'desc') or 'max last' (order = 'asc')."""
    n = len(q)
    if n < 2:
        return False
    i, j = q.index(n - 1), q.index(n - 2)
    return (j == i + 1) if order == "desc" else (i == j + 1)


# the two mesh patterns of Corollaries 9.5 / 10.5 (used to cross-check
# `top_two_adjacent` in the spec self-check)
_SH = frozenset([(0, 1), (0, 2), (1, 0), (1, 1), (1, 2), (2, 1), (2, 2)])
MESH_DESC = ((1, 0), _SH)
MESH_ASC = ((0, 1), _SH)


# -------------------------------------------- valid extensions per strategy
def ext_bstrip_one_plus_sumind(p):
    """p = 1 (+) q  or  p = 1 (+) q (+) 1  with q sum-indecomposable (possibly empty)."""
    if one_plus_sumind(p):
        return True
    r = strip_plus_one(p)
    return r is not None and one_plus_sumind(r)


def ext_rd_cu(p):
    return one_plus_skewind(p) and ext_bstrip_one_plus_sumind(p)


def ext_rd_2134(p):
    """p = 1 (+) q, the two largest entries of q are not adjacent as 'max, second',
    and the last sum component of q is a single point or is not increasing."""
    q = strip_one_plus(p)
    if q is None:
        return False
    if top_two_adjacent(q, "desc"):
        return False
    if not q:
        return True
    last = spec_last_sum_component(q)
    return len(last) == 1 or not G.is_increasing(last)


def ext_ru_2143(p):
    """p = 1 (+) q, the two largest entries of q are not adjacent as 'second, max',
    and the last skew component of q is not increasing."""
    q = strip_one_plus(p)
    if q is None:
        return False
    if top_two_adjacent(q, "asc"):
        return False
    if not q:
        return True
    return not G.is_increasing(spec_last_skew_component(q))


def ext_ru_2143_without_one_plus(p):
    """What Ru2143CoreStrategy.is_valid_extension computes: the leading 1 is removed
    when present but not required (used only by the known-finding predicate)."""
    q = spec_fstrip(p)
    if top_two_adjacent(q, "asc"):
        return False
    return not G.is_increasing(spec_last_skew_component(q))


CORE = {
    "RuCuCoreStrategy": ((R_U, C_U), one_plus_skewind),
    "RdCdCoreStrategy": ((R_D, C_D), one_plus_sumind),
    "RuCuRdCdCoreStrategy": ((R_D, C_D, R_U, C_U), one_plus_any),
    "RuCuCdCoreStrategy": ((R_U, C_U, C_D), one_plus_skewind),
    "RdCdCuCoreStrategy": ((R_D, C_D, C_U), ext_bstrip_one_plus_sumind),
    "RdCuCoreStrategy": ((R_D, C_U), ext_rd_cu),
    "Rd2134CoreStrategy": ((R_D, P2134), ext_rd_2134),
    "Ru2143CoreStrategy": ((R_U, P2143), ext_ru_2143),
}
ORDER = ("InsertionEncodingStrategy",) + tuple(CORE) + ("FinitelyManySimplesStrategy",)
SLOW = ("FinitelyManySimplesStrategy",)


def hypothesis_holds(name, basis, ext=None):
    """The hypothesis of the corollary holds for this very basis (no symmetry)."""
    required, shape = CORE[name]
    if ext is not None:
        shape = ext
    basis = {tuple(b) for b in basis}
    excluded = all(any(S.contains(r, b) for b in basis) for r in required)
    others = all(shape(b) for b in basis if b not in required)
    return excluded and others


def core_applies(name, basis, ext=None):
    basis = [tuple(b) for b in basis]
    return any(hypothesis_holds(name, [S.sym_perm(g, b) for b in basis], ext) for g in S.SYMS)


def insertion_encoding_applies(basis):
    """ALR: some symmetric image of the basis meets the four side-by-side
    juxtaposition classes (C13)."""
    basis = [tuple(b) for b in basis]
    return any(G.spec_rightmost([S.sym_perm(g, b) for b in basis]) for g in S.SYMS)


def fast_strategies(basis):
    out = []
    if insertion_encoding_applies(basis):
        out.append("InsertionEncodingStrategy")
    out += [name for name in CORE if core_applies(name, basis)]
    return out


def special_simples_finite(basis):
    return X.finitely_many_special(basis)
