"""Definition-level spec functions (oracles), written from the property
statements.  They work on plain tuples / frozensets and never call permuta.

classical pattern / permutation : tuple of ints, a bijection of range(n)
mesh pattern                    : (tuple, frozenset of cells (x, y)), 0 <= x, y <= k
"""
import functools
import itertools


# ---------------------------------------------------------------- basics
def is_perm(t):
    return sorted(t) == list(range(len(t)))


def all_perms(n):
    return itertools.permutations(range(n))


def perms_upto(n):
    for k in range(n + 1):
        yield from itertools.permutations(range(k))


def std(seq):
    """Unique permutation order-isomorphic to seq, ties broken left to right."""
    seq = list(seq)
    order = sorted(range(len(seq)), key=lambda i: (seq[i], i))
    out = [0] * len(seq)
    for rank, i in enumerate(order):
        out[i] = rank
    return tuple(out)


def order_iso(a, b):
    """a and b (sequences of distinct comparable values) are order-isomorphic."""
    if len(a) != len(b):
        return False
    n = len(a)
    return all((a[i] < a[j]) == (b[i] < b[j]) for i in range(n) for j in range(n))


def lt_perm(a, b):
    """The (length, lexicographic) order of the property statement C08/C09."""
    return (len(a), tuple(a)) < (len(b), tuple(b))


# ------------------------------------------------------------ containment
def occurrences(patt, perm, patt_colours=None, perm_colours=None):
    """All strictly increasing index tuples of `perm` whose entries are order-
    isomorphic to `patt`, in lexicographic order (C01).  With colourings, only
    those whose colours match."""
    k = len(patt)
    out = []
    for idx in itertools.combinations(range(len(perm)), k):
        if order_iso([perm[i] for i in idx], patt):
            if patt_colours is not None and any(
                perm_colours[i] != patt_colours[j] for j, i in enumerate(idx)
            ):
                continue
            out.append(idx)
    return out


def mesh_occurrence_ok(idx, shading, perm):
    """idx is a classical occurrence; no other point of perm lies in a shaded cell of
    the grid drawn through the occurrence (C03).  Region formulation: the open
    rectangle between consecutive occurrence columns / rows."""
    k = len(idx)
    n = len(perm)
    cols = [-1] + list(idx) + [n]
    rows = [-1] + sorted(perm[i] for i in idx) + [n]
    for (x, y) in shading:
        if not (0 <= x <= k and 0 <= y <= k):
            continue
        for i in range(cols[x] + 1, cols[x + 1]):
            if rows[y] < perm[i] < rows[y + 1]:
                return False
    return True


def mesh_occurrences(mesh, perm):
    patt, shading = mesh
    return [idx for idx in occurrences(patt, perm) if mesh_occurrence_ok(idx, shading, perm)]


def is_mesh(p):
    return len(p) == 2 and isinstance(p[1], (frozenset, set))


def patt_len(p):
    return len(p[0]) if is_mesh(p) else len(p)


def contains(perm, patt):
    if is_mesh(patt):
        pt, sh = patt
        return any(mesh_occurrence_ok(idx, sh, perm) for idx in occurrences(pt, perm))
    k = len(patt)
    if k > len(perm):
        return False
    return any(
        order_iso([perm[i] for i in idx], patt)
        for idx in itertools.combinations(range(len(perm)), k)
    )


def avoids_all(perm, patts):
    return not any(contains(perm, p) for p in patts)


def avoiders(n, patts):
    patts = list(patts)
    return [p for p in all_perms(n) if avoids_all(p, patts)]


@functools.lru_cache(maxsize=None)
def _avoiders_cached(n, patts):
    return tuple(avoiders(n, patts))


def avoiders_cached(n, patts):
    """patts must be hashable (tuple of tuples / (tuple, frozenset))."""
    return _avoiders_cached(n, tuple(patts))


def containers(patt, maxlen):
    """Set of permutations up to maxlen containing patt (the 'meaning' of a pattern
    truncated at maxlen)."""
    return frozenset(p for p in perms_upto(maxlen) if contains(p, patt))


# ------------------------------------------------- symmetries (geometric, C04)
# A permutation of length n is the point set {(i, p[i])}.  Coordinates are doubled
# so that points (even coordinates 2i) and cell centres (odd, 2x-1) live on one
# integer grid [-1, 2n-1]; c = 2n-2 is the mirror constant.
SYMS = ("id", "r1", "r2", "r3", "inverse", "reverse", "complement", "antidiag")


def _map(sym, X, Y, c):
    if sym == "id":
        return X, Y
    if sym == "reverse":
        return c - X, Y
    if sym == "complement":
        return X, c - Y
    if sym == "inverse":
        return Y, X
    if sym == "antidiag":
        return c - Y, c - X
    if sym == "r1":  # rotate 90 degrees clockwise
        return Y, c - X
    if sym == "r2":
        return c - X, c - Y
    if sym == "r3":
        return c - Y, X
    raise KeyError(sym)


def sym_perm(sym, perm):
    n = len(perm)
    c = 2 * n - 2
    pts = sorted(_map(sym, 2 * i, 2 * perm[i], c) for i in range(n))
    assert [x for x, _ in pts] == [2 * i for i in range(n)]
    return tuple(y // 2 for _, y in pts)


def sym_mesh(sym, mesh):
    patt, shading = mesh
    n = len(patt)
    c = 2 * n - 2
    cells = set()
    for (x, y) in shading:
        X, Y = _map(sym, 2 * x - 1, 2 * y - 1, c)
        cells.add(((X + 1) // 2, (Y + 1) // 2))
    return sym_perm(sym, patt), frozenset(cells)


def sym_any(sym, p):
    return sym_mesh(sym, p) if is_mesh(p) else sym_perm(sym, p)


def orbit(p):
    return {sym_any(s, p) for s in SYMS}


def rot_name(k):
    return ("id", "r1", "r2", "r3")[k % 4]


# ----------------------------------------------------------- conversions
def to_spec(obj):
    """permuta object -> spec representation (reads only tuple content / the two
    attributes `pattern`, `shading`)."""
    if hasattr(obj, "shading"):
        return (tuple(tuple.__iter__(obj.pattern)), frozenset(tuple(c) for c in obj.shading))
    return tuple(tuple.__iter__(obj))
