"""Independent definitions of the permutation statistics and positional listings
of property C11.  Plain tuples in (a permutation of range(n)), plain values out.
Nothing here calls permuta.

Definition sources (DESIGN section 7, C11, "Definition sources and ambiguity policy"):
  textbook     - the definition is standard (inversions, descents, records, ...)
  docstring    - the definition is the one stated in the docstring of the function
  from-docstring - the docstring only cites FindStat/arXiv (not reachable
                 offline); the oracle is re-derived from the wording + doctests and
                 written in a different form than the code (see SOURCES)
All indices and values are 0-based, listings are in increasing position order
unless stated otherwise.
"""
import functools
import itertools
from collections import Counter

from . import core as S


# ------------------------------------------------------------------ helpers
def inverse(t):
    out = [0] * len(t)
    for i, v in enumerate(t):
        out[v] = i
    return tuple(out)


def compose(a, b):
    """(a o b)(i) = a[b[i]]"""
    return tuple(a[x] for x in b)


def _adjacent(t):
    return [(i, t[i], t[i + 1]) for i in range(len(t) - 1)]


def _triples(t):
    return [(i, t[i - 1], t[i], t[i + 1]) for i in range(1, len(t) - 1)]


# ----------------------------------------------------- positional listings
def fixed_points(t):
    return [i for i in range(len(t)) if t[i] == i]


def strong_fixed_points(t):
    """i is a strong fixed point: t[i] = i, everything to the left is smaller and
    everything to the right is larger."""
    n = len(t)
    return [
        i
        for i in range(n)
        if t[i] == i and all(t[j] < t[i] for j in range(i)) and all(t[j] > t[i] for j in range(i + 1, n))
    ]


def descents(t, step=None):
    """Positions i with t[i] > t[i+1]; with a step size only those with
    t[i] - t[i+1] == step.  step < 1 is an error of the caller (ValueError)."""
    if step is not None and step < 1:
        raise ValueError("step size < 1")
    return [i for i, a, b in _adjacent(t) if a > b and (step is None or a - b == step)]


def ascents(t, step=None):
    if step is not None and step < 1:
        raise ValueError("step size < 1")
    return [i for i, a, b in _adjacent(t) if a < b and (step is None or b - a == step)]


def peaks(t):
    return [i for i, a, b, c in _triples(t) if a < b and b > c]


def valleys(t):
    return [i for i, a, b, c in _triples(t) if a > b and b < c]


def bends(t):
    """Positions where the direction changes = peaks and valleys together."""
    return sorted(set(peaks(t)) | set(valleys(t)))


def pinnacles(t):
    """Values at the peaks, in position order."""
    return [t[i] for i in peaks(t)]


def ltrmin(t):
    return [i for i in range(len(t)) if all(t[j] > t[i] for j in range(i))]


def ltrmax(t):
    return [i for i in range(len(t)) if all(t[j] < t[i] for j in range(i))]


def rtlmin(t):
    n = len(t)
    return [i for i in range(n) if all(t[j] > t[i] for j in range(i + 1, n))]


def rtlmax(t):
    n = len(t)
    return [i for i in range(n) if all(t[j] < t[i] for j in range(i + 1, n))]


def inversions(t):
    n = len(t)
    return [(i, j) for i in range(n) for j in range(i + 1, n) if t[i] > t[j]]


def non_inversions(t):
    n = len(t)
    return [(i, j) for i in range(n) for j in range(i + 1, n) if t[i] < t[j]]


def all_bonds(t):
    return [i for i, a, b in _adjacent(t) if abs(a - b) == 1]


def inc_bonds(t):
    return [i for i, a, b in _adjacent(t) if b - a == 1]


def dec_bonds(t):
    return [i for i, a, b in _adjacent(t) if a - b == 1]


# cyclic statistics of arXiv:1908.01084 as quoted in the docstrings: with x = t[i],
# cyclic peak i < x > t[x], cyclic valley i > x < t[x], double excedance
# i < x < t[x], double drop i > x > t[x]; the listing is of the positions i.
# Written over the values x (i = preimage of x) to differ in form from the code.
def _cyclic(t, rel_in, rel_out):
    inv = inverse(t)
    hits = [inv[x] for x in range(len(t)) if rel_in(inv[x], x) and rel_out(x, t[x])]
    return sorted(hits)


def cyclic_peaks(t):
    return _cyclic(t, lambda i, x: i < x, lambda x, y: x > y)


def cyclic_valleys(t):
    return _cyclic(t, lambda i, x: i > x, lambda x, y: x < y)


def double_excedance(t):
    return _cyclic(t, lambda i, x: i < x, lambda x, y: x < y)


def double_drops(t):
    return _cyclic(t, lambda i, x: i > x, lambda x, y: x > y)


# fore/after maxima/minima.  LIBRARY'S DOCUMENTED READING (pinned by doctests):
# a "double ascent" at i means t[i+1] - t[i] == 2, a "double descent" at i means
# t[i] - t[i+1] == 2.  (arXiv:1908.01084 most likely means t[i-1] < t[i] < t[i+1];
# recorded as an observation, not raised - DESIGN section 7 C11.)  Sorted lists.
def foremaxima(t):
    return sorted(set(ascents(t, 2)) & set(ltrmax(t)))


def afterminima(t):
    return sorted(set(ascents(t, 2)) & set(rtlmin(t)))


def aftermaxima(t):
    return sorted(set(descents(t, 2)) & set(rtlmax(t)))


def foreminima(t):
    return sorted(set(descents(t, 2)) & set(ltrmin(t)))


# ---------------------------------------------------------------- cycles
def cycles(t):
    """The orbits of i -> t[i], each written starting from its largest element and
    following the map, ordered by increasing largest element (the convention shown
    in the docstring of Perm.cycle_decomp)."""
    seen = set()
    out = []
    for start in range(len(t)):
        if start in seen:
            continue
        orbit = [start]
        seen.add(start)
        x = t[start]
        while x != start:
            orbit.append(x)
            seen.add(x)
            x = t[x]
        k = orbit.index(max(orbit))
        out.append(orbit[k:] + orbit[:k])
    return sorted(out, key=lambda c: c[0])


def order(t):
    """Least k >= 1 with t^k = identity."""
    ident = tuple(range(len(t)))
    cur, k = tuple(t), 1
    while cur != ident:
        cur = compose(t, cur)
        k += 1
    return k


def is_involution(t):
    return all(t[t[i]] == i for i in range(len(t)))


def sign(t):
    """+1 / -1, from the cycle type: (-1)^(n - #cycles)."""
    return -1 if (len(t) - len(cycles(t))) % 2 else 1


# ------------------------------------------------------------ numeric stats
def rank_encoding(t):
    n = len(t)
    return [sum(1 for j in range(i + 1, n) if t[j] < t[i]) for i in range(n)]


def major_index(t):
    """Sum of the 1-based positions of the descents."""
    return sum(i + 1 for i in descents(t))


def depth(t):
    """Petersen-Tenner depth: sum over excedances of t[i] - i; equivalently half the
    total displacement.  Both forms are evaluated."""
    a = sum(t[i] - i for i in range(len(t)) if t[i] > i)
    b = sum(abs(t[i] - i) for i in range(len(t)))
    assert 2 * a == b
    return a


def maximal_decreasing_run(t):
    """docstring: "the longest decreasing run of consecutive elements starting from
    the largest": the largest k such that the values n-1, n-2, ..., n-k occur in this
    order from left to right (doctests: 31240 -> 1, 021 -> 2, 504123 -> 3)."""
    n = len(t)
    inv = inverse(t)
    k = 0
    while k < n and (k == 0 or inv[n - 1 - k] > inv[n - k]):
        k += 1
    return k


def _runs(t, up):
    """Maximal contiguous monotone runs as (start, length)."""
    n = len(t)
    out = []
    i = 0
    while i < n:
        j = i
        while j + 1 < n and ((t[j] < t[j + 1]) if up else (t[j] > t[j + 1])):
            j += 1
        out.append((i, j - i + 1))
        i = j + 1
    return out


def longestruns(t, up=True):
    """(length of the longest ascending run, starts of all runs of that length);
    (0, []) for the empty permutation."""
    runs = _runs(t, up)
    if not runs:
        return (0, [])
    m = max(length for _, length in runs)
    return (m, [s for s, length in runs if length == m])


def longest_increasing_subsequence(t):
    n = len(t)
    best = [1] * n
    for i in range(n):
        for j in range(i):
            if t[j] < t[i]:
                best[i] = max(best[i], best[j] + 1)
    return max(best, default=0)


def longest_decreasing_subsequence(t):
    n = len(t)
    best = [1] * n
    for i in range(n):
        for j in range(i):
            if t[j] > t[i]:
                best[i] = max(best[i], best[j] + 1)
    return max(best, default=0)


def longest_monotone_subsequence_bruteforce(t, up=True):
    """Definition-level: the largest k such that the monotone pattern of length k is
    contained (used to validate the O(n^2) recurrences above on small n)."""
    k = 0
    while k < len(t):
        patt = tuple(range(k + 1)) if up else tuple(range(k, -1, -1))
        if not S.contains(t, patt):
            break
        k += 1
    return k


def count_bounces(t):
    """FindStat St000133 (from-docstring; the docstring has three examples only).
    Reading: a bounce path through the prefixes.  b_0 = (position of the value 0)+1;
    b_{k+1} = the length of the shortest prefix of t that contains all the values
    0..b_k; stop as soon as b_k >= n.  The statistic is sum(n - b_k)."""
    n = len(t)
    if n == 0:
        return 0

    def shortest_prefix_with(values):
        need = set(values)
        for m in range(n + 1):
            if need <= set(t[:m]):
                return m
        raise AssertionError

    b = [shortest_prefix_with([0])]
    while b[-1] < n:
        b.append(shortest_prefix_with(range(min(b[-1], n - 1) + 1)))
    return sum(n - x for x in b)


def max_drop_size(t):
    """LIBRARY'S DOCUMENTED READING: max(t[i] - i), 0 for the empty permutation."""
    return max([t[i] - i for i in range(len(t))], default=0)


def _blocks(values):
    """Number of maximal intervals of consecutive integers in a set = number of
    elements m with m+1 not in the set."""
    s = sorted(values)
    return sum(1 for k, v in enumerate(s) if k + 1 == len(s) or s[k + 1] != v + 1)


def holeyness(t):
    """FindStat St001469 / MathOverflow 340179: delta(S) = #{m in S: m+1 not in S};
    holeyness = max over all subsets S of positions of delta(t(S)) - delta(S)."""
    n = len(t)
    best = None
    for mask in range(1 << n):
        pos = [i for i in range(n) if mask >> i & 1]
        d = _blocks(t[i] for i in pos) - _blocks(pos)
        if best is None or d > best:
            best = d
    return best


@functools.lru_cache(maxsize=None)
def sieve(limit):
    """tuple of booleans: is k prime, 0 <= k <= limit (Eratosthenes)."""
    flags = [True] * (limit + 1)
    for k in range(min(2, limit + 1)):
        flags[k] = False
    p = 2
    while p * p <= limit:
        if flags[p]:
            for m in range(p * p, limit + 1, p):
                flags[m] = False
        p += 1
    return tuple(flags)


def is_prime_trial(k):
    """Definition: k > 1 with no divisor d, 1 < d < k (for spot checks beyond the sieve)."""
    if k < 2:
        return False
    d = 2
    while d * d <= k:
        if k % d == 0:
            return False
        d += 1
    return True


def count_column_sum_primes(t):
    """FindStat St001285: primes among the column sums i + t(i) of the two-line
    notation, 1-based."""
    n = len(t)
    pr = sieve(max(2 * n, 2))
    return sum(1 for i in range(n) if pr[(i + 1) + (t[i] + 1)])


def pattern_counts(t, k):
    """{pattern of length k: number of occurrences} for the patterns that occur."""
    return dict(Counter(S.std([t[i] for i in idx]) for idx in itertools.combinations(range(len(t)), k)))


def min_gapsize(t):
    """min over pairs i<j of |i-j| + |t[i]-t[j]|; undefined (None) for n < 2."""
    n = len(t)
    if n < 2:
        return None
    return min(abs(i - j) + abs(t[i] - t[j]) for i in range(n) for j in range(i + 1, n))


def layers(seq):
    """docstring of Perm.rtlmax_ltrmin_decomposition: the first layer is the union of
    the right-to-left maxima and the left-to-right minima; the next layer is defined
    in the same way for the permutation with the first layer removed, and so on.
    Each layer lists positions *within the current remainder* (doctests).  Records
    only depend on the relative order, so the remainder needs no standardising."""
    cur = list(seq)
    out = []
    while cur:
        pos = sorted(set(rtlmax(cur)) | set(ltrmin(cur)))
        out.append(pos)
        cur = [cur[i] for i in range(len(cur)) if i not in pos]
    return out


def layers_buggy_unstandardised(seq):
    """NOT a definition.  Model of the known defect (DESIGN section 8 item 12):
    left-to-right minima of the un-standardised remainder are searched below the
    threshold len(remainder).  Used only by the known-finding predicate."""
    cur = list(seq)
    out = []
    while cur:
        thr = len(cur)
        lmin = []
        for i, v in enumerate(cur):
            if v < thr:
                thr = v
                lmin.append(i)
        pos = sorted(set(rtlmax(cur)) | set(lmin))
        out.append(pos)
        cur = [cur[i] for i in range(len(cur)) if i not in pos]
    return out


# --------------------------------------------------- classical number tables
def mahonian_row(n):
    """Coefficients of prod_{i=1..n} (1 + q + ... + q^(i-1)): the distribution of
    inv and of maj on S_n."""
    row = [1]
    for i in range(1, n + 1):
        new = [0] * (len(row) + i - 1)
        for a, c in enumerate(row):
            for b in range(i):
                new[a + b] += c
        row = new
    return row


def eulerian_row(n):
    """A(n, k) = #permutations of length n with k descents."""
    if n == 0:
        return [1]
    row = [1]
    for m in range(2, n + 1):
        new = [0] * m
        for k in range(m):
            a = row[k] if k < len(row) else 0
            b = row[k - 1] if k >= 1 else 0
            new[k] = (k + 1) * a + (m - k) * b
        row = new
    return row


def stirling_cycle_row(n):
    """c(n, k) = #permutations of length n with k cycles (= with k left-to-right
    maxima), k = 0..n."""
    row = [1]
    for m in range(1, n + 1):
        new = [0] * (m + 1)
        for k in range(m + 1):
            a = row[k - 1] if k >= 1 else 0
            b = row[k] if k < len(row) else 0
            new[k] = a + (m - 1) * b
        row = new
    return row


SOURCES = {
    "count_bounces": "from-docstring",
    "holeyness": "from-docstring (definition recalled from St001469 / MO 340179)",
    "max_drop_size": "from-docstring (library reading max(t[i]-i))",
    "count_column_sum_primes": "from-docstring",
    "maximal_decreasing_run": "from-docstring",
    "foremaxima/afterminima/aftermaxima/foreminima": "library's documented reading (value step 2)",
}
