"""Definition-level oracles for C13 (finiteness, polynomial growth, regular
insertion encodings).  Plain tuples in, plain values out; nothing here calls permuta.

Sources (statements of the theorems, used as contracts):
* Erdos-Szekeres: Av(B) is finite  <=>  B has an increasing and a decreasing element;
  then Av_n(B) is empty for n >= (k-1)(l-1)+1, k / l the lengths of the shortest
  increasing / decreasing element of B.
* Kaiser-Klazar / Huczynska-Vatter / Homberger-Vatter: Av(B) has polynomial growth
  <=> B has an element in each of ten classes: the juxtapositions of two monotone
  sequences side by side (four sign patterns), the same on top of each other (the
  inverses), the layered permutations with layers of size <= 2 and their reverses;
  otherwise |Av_n(B)| >= the n-th Fibonacci number (1, 2, 3, 5, 8, ... for n = 1, 2, ...).
* Albert-Linton-Ruskuc (Thm 16) / Vatter: Av(B) has a regular insertion encoding
  (new maximum inserted) <=> B has an element in each of
      Av(123, 3142, 3412), Av(132, 312), Av(213, 231), Av(321, 2143, 2413);
  for the rightmost-insertion variant take the inverse picture (swap positions and
  values), i.e. the four side-by-side juxtapositions of two monotone runs.
"""
INC, DEC = +1, -1


# ------------------------------------------------------------------ monotone
def monotone(seq, d):
    """seq (distinct values) is strictly increasing (d=+1) / decreasing (d=-1);
    sequences of length <= 1 are both."""
    seq = list(seq)
    if d == INC:
        return all(seq[i] < seq[i + 1] for i in range(len(seq) - 1))
    return all(seq[i] > seq[i + 1] for i in range(len(seq) - 1))


def is_increasing(p):
    return monotone(p, INC)


def is_decreasing(p):
    return monotone(p, DEC)


# ---------------------------------------------------------------- finiteness
def spec_is_finite(basis):
    basis = [tuple(b) for b in basis]
    return any(is_increasing(b) for b in basis) and any(is_decreasing(b) for b in basis)


def erdos_szekeres_bound(basis):
    """Smallest length that Erdos-Szekeres guarantees to be empty (None if infinite)."""
    basis = [tuple(b) for b in basis]
    inc = [len(b) for b in basis if is_increasing(b)]
    dec = [len(b) for b in basis if is_decreasing(b)]
    if not inc or not dec:
        return None
    k, l = min(inc), min(dec)
    if k == 0 or l == 0:
        return 0  # the empty permutation is a basis element: the class is empty
    return (k - 1) * (l - 1) + 1


# --------------------------------------------------- juxtapositions (W classes)
def side_by_side(p, d1, d2):
    """p = u v (concatenation) with u monotone of direction d1 and v monotone of
    direction d2 (either part may be empty)."""
    return any(monotone(p[:t], d1) and monotone(p[t:], d2) for t in range(len(p) + 1))


def stacked(p, d1, d2):
    """The points of p split by a horizontal line: the points below it, read by
    increasing value, have positions monotone d1; those above, monotone d2.  (This is
    `side_by_side` of the inverse picture.)"""
    n = len(p)
    pos = [None] * n
    for i, v in enumerate(p):
        pos[v] = i
    return any(monotone(pos[:t], d1) and monotone(pos[t:], d2) for t in range(n + 1))


# ------------------------------------------------------------ layered classes
def compositions12(n):
    """All ways to write n as an ordered sum of 1s and 2s."""
    if n == 0:
        yield ()
        return
    if n >= 1:
        for c in compositions12(n - 1):
            yield (1,) + c
    if n >= 2:
        for c in compositions12(n - 2):
            yield (2,) + c


def layered(comp):
    """Direct sum of decreasing blocks of the given sizes."""
    out, base = [], 0
    for s in comp:
        out.extend(range(base + s - 1, base - 1, -1))
        base += s
    return tuple(out)


def colayered(comp):
    """Skew sum of increasing blocks of the given sizes (= reverse of a layered one)."""
    n = sum(comp)
    out, top = [], n
    for s in comp:
        out.extend(range(top - s, top))
        top -= s
    return tuple(out)


def is_layered2(p):
    return any(tuple(p) == layered(c) for c in compositions12(len(p)))


def is_colayered2(p):
    return any(tuple(p) == colayered(c) for c in compositions12(len(p)))


# --------------------------------------------------------- the ten classes
TEN = {
    "W++": lambda p: side_by_side(p, INC, INC),
    "W+-": lambda p: side_by_side(p, INC, DEC),
    "W-+": lambda p: side_by_side(p, DEC, INC),
    "W--": lambda p: side_by_side(p, DEC, DEC),
    "Winv++": lambda p: stacked(p, INC, INC),
    "Winv+-": lambda p: stacked(p, INC, DEC),
    "Winv-+": lambda p: stacked(p, DEC, INC),
    "Winv--": lambda p: stacked(p, DEC, DEC),
    "L2": is_layered2,
    "L2rev": is_colayered2,
}
HORIZONTAL = ("W++", "W+-", "W-+", "W--")
VERTICAL = ("Winv++", "Winv+-", "Winv-+", "Winv--")

# Pattern-avoidance descriptions from the literature (0-based), used to cross-check
# the split definitions above (spec self-check in props/c13.py):
#  ALR Theorem 16 classes (maximum insertion) ...
ALR_MAXIMUM = {
    "Winv--": ((0, 1, 2), (2, 0, 3, 1), (2, 3, 0, 1)),  # Av(123, 3142, 3412)
    "Winv-+": ((0, 2, 1), (2, 0, 1)),                    # Av(132, 312)
    "Winv+-": ((1, 0, 2), (1, 2, 0)),                    # Av(213, 231)
    "Winv++": ((2, 1, 0), (1, 0, 3, 2), (1, 3, 0, 2)),  # Av(321, 2143, 2413)
}
#  ... and Atkinson's bases of the side-by-side juxtapositions
ATKINSON_HORIZONTAL = {
    "W--": ((0, 1, 2), (1, 3, 0, 2), (2, 3, 0, 1)),
    "W-+": ((0, 2, 1), (1, 2, 0)),
    "W+-": ((1, 0, 2), (2, 0, 1)),
    "W++": ((2, 1, 0), (1, 0, 3, 2), (2, 0, 3, 1)),
}


def classes_met(basis, names=tuple(TEN)):
    basis = [tuple(b) for b in basis]
    return {c for c in names if any(TEN[c](b) for b in basis)}


def spec_is_polynomial(basis):
    return len(classes_met(basis)) == 10


def spec_rightmost(basis):
    return len(classes_met(basis, HORIZONTAL)) == 4


def spec_maximum(basis):
    return len(classes_met(basis, VERTICAL)) == 4


def spec_insertion_encodable(basis):
    return spec_rightmost(basis) or spec_maximum(basis)


# ------------------------------------------------------------ counting helpers
def fib_lower_bound(n):
    """min over the ten classes of the number of members of length n: 1, 1, 2, 3, 5, 8
    for n = 0, 1, 2, ... (number of compositions of n into 1s and 2s; checked against
    the ten classes themselves in C13.spec.ten_classes)."""
    a, b = 1, 1
    for _ in range(n):
        a, b = b, a + b
    return a


def differences(seq):
    return [seq[i + 1] - seq[i] for i in range(len(seq) - 1)]


def eventually_polynomial_degree(seq, tail=3, maxdeg=None):
    """Smallest d such that the d-th differences of seq are constant on their last
    `tail` entries (None if there is none with at least `tail` entries left)."""
    cur = list(seq)
    d = 0
    while len(cur) >= tail and (maxdeg is None or d <= maxdeg):
        if len(set(cur[-tail:])) == 1:
            return d
        cur = differences(cur)
        d += 1
    return None
