"""Table-driven evaluation of the mesh-containment definition of specs.core.

Nothing here is a new definition: an occurrence is an element of
`core.occurrences(patt, perm)`, and the *cell of a point* is found by the same region
formulation as `core.mesh_occurrence_ok` (the open rectangle between consecutive
occurrence columns / rows).  The only addition is that, per (classical pattern,
permutation), the cells occupied by the remaining points are computed once and kept
as a bit mask, so that `contains(perm, (patt, R))` for many shadings R of one
underlying pattern costs one AND per occurrence.  `selfcheck` compares the tables
with `core.contains` / `core.containers`; props call it at start-up (a disagreement
is a checker crash, never a violation).

Never calls permuta.
"""
import functools

from . import core as S


def cell_of_point(idx, perm, i):
    """Cell (x, y) of the grid drawn through the occurrence `idx` of `perm` in which
    the point (i, perm[i]) lies (i not in idx)."""
    k = len(idx)
    n = len(perm)
    cols = [-1] + list(idx) + [n]
    rows = [-1] + sorted(perm[j] for j in idx) + [n]
    xs = [x for x in range(k + 1) if cols[x] < i < cols[x + 1]]
    ys = [y for y in range(k + 1) if rows[y] < perm[i] < rows[y + 1]]
    assert len(xs) == 1 and len(ys) == 1, (idx, perm, i)
    return xs[0], ys[0]


def bit(k, cell):
    return 1 << (cell[0] * (k + 1) + cell[1])


def mask(k, cells):
    """Cells outside the (k+1) x (k+1) grid constrain nothing (as in core)."""
    m = 0
    for (x, y) in cells:
        if 0 <= x <= k and 0 <= y <= k:
            m |= bit(k, (x, y))
    return m


def iter_rows(patt, perm):
    """For every classical occurrence idx of patt in perm (lexicographic order):
    (idx, mask of occupied cells, ((i, cell), ...) for the other points i)."""
    k = len(patt)
    for idx in S.occurrences(patt, perm):
        inside = set(idx)
        pts = tuple((i, cell_of_point(idx, perm, i)) for i in range(len(perm)) if i not in inside)
        m = 0
        for _, c in pts:
            m |= bit(k, c)
        yield (idx, m, pts)


@functools.lru_cache(maxsize=None)
def occ_rows(patt, perm):
    return tuple(iter_rows(patt, perm))


CACHE_LEN = 6  # longer permutations are not memoised (S_8 sweeps would not fit)


def contains(perm, mesh):
    patt, sh = mesh
    r = mask(len(patt), sh)
    if not r:
        return S.contains(perm, patt)
    rows = occ_rows(patt, perm) if len(perm) <= CACHE_LEN else iter_rows(patt, perm)
    return any(not (m & r) for _, m, _ in rows)


def mesh_occurrences(mesh, perm):
    patt, sh = mesh
    r = mask(len(patt), sh)
    return [idx for idx, m, _ in occ_rows(patt, perm) if not (m & r)]


@functools.lru_cache(maxsize=None)
def table(patt, maxlen):
    """((perm, occ_rows(patt, perm)), ...) for all permutations of length
    len(patt)..maxlen that contain patt classically."""
    out = []
    for n in range(len(patt), maxlen + 1):
        for perm in S.all_perms(n):
            rows = occ_rows(patt, perm)
            if rows:
                out.append((perm, rows))
    return tuple(out)


def containers(mesh, maxlen):
    """= core.containers(mesh, maxlen)."""
    patt, sh = mesh
    r = mask(len(patt), sh)
    return frozenset(perm for perm, rows in table(patt, maxlen) if any(not (m & r) for _, m, _ in rows))


def selfcheck(rng, count=40, maxlen=5):
    """The tables agree with the plain definition (core) on seeded mesh patterns of
    length 0..3 and all permutations up to maxlen."""
    import itertools

    for j in range(count):
        k = (0, 1, 2, 2, 3, 3)[j % 6]
        patt = tuple(rng.sample(range(k), k))
        cells = [(x, y) for x in range(k + 1) for y in range(k + 1)]
        sh = frozenset(c for c in cells if rng.random() < rng.choice((0.15, 0.4, 0.7)))
        mesh = (patt, sh)
        if containers(mesh, maxlen) != S.containers(mesh, maxlen):
            raise AssertionError(f"specs.meshfast disagrees with specs.core on {mesh}")
        for perm in itertools.islice(S.all_perms(maxlen), 7):
            if mesh_occurrences(mesh, perm) != S.mesh_occurrences(mesh, perm):
                raise AssertionError(f"specs.meshfast occurrence listing differs on {mesh}, {perm}")
