"""Device simulations of the sorting operators, the Simion-Schmidt contract and
independent definitions of the named families of property C12.
Plain tuples in, plain values out; nothing here calls permuta.
"""
import bisect
import itertools

from . import core as S
from . import statistics as ST


def is_identity(seq):
    return list(seq) == list(range(len(seq)))


# ------------------------------------------------------------ the devices
def stack_pass(seq):
    """One pass through a stack (West's map S): read the input left to right; before
    pushing x, pop to the output every stack entry smaller than x; at the end empty
    the stack."""
    stack, out = [], []
    for x in seq:
        while stack and stack[-1] < x:
            out.append(stack.pop())
        stack.append(x)
    while stack:
        out.append(stack.pop())
    return tuple(out)


def pop_stack_pass(seq):
    """One pass through a pop-stack: a pop empties the whole stack.  x may be pushed
    only on a larger top; otherwise the stack is emptied (top first) before the push."""
    stack, out = [], []
    for x in seq:
        if stack and stack[-1] < x:
            while stack:
                out.append(stack.pop())
        stack.append(x)
    while stack:
        out.append(stack.pop())
    return tuple(out)


def bubble_pass(seq):
    """One pass of bubble sort: compare-exchange of adjacent cells, left to right."""
    a = list(seq)
    for i in range(len(a) - 1):
        if a[i] > a[i + 1]:
            a[i], a[i + 1] = a[i + 1], a[i]
    return tuple(a)


def quick_pass(seq):
    """One pass of quicksort with strong fixed points as pivots: the strong fixed
    points stay; every maximal segment between consecutive strong fixed points (it has
    none of its own) is partitioned around its first entry: smaller entries in their
    order, the first entry, larger entries in their order."""
    t = tuple(seq)
    n = len(t)
    sfp = ST.strong_fixed_points(S.std(t))
    out = []
    bounds = [-1] + sfp + [n]
    for a, b in zip(bounds, bounds[1:]):
        if a >= 0:
            out.append(t[a])
        seg = t[a + 1 : b]
        if seg:
            pivot = seg[0]
            out.extend([x for x in seg if x < pivot] + [pivot] + [x for x in seg if x > pivot])
    return tuple(out)


def passes_needed(seq, one_pass, limit=None):
    """Least k >= 0 such that k passes of the device sort seq."""
    cur = tuple(seq)
    k = 0
    limit = len(cur) + 1 if limit is None else limit
    while not is_identity(cur):
        cur = one_pass(cur)
        k += 1
        if k > limit:
            raise AssertionError("device does not sort within n+1 passes")
    return k


def sorted_by_passes(seq, one_pass, k):
    cur = tuple(seq)
    for _ in range(k):
        cur = one_pass(cur)
    return is_identity(cur)


# ------------------------------------------- pattern characterisations
P231 = (1, 2, 0)
P312 = (2, 0, 1)
P321 = (2, 1, 0)
P2341 = (1, 2, 3, 0)
P3241 = (2, 1, 3, 0)


def stack_sortable_by_patterns(t):  # Knuth
    return not S.contains(t, P231)


def pop_stack_sortable_by_patterns(t):  # Avis & Newborn
    return not S.contains(t, P231) and not S.contains(t, P312)


def bubble_sortable_by_patterns(t):  # Albert, Atkinson, Bouvel, Claesson, Dukes
    return not S.contains(t, P231) and not S.contains(t, P321)


def west2_by_patterns(t):
    """West: two passes sort t iff t avoids 2341 and the barred pattern 3-5bar-241:
    every occurrence a<b<c<d of 3241 has an entry strictly between positions a and b
    that is larger than t[c]."""
    if S.contains(t, P2341):
        return False
    for a, b, c, _d in S.occurrences(P3241, t):
        if not any(t[e] > t[c] for e in range(a + 1, b)):
            return False
    return True


# ----------------------------------------------------- Simion - Schmidt
P123 = (0, 1, 2)
P132 = (0, 2, 1)


def avoiders_by_insertion(n, patt):
    """All permutations of length n avoiding the classical pattern patt, built by
    inserting the new maximum into the avoiders of length n-1 (classes are closed
    under deleting an entry) and filtering with the definition of containment."""
    level = [()]
    for m in range(1, n + 1):
        nxt = []
        for p in level:
            for pos in range(m):
                q = p[:pos] + (m - 1,) + p[pos:]
                if not S.contains(q, patt):
                    nxt.append(q)
        level = nxt
    return sorted(level)


def ltrmin_data(t):
    return [(i, t[i]) for i in ST.ltrmin(t)]


def unique_with_same_ltrmin(t, candidates):
    """The members of `candidates` with the same positions and values of left-to-right
    minima as t."""
    want = ltrmin_data(t)
    return [c for c in candidates if ltrmin_data(c) == want]


# ----------------------------------------------------------- the families
def smooth(t):
    """docstring: 0213- and 1032-avoiding."""
    return not S.contains(t, (0, 2, 1, 3)) and not S.contains(t, (1, 0, 3, 2))


def forest_like(t):
    """Bousquet-Melou & Butler, in the convention of the library (complemented
    Schubert indexing, as for `smooth`): avoids 1324 and the barred pattern
    21-3bar-54, i.e. every occurrence a<b<c<d of 2143 has an entry strictly between
    positions b and c whose value lies strictly between t[a] and t[d]."""
    if S.contains(t, (0, 2, 1, 3)):
        return False
    for a, b, c, d in S.occurrences((1, 0, 3, 2), t):
        if not any(t[a] < t[e] < t[d] for e in range(b + 1, c)):
            return False
    return True


def baxter(t):
    """No i < j < j+1 < k with t[j+1] < t[i] < t[k] < t[j] (2-41-3) or
    t[j] < t[k] < t[i] < t[j+1] (3-14-2)."""
    n = len(t)
    for j in range(n - 1):
        for i in range(j):
            for k in range(j + 2, n):
                if t[j + 1] < t[i] < t[k] < t[j] or t[j] < t[k] < t[i] < t[j + 1]:
                    return False
    return True


_COL2 = frozenset((2, y) for y in range(5))


def baxter_vincular(t):
    """The same family through specs.core: the vincular patterns 2-41-3 and 3-14-2 as
    mesh patterns with the whole column between the two middle entries shaded."""
    return not S.contains(t, ((1, 3, 0, 2), _COL2)) and not S.contains(t, ((2, 0, 3, 1), _COL2))


def simsun(t):
    """For every k the restriction of t to the values < k has no double descent
    (three consecutive decreasing entries)."""
    for k in range(len(t) + 1):
        r = [v for v in t if v < k]
        if any(r[i] > r[i + 1] > r[i + 2] for i in range(len(r) - 2)):
            return False
    return True


def dihedral_elements(n):
    """The subgroup of S_n generated by the rotation i -> i+1 (mod n) and the
    reflection i -> n-1-i, as a set of tuples (closure under composition)."""
    rot = tuple((i + 1) % n for i in range(n))
    ref = tuple(n - 1 - i for i in range(n))
    group = {tuple(range(n))}
    frontier = list(group)
    while frontier:
        g = frontier.pop()
        for h in (rot, ref):
            gh = ST.compose(g, h)
            if gh not in group:
                group.add(gh)
                frontier.append(gh)
    return group


def dihedral(t):
    """Library convention (docstring): D1 and D2 are not counted; nothing for n < 3."""
    n = len(t)
    if n < 3:
        return False
    return tuple(t) in dihedral_elements(n)


def in_alternating_group(t):
    """Even permutations (sign from the cycle type).  Library convention for n = 2
    (docstring, pinned by the tests): the group of S_2 is not counted -> False for both
    permutations of length 2; lengths 0 and 1: the identity is even."""
    n = len(t)
    if n == 2:
        return False
    return ST.sign(t) == 1


def rsk_shape(t):
    """Shape of the insertion tableau of Robinson-Schensted row insertion."""
    rows = []
    for v in t:
        x = v
        for row in rows:
            k = bisect.bisect_right(row, x)
            if k == len(row):
                row.append(x)
                x = None
                break
            row[k], x = x, row[k]
        if x is not None:
            rows.append([x])
    shape = [len(r) for r in rows]
    # Schensted: first row = longest increasing, first column = longest decreasing
    assert (shape[0] if shape else 0) == ST.longest_increasing_subsequence(t)
    assert len(shape) == ST.longest_decreasing_subsequence(t)
    assert all(a >= b for a, b in zip(shape, shape[1:])) and sum(shape) == len(t)
    return shape


def shape_contains(shape, inner):
    return len(shape) >= len(inner) and all(a >= b for a, b in zip(shape, inner))


def yt_avoids(t, inner):
    return not shape_contains(rsk_shape(t), inner)


_M_231_MESH = ((0, 1, 5, 2, 3, 4), frozenset([(1, 6), (4, 5), (4, 6)]))
_HARD = (
    ((0, 1, 2), frozenset([(0, 0), (1, 1), (2, 2), (3, 3)])),
    ((0, 1, 2), frozenset([(0, 3), (1, 2), (2, 1), (3, 0)])),
)


def av_231_and_mesh(t):
    """docstring: avoids 231 and MeshPatt(015234, {(1,6),(4,5),(4,6)})."""
    return not S.contains(t, P231) and not S.contains(t, _M_231_MESH)


def hard_mesh(t):
    """docstring: avoids the two mesh patterns on 012 with a shaded diagonal /
    anti-diagonal."""
    return not any(S.contains(t, m) for m in _HARD)
