"""Definition-level oracles for C18 (shading lemma, point insertion, region tests,
text rendering).  Plain tuples / frozensets in, plain values out; never calls permuta.

mesh pattern = (tuple, frozenset of cells).  Geometry: the point of index i and value
v sits at (i, v); cell (x, y) is the open unit-grid region with x-1 < X < x and
y-1 < Y < y (unbounded on the border of the grid), so its four corners are the
lattice points (x-1|x, y-1|y).
"""
from . import core as S
from . import meshfast as F

SHADE = "▒"
POINT = "●"


# ------------------------------------------------- occurrences with points in a cell
def having_point_in_cell(mesh, pos, maxlen):
    """{perm, |perm| <= maxlen : some occurrence of mesh in perm (shaded cells empty)
    has at least one further point of perm inside cell pos}."""
    patt, sh = mesh
    k = len(patt)
    r = F.mask(k, sh)
    b = F.bit(k, pos)
    return frozenset(
        perm for perm, rows in F.table(patt, maxlen) if any(not (m & r) and (m & b) for _, m, _ in rows)
    )


def _extremal(pts_in_cell, perm, direction):
    """Index of the extremal point among the indices pts_in_cell."""
    if direction == "east":
        return max(pts_in_cell)
    if direction == "west":
        return min(pts_in_cell)
    if direction == "north":
        return max(pts_in_cell, key=lambda i: perm[i])
    if direction == "south":
        return min(pts_in_cell, key=lambda i: perm[i])
    raise KeyError(direction)


def add_point_occurrences(mesh, pos, direction, perm):
    """Occurrences (sorted index tuples) that the pattern 'mesh with one more point in
    cell pos' must have in perm: an occurrence of mesh together with a point of perm
    in cell pos of that occurrence - any such point for direction 'none', else the
    easternmost / northernmost / westernmost / southernmost one."""
    patt, sh = mesh
    r = F.mask(len(patt), sh)
    out = []
    for idx, m, pts in F.occ_rows(patt, perm):
        if m & r:
            continue
        inside = [i for i, c in pts if c == pos]
        if not inside:
            continue
        chosen = inside if direction == "none" else [_extremal(inside, perm, direction)]
        for i in chosen:
            out.append(tuple(sorted(idx + (i,))))
    return sorted(out)


def having_pair_in_cell(mesh, pos, increasing, maxlen):
    """{perm : some occurrence of mesh has two further points in cell pos that form an
    increasing (resp. decreasing) pair}."""
    patt, sh = mesh
    k = len(patt)
    r = F.mask(k, sh)
    out = set()
    for perm, rows in F.table(patt, maxlen):
        for _, m, pts in rows:
            if m & r:
                continue
            inside = [i for i, c in pts if c == pos]
            if any((perm[i] < perm[j]) == increasing for a, i in enumerate(inside) for j in inside[a + 1:]):
                out.add(perm)
                break
    return frozenset(out)


# ------------------------------------------------------------------ region tests
def rect_shaded(mesh, ll, ur):
    """Every cell of the rectangle of cells ll..ur (inclusive) is shaded."""
    _, sh = mesh
    return all((x, y) in sh for x in range(ll[0], ur[0] + 1) for y in range(ll[1], ur[1] + 1))


def rect_pointfree(mesh, ll, ur):
    """No pattern point lies strictly inside the union of the cells ll..ur: the union is
    ll[0]-1 < X < ur[0], ll[1]-1 < Y < ur[1]."""
    patt, _ = mesh
    return not any(ll[0] - 1 < i < ur[0] and ll[1] - 1 < v < ur[1] for i, v in enumerate(patt))


def corner_values(mesh, cell):
    """Values of the pattern points sitting on one of the four corners of the cell."""
    patt, _ = mesh
    x, y = cell
    return {v for i, v in enumerate(patt) if i in (x - 1, x) and v in (y - 1, y)}


def cells_with_corner_point(mesh):
    patt, _ = mesh
    k = len(patt)
    return {(x, y) for x in range(k + 1) for y in range(k + 1) if corner_values(mesh, (x, y))}


def anchored(mesh):
    """(right, top, left, bottom): the whole last column / top row / first column /
    bottom row of cells is shaded."""
    patt, sh = mesh
    k = len(patt)
    rng = range(k + 1)
    return (
        all((k, j) in sh for j in rng),
        all((j, k) in sh for j in rng),
        all((0, j) in sh for j in rng),
        all((j, 0) in sh for j in rng),
    )


# ------------------------------------------------------------------- rendering
class PlotError(ValueError):
    pass


def _parse_point_line(line, n, c, value, patt):
    if len(line) != c * (n + 1) + n:
        raise PlotError(f"point line {line!r} has the wrong width")
    found = 0
    for j, ch in enumerate(line):
        if j % (c + 1) == c:
            i = j // (c + 1)
            if ch == POINT:
                if patt[i] is not None:
                    raise PlotError(f"two points in column {i}")
                patt[i] = value
                found += 1
            elif ch != "+":
                raise PlotError(f"unexpected {ch!r} at a crossing")
        elif ch != "-":
            raise PlotError(f"unexpected {ch!r} on a grid line")
    if found != 1:
        raise PlotError(f"{found} points in the row of value {value}")


def parse_mesh_plot(text, c):
    """Inverse of the documented rendering: from top to bottom, (c identical lines of
    '|'-separated cell fillings for row y) alternating with the grid line of value
    y-1; a filling is c copies of the shade mark (shaded) or c blanks (the last column
    is rendered without trailing blanks).  Returns (pattern, shading)."""
    lines = text.split("\n")
    total = len(lines)
    if total < c or (total - c) % (c + 1):
        raise PlotError(f"{total} lines cannot be a plot with cell size {c}")
    n = (total - c) // (c + 1)
    patt = [None] * n
    shading = set()
    at = 0
    for r in range(n + 1):
        y = n - r
        block = lines[at:at + c]
        at += c
        if len(set(block)) != 1:
            raise PlotError(f"rows of cell line {y} differ")
        fields = block[0].split("|")
        if len(fields) != n + 1:
            raise PlotError(f"cell line {y} has {len(fields)} cells")
        for x, f in enumerate(fields):
            if f == SHADE * c:
                shading.add((x, y))
            elif f == " " * c and x < n:
                pass
            elif f == "" and x == n:
                pass
            else:
                raise PlotError(f"cell ({x},{y}) rendered as {f!r}")
        if r < n:
            _parse_point_line(lines[at], n, c, n - 1 - r, patt)
            at += 1
    if any(v is None for v in patt):
        raise PlotError("a column without point")
    return tuple(patt), frozenset(shading)


def parse_perm_plot(text, c):
    """Perm.ascii_plot: same grid without shading; every cell line is n times
    (c blanks + '|').  c = 0: one line per value, two blanks or the point mark per
    column."""
    if c == 0:
        if text == "":
            return ()
        lines = text.split("\n")
        n = len(lines)
        patt = [None] * n
        for r, line in enumerate(lines):
            toks = line.replace("  ", "+")
            if len(toks) != n or toks.count(POINT) != 1 or set(toks) - {"+", POINT}:
                raise PlotError(f"line {line!r}")
            i = toks.index(POINT)
            if patt[i] is not None:
                raise PlotError("two points in a column")
            patt[i] = n - 1 - r
        return tuple(patt)
    lines = text.split("\n")
    total = len(lines)
    if total < c or (total - c) % (c + 1):
        raise PlotError(f"{total} lines cannot be a plot with cell size {c}")
    n = (total - c) // (c + 1)
    patt = [None] * n
    at = 0
    for r in range(n + 1):
        for line in lines[at:at + c]:
            if line != (" " * c + "|") * n:
                raise PlotError(f"cell line {line!r}")
        at += c
        if r < n:
            _parse_point_line(lines[at], n, c, n - 1 - r, patt)
            at += 1
    if any(v is None for v in patt):
        raise PlotError("a column without point")
    return tuple(patt)
