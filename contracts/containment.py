"""C01 / C03: every derived query agrees with the occurrence listing.

The listing itself (`occurrences_in`, a pruned backtracking search) is outside the deductive
subset: its contract is ASSUMED here (and decided by the bounded layer); what is proved is that
contains / avoids / `in` / counts are exactly the stated functions of that listing, for any
number and kind of patterns.  OCCN(pattern, target) is the SPEC number of occurrences (ghost)."""
from pyvc.dsl import GHOST_IMPL, contract


def _occn(patt, target):
    from specs import core as S

    if hasattr(patt, "shading"):
        return len(S.mesh_occurrences(S.to_spec(patt), tuple(target)))
    return len(S.occurrences(tuple(patt), tuple(target)))


GHOST_IMPL["OCCN"] = _occn
P = ("C01",)


# Perm.occurrences_in: verified, see contracts/occurrences.py (callers use its derived fact  len(result) == OCCN)


# MeshPatt.occurrences_in (target a permutation): verified, see contracts/mesh_occurrences.py


@contract("Perm._contains", params={"self": "Perm", "patt": "Perm"}, returns="bool", props=P)
class Contains1:
    def requires(c, self, patt):
        return c.and_(c.is_perm(self), c.is_perm(patt))

    def ensures(c, self, patt, result):
        return c.iff(result, c.ghost("OCCN", patt, self) > 0)

    modifies = ()


@contract("Perm._contains@mesh", params={"self": "Perm", "patt": "Mesh"}, returns="bool", props=("C03",))
class Contains1Mesh:
    def requires(c, self, patt):
        return c.and_(c.is_perm(self), c.is_mesh(patt))

    def ensures(c, self, patt, result):
        return c.iff(result, c.ghost("OCCN", patt, self) > 0)

    modifies = ()


@contract("Perm.__contains__", params={"self": "Perm", "patt": "Perm"}, returns="bool", props=P)
class DunderContains:
    def requires(c, self, patt):
        return c.and_(c.is_perm(self), c.is_perm(patt))

    def ensures(c, self, patt, result):
        return c.iff(result, c.ghost("OCCN", patt, self) > 0)

    modifies = ()


def _multi(qual, k, positive):
    params = {"self": "Perm"}
    params.update({f"patts#{i}": "Perm" for i in range(k)})

    @contract(qual, params=params, returns="bool", props=P)
    class _K:
        def requires(c, self, *ps):
            return c.and_(c.is_perm(self), *[c.is_perm(p) for p in ps])

        def ensures(c, self, *rest):
            *ps, result = rest
            if positive:
                return c.iff(result, c.and_(*[c.ghost("OCCN", p, self) > 0 for p in ps]))
            return c.iff(result, c.and_(*[c.ghost("OCCN", p, self) == 0 for p in ps]))

        modifies = ()

    return _K


for _k in (0, 1, 2, 3):
    _multi(f"Perm.contains@{_k + 1}", _k, True)
    _multi(f"Perm.avoids@{_k + 1}", _k, False)


@contract("Patt.count_occurrences_in", params={"self": "Perm", "patt": "Perm"}, returns="int", props=P)
class CountOccurrencesIn:
    def requires(c, self, patt):
        return c.and_(c.is_perm(self), c.is_perm(patt))

    def ensures(c, self, patt, result):
        return result == c.ghost("OCCN", self, patt)

    modifies = ()


@contract("Perm.count_occurrences_of", params={"self": "Perm", "patt": "Perm"}, returns="int", props=P)
class CountOccurrencesOf:
    def requires(c, self, patt):
        return c.and_(c.is_perm(self), c.is_perm(patt))

    def ensures(c, self, patt, result):
        return result == c.ghost("OCCN", patt, self)

    modifies = ()


@contract("Patt.contained_in@2", params={"self": "Perm", "patts#0": "Perm"}, returns="bool", props=P)
class ContainedIn:
    def requires(c, self, q):
        return c.and_(c.is_perm(self), c.is_perm(q))

    def ensures(c, self, q, result):
        return c.iff(result, c.ghost("OCCN", self, q) > 0)

    modifies = ()


@contract("Patt.avoided_by@2", params={"self": "Perm", "patts#0": "Perm"}, returns="bool", props=P)
class AvoidedBy:
    def requires(c, self, q):
        return c.and_(c.is_perm(self), c.is_perm(q))

    def ensures(c, self, q, result):
        return c.iff(result, c.ghost("OCCN", self, q) == 0)

    modifies = ()


def _avoids_set(k):
    @contract(f"Perm.avoids_set@{k}", params={"self": "Perm", "patts": f"Perm*{k}"}, returns="bool", props=P)
    class _K:
        # avoids_set(collection of k patterns): none of them occurs
        def requires(c, self, patts):
            return c.and_(c.is_perm(self), *[c.is_perm(p) for p in patts])

        def ensures(c, self, patts, result):
            return c.iff(result, c.and_(*[c.ghost("OCCN", p, self) == 0 for p in patts]))

        modifies = ()

    return _K


for _k in (0, 1, 2, 3):
    _avoids_set(_k)
